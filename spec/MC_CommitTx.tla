---------------------------- MODULE MC_CommitTx ----------------------------
(***************************************************************************)
(* Leg A of C04 and the CASE ENUMERATOR.                                    *)
(*                                                                         *)
(* TLC enumerates the finite matrix                                         *)
(*    channel setups (commitment type x direction x contest delays x key    *)
(*    set x funding outpoint)                                               *)
(*  x commitment contents (number / history, per-commitment point, fee      *)
(*    rate, balances at the trim edges, HTLC multisets with duplicates,     *)
(*    equal amounts, equal scripts with different expiries, dust edges)     *)
(*  x single-field mutations of the canonical transaction (every scalar     *)
(*    field of the header and the input, of every output its value, its     *)
(*    script template, every key, delay, expiry, payment hash; output       *)
(*    dropped / duplicated / added / swapped) and of the supplied witness   *)
(*    scripts                                                               *)
(*  x histories (CommitTx!Histories): the number is fresh / already signed, *)
(*    and for a subset of the setups and contents both again with a SIGNER  *)
(*    RESTART (CommitTx!Restart) before the judged requests,                *)
(* writes one line per (setup, content) with its canonical outputs and its  *)
(* mutations for the harness (IOEnv.CT_OUT), and model-checks the           *)
(* code-shaped StepSem / StepRaw of CommitTx.tla against the reference on   *)
(* every case: behaviours  <<semantic request>> -> <<raw request m>>.       *)
(* A violation here is a HYPOTHESIS about the code; only ImplCommitTx (the  *)
(* same monitors on what the real crates did) makes a finding.              *)
(*                                                                         *)
(* IOEnv: CT_TIER "quick" | "thorough", CT_OUT (file, "" = none),           *)
(* CT_VOUT_TRUNC "true" | "false" (behaviour switch of the model),         *)
(* CT_BOUNDS (json written by `committx bounds`: the contest-delay bounds   *)
(* of the REAL policy and real setup_channel probes around them)            *)
(***************************************************************************)
EXTENDS CommitTx, Json, IOUtils, SequencesExt, FiniteSetsExt, Randomization

Thorough == IOEnv.CT_TIER = "thorough"
SW == [voutTruncated |-> IOEnv.CT_VOUT_TRUNC = "true"]

---------------------------------------------------------------------------
\* setups
VALUE == 1000000
PUSH  == 100000
ModelOf(ks) == [hc |-> <<1193046 + ks, 11259375>>, ch |-> <<7903932, 5666666 + ks>>]
\* hdn / cdn: the NAME of a contest delay that is a boundary value of what setup_channel accepts
\* ("-": an ordinary number of the matrix)
SetupD(ct, ob, hd, cd, hdn, cdn, ks, fo) ==
  [ct |-> ct, outbound |-> ob, hdelay |-> hd, cdelay |-> cd, hdn |-> hdn, cdn |-> cdn, ks |-> ks, fo |-> fo,
   value |-> VALUE, push |-> PUSH, of |-> ModelOf(ks)]
Setup(ct, ob, hd, cd, ks, fo) == SetupD(ct, ob, hd, cd, "-", "-", ks, fo)

(***************************************************************************)
(* The contest-delay dimension by NAME: min = the smallest delay            *)
(* setup_channel accepts, mid = an ordinary one, max = the largest.  The    *)
(* numbers are the bounds of the real policy as the harness read them       *)
(* (CT_BOUNDS); the probes are real setup_channel calls: exactly the delays *)
(* inside the bounds were accepted, for both delays and every commitment    *)
(* type - so min and max ARE the boundary values and min-1 / max+1 are      *)
(* refused.                                                                 *)
(***************************************************************************)
Bounds == JsonDeserialize(IOEnv.CT_BOUNDS)
DelayNames == {"min", "mid", "max"}
D(name) == CASE name = "min" -> Bounds.min [] name = "mid" -> Bounds.mid [] OTHER -> Bounds.max
InBounds(d) == Bounds.min <= d /\ d <= Bounds.max
ProbeOK(p) == p.ok = (InBounds(p.hdelay) /\ InBounds(p.cdelay))
ASSUME /\ Bounds.min < Bounds.mid /\ Bounds.mid < Bounds.max /\ Bounds.max < 65535
       /\ \A i \in DOMAIN Bounds.probes : ProbeOK(Bounds.probes[i])
       \* every commitment type was probed below, at and above both bounds, for both delays
       /\ \A ct \in {"static", "zerofee"} : \A d \in {Bounds.min - 1, Bounds.min, Bounds.max, Bounds.max + 1} :
            /\ \E i \in DOMAIN Bounds.probes : Bounds.probes[i].ct = ct /\ Bounds.probes[i].hdelay = d
            /\ \E i \in DOMAIN Bounds.probes : Bounds.probes[i].ct = ct /\ Bounds.probes[i].cdelay = d
SetupN(ct, ob, hn, cn, ks, fo) == SetupD(ct, ob, D(hn), D(cn), hn, cn, ks, fo)
FO1 == [t |-> 1, i |-> 0]
FO2 == [t |-> 2, i |-> 1]
FO3 == [t |-> 1, i |-> 65537]      \* an output index beyond 16 bits (LDK's OutPoint cannot hold it)
BaseSetup(ct) == Setup(ct, TRUE, 6, 7, 1, FO1)
CTs == {"static", "zerofee"}
\* every pair of boundary / ordinary contest delays for every commitment type
DelaySetups(obs) == {SetupN(ct, ob, hn, cn, 1, FO1) : ct \in CTs, ob \in obs, hn \in DelayNames, cn \in DelayNames}
\* one dimension changed at a time (quick) / the full product (thorough)
VariedSetups ==
  IF Thorough
  THEN {Setup(ct, ob, d[1], d[2], ks, fo) : ct \in CTs, ob \in BOOLEAN, d \in {<<6, 7>>, <<7, 6>>},
                                             ks \in {1, 2}, fo \in {FO1, FO2}}
       \cup DelaySetups(BOOLEAN)
       \cup {Setup(ct, ob, 6, 7, 1, FO3) : ct \in CTs, ob \in BOOLEAN}
  ELSE UNION {{Setup(ct, FALSE, 6, 7, 1, FO1), Setup(ct, TRUE, 6, 7, 2, FO1),
               Setup(ct, TRUE, 6, 7, 1, FO2), Setup(ct, TRUE, 6, 7, 1, FO3)} : ct \in CTs}
       \cup DelaySetups({TRUE})
\* setups that get the FULL mutation matrix on every content
FullSetups == IF Thorough THEN {Setup(ct, ob, 6, 7, 1, FO1) : ct \in CTs, ob \in BOOLEAN}
                               \cup {SetupN(ct, TRUE, "max", "max", 1, FO1) : ct \in CTs}
              ELSE {BaseSetup(ct) : ct \in CTs}

---------------------------------------------------------------------------
\* contents
H(v, h, cl) == [v |-> v, h |-> h, cl |-> cl]
FeeOf(S) == IF Anch(S) THEN 1660 ELSE 1000       \* what the outputs leave of the channel value
OffDust(S, fr) == IF Anch(S) THEN DUST_CHAN ELSE DUST_MIN + (fr * HtlcTimeoutWeight(FALSE)) \div 1000
RcvDust(S, fr) == IF Anch(S) THEN DUST_CHAN ELSE DUST_MIN + (fr * HtlcSuccessWeight(FALSE)) \div 1000
\* a content whose to_h absorbs the rest
Cont(S, n, pt, fr, to_c, off, rcv) ==
  [n |-> n, pt |-> pt, fr |-> fr, to_c |-> to_c, off |-> off, rcv |-> rcv,
   to_h |-> S.value - FeeOf(S) - to_c - SumHtlc(off) - SumHtlc(rcv)]
Pre(S) == Cont(S, 0, "A", 1000, PUSH, << >>, << >>)

FR == 1000
NamedContents(S) ==
  LET o1 == H(10000, 1, 500)
      r1 == H(20000, 2, 600) IN
  { <<"bal", Cont(S, 1, "A", FR, PUSH, << >>, << >>)>>,
    <<"bal0", Cont(S, 0, "A", FR, PUSH, << >>, << >>)>>,
    <<"no_local", Cont(S, 1, "A", FR, 0, << >>, << >>)>>,
    <<"no_remote", [Cont(S, 1, "A", FR, S.value - FeeOf(S), << >>, << >>) EXCEPT !.to_h = 0]>>,
    <<"off1", Cont(S, 1, "A", FR, PUSH, <<o1>>, << >>)>>,
    <<"rcv1", Cont(S, 1, "A", FR, PUSH, << >>, <<r1>>)>>,
    <<"both", Cont(S, 1, "A", FR, PUSH, <<o1>>, <<r1>>)>>,
    <<"both_ptB", Cont(S, 1, "B", FR, PUSH, <<o1>>, <<r1>>)>>,
    <<"both_n3", Cont(S, 3, "A", FR, PUSH, <<o1>>, <<r1>>)>>,
    <<"bal_n2", Cont(S, 2, "A", FR, PUSH, << >>, << >>)>>,
    <<"dup_off", Cont(S, 1, "A", FR, PUSH, <<o1, o1>>, << >>)>>,
    <<"cltv_tie", Cont(S, 1, "A", FR, PUSH, <<H(10000, 1, 510), H(10000, 1, 500)>>, << >>)>>,
    <<"dup_rcv", Cont(S, 1, "A", FR, PUSH, << >>, <<r1, r1>>)>>,
    <<"same_val", Cont(S, 1, "A", FR, PUSH, <<o1, H(10000, 3, 500)>>, <<H(10000, 2, 500)>>)>>,
    <<"four", Cont(S, 1, "A", FR, PUSH, <<o1, H(30000, 3, 520)>>, <<r1, H(10000, 4, 500)>>)>>,
    <<"dust_edge", Cont(S, 1, "A", FR, PUSH, <<H(OffDust(S, FR), 1, 500)>>, <<H(RcvDust(S, FR), 2, 600)>>)>>,
    <<"dust_below", Cont(S, 1, "A", FR, PUSH, <<H(OffDust(S, FR) - 1, 1, 500)>>, <<r1>>)>>,
    <<"main_dust", Cont(S, 1, "A", FR, DUST_CHAN, << >>, << >>)>>,
    <<"main_below", Cont(S, 1, "A", FR, DUST_CHAN - 1, << >>, << >>)>>,
    <<"htlc_only", [Cont(S, 1, "A", FR, 0, << >>, <<H(S.value - FeeOf(S), 2, 600)>>) EXCEPT !.to_h = 0]>>,
    <<"big_cltv", Cont(S, 1, "A", FR, PUSH, <<H(10000, 1, 800000)>>, <<H(20000, 2, 800144), H(20000, 2, 65536 + 600)>>)>>,
    <<"fr0", Cont(S, 1, "A", 0, PUSH, <<o1>>, <<r1>>)>>,
    <<"fr_hi", Cont(S, 1, "A", 5000, PUSH, <<o1>>, <<r1>>)>>,
    <<"first_htlc", Cont(S, 0, "A", FR, PUSH, <<o1>>, << >>)>> }
LightNames == IF Thorough THEN {"bal0", "both", "four", "dup_off", "big_cltv", "no_local", "htlc_only", "both_n3"}
              ELSE {"bal0", "both", "four"}
RetryNames == {"bal", "both"}
(***************************************************************************)
(* The RESTART dimension.  "restart": the channel is created, set up and    *)
(* brought to the number of the content, THEN the signer is restored from   *)
(* its store and every request of the base (semantic, its repetition, the   *)
(* retries, the raw requests with their mutations) is made on the restored  *)
(* signer: right after setup_channel (n = 0), after a signed commitment     *)
(* (n = 1), after revocations (n = 3), without and with HTLCs.              *)
(* "restart_retry": the restart comes after the accepted semantic request,  *)
(* the restored signer is asked again for the number it signed before.      *)
(* Light mutation matrix; quick: the two base setups and their inbound      *)
(* variants; thorough: every setup of the matrix.                           *)
(***************************************************************************)
RestartNames == IF Thorough THEN {"bal0", "bal", "both", "both_n3", "four", "no_local", "htlc_only", "first_htlc"}
                ELSE {"bal0", "both", "both_n3"}
RestartRetryNames == IF Thorough THEN RetryNames ELSE {"both"}
RestartSetups == IF Thorough THEN VariedSetups \cup FullSetups
                 ELSE FullSetups \cup {Setup(ct, FALSE, 6, 7, 1, FO1) : ct \in CTs}
RestartNamesOf(S) == IF S \in FullSetups THEN RestartNames ELSE IF Thorough THEN {"bal0", "both", "both_n3"} ELSE {"both"}

---------------------------------------------------------------------------
\* the model's stand-in for the byte order of scripts (injective on the scripts of the matrix)
KeyNames == <<"none", "rev", "dly", "bhtlc", "chtlc", "cpay", "bpay", "bfund", "cfund", "rev_o", "dly_o",
              "bhtlc_o", "chtlc_o", "rev_sw", "x1">>
TpNames  == <<"p2wpkh", "remote_anchors", "revokeable", "anchor", "offered", "offered_ax", "received", "received_ax",
              "optrue", "p2pkh", "opreturn", "p2tr", "none">>
IdxOf(s, x) == MinOf({i \in DOMAIN s : s[i] = x})
ModelSk(o) == << ((IdxOf(KeyNames, o.k1) * 7 + IdxOf(TpNames, o.tp) * 3 + o.h * 5) % 16) * 1000000
                   + IdxOf(TpNames, o.tp) * 10000 + IdxOf(KeyNames, o.k1) * 100 + IdxOf(KeyNames, o.k2),
                 (IdxOf(KeyNames, o.k3) * 16 + o.h) * 65536 + (o.d + 1) >>
WithSk(s) == [i \in DOMAIN s |-> [s[i] EXCEPT !.sk = ModelSk(s[i])]]

---------------------------------------------------------------------------
\* mutations of one base (positions are indices into the UNORDERED canonical outputs U; the harness
\* and leg A translate them into positions of the sorted transaction)
KeyPool == IF Thorough THEN {"rev", "dly", "bhtlc", "chtlc", "cpay", "bpay", "bfund", "cfund", "rev_o", "dly_o",
                             "bhtlc_o", "chtlc_o", "rev_sw", "x1"}
           ELSE {"rev", "dly", "chtlc", "cfund", "rev_o", "bhtlc_o", "x1"}
SlotsOf(tp) == CASE tp \in {"p2wpkh", "remote_anchors", "anchor"} -> {"k1"}
                 [] tp = "revokeable" -> {"k1", "k2"}
                 [] tp \in HtlcTps -> {"k1", "k2", "k3"}
                 [] OTHER -> {}
KeyAt(o, f) == CASE f = "k1" -> o.k1 [] f = "k2" -> o.k2 [] OTHER -> o.k3
TpMutants(tp) ==
  CASE tp = "p2wpkh" -> {"remote_anchors", "p2pkh", "p2tr"}
    [] tp = "remote_anchors" -> {"p2wpkh", "optrue"}
    [] tp = "revokeable" -> {"optrue", "opreturn"}
    [] tp = "anchor" -> {"optrue"}
    [] tp = "offered" -> {"offered_ax", "received"}
    [] tp = "offered_ax" -> {"offered", "received_ax"}
    [] tp = "received" -> {"received_ax", "offered"}
    [] tp = "received_ax" -> {"received", "offered_ax"}
    [] OTHER -> {}

OutMutants(S, U, j) ==
  LET o == U[j] IN
     {Mut("out", j, 0, "v", "none", x) : x \in {o.v - 1, o.v + 1, 0}}
  \cup {Mut("out", j, 0, "vtop", "none", 0)}
  \cup {Mut("out", j, 0, "tp", t, 0) : t \in TpMutants(o.tp)}
  \cup UNION {{Mut("out", j, 0, f, k, 0) : k \in KeyPool \ {KeyAt(o, f)}} : f \in SlotsOf(o.tp)}
  \cup (IF o.tp = "revokeable"
        THEN {Mut("out", j, 0, "d", "none", x) : x \in {o.d - 1, o.d + 1, S.cdelay, 0, MAX_DELAY + 1} \ {o.d}} ELSE {})
  \cup (IF o.tp \in ReceivedTps THEN {Mut("out", j, 0, "d", "none", x) : x \in {o.d - 1, o.d + 1, 0}} ELSE {})
  \cup (IF o.tp \in HtlcTps THEN {Mut("out", j, 0, "h", "none", x) : x \in {o.h + 1, 9}} ELSE {})
  \cup {Mut("drop", j, 0, "none", "none", 0), Mut("dup", j, 0, "none", "none", 0)}
  \* the same change followed by re-sorting (what a careful forger would submit)
  \cup {[Mut("out", j, 0, "v", "none", o.v + 40000) EXCEPT !.rs = TRUE],
        [Mut("out", j, 0, "v", "none", IF o.v > 400 THEN o.v - 300 ELSE o.v + 1) EXCEPT !.rs = TRUE]}

Extra(o) == [Mut("extra", 0, 0, "none", "none", 0) EXCEPT !.o = o, !.rs = TRUE]
ExtraMutants(S) ==
  { Extra(MkOut(NAmt(1000), "optrue", "none", "none", "none", -1, 0, 0)),
    Extra(MkOut(NAmt(ANCHOR_SAT), "anchor", "bfund", "none", "none", -1, 0, 0)),
    Extra(MkOut(NAmt(ANCHOR_SAT), "anchor", "cfund", "none", "none", -1, 0, 0)),
    Extra(MkOut(NAmt(5000), "revokeable", "rev", "dly", "none", S.hdelay, 0, 0)),
    Extra(MkOut(NAmt(5000), IF Anch(S) THEN "remote_anchors" ELSE "p2wpkh", "cpay", "none", "none", -1, 0, 0)),
    Extra(MkOut(NAmt(5000), "p2wpkh", "x1", "none", "none", -1, 0, 0)),
    Extra(HtlcOut(S, H(7000, 7, 550), TRUE)),
    Extra(HtlcOut(S, H(7000, 7, 550), FALSE)),
    Extra(MkOut(NAmt(5000), "p2pkh", "x1", "none", "none", -1, 0, 0)),
    Extra(MkOut(NAmt(0), "opreturn", "none", "none", "none", -1, 0, 0)) }

HeaderMutants(S, C) ==
     {Mut("ver", 0, 0, "none", "none", x) : x \in {0, 1, 3}}
  \cup {Mut("lt", 0, 0, "hi", "none", x) : x \in {0, 33, 128}}
  \cup {Mut("lt", 0, 0, "lo", "none", x) : x \in {-1, 1}}
  \cup {Mut("lt", 0, 0, "n", "none", x) : x \in {1} \cup (IF C.n > 0 THEN {-1} ELSE {})}
  \cup {Mut("seq", 0, 0, "hi", "none", x) : x \in {0, 129, 255}}
  \cup {Mut("seq", 0, 0, "lo", "none", x) : x \in {-1, 1}}
  \cup {Mut("op", 0, 0, "t", "none", 3 - S.fo.t), Mut("op", 0, 0, "i", "none", S.fo.i + 1)}
  \* the output index reduced to 16 bits (what LDK's OutPoint would hold)
  \cup (IF WideVout(S) THEN {Mut("op", 0, 0, "i", "none", S.fo.i % 65536)} ELSE {})
  \cup {Mut("ss", 0, 0, "none", "none", 0), Mut("wit", 0, 0, "none", "none", 0), Mut("indup", 0, 0, "none", "none", 0),
        Mut("inextra", 0, 0, "none", "none", 0), Mut("inextra", 0, 0, "none", "none", 1), Mut("noin", 0, 0, "none", "none", 0)}

SwapMutants(U) == {Mut("swap", j, j + 1, "none", "none", 0) : j \in 1..(Len(U) - 1)}
                    \cup (IF Len(U) >= 3 THEN {Mut("swap", 1, Len(U), "none", "none", 0)} ELSE {})

WsMutants(S, U) ==
  LET P == {j \in DOMAIN U : U[j].tp \in P2wshTps} IN
     {WsMut("empty", j, 0, "none", "none", 0, "sub") : j \in P}
  \cup {WsMut("garbage", j, 0, "none", "none", 0, "sub") : j \in DOMAIN U}
  \cup UNION {{WsMut("other", j, j2, "none", "none", 0, "sub")
                 : j2 \in {x \in DOMAIN U : x # j /\ (x = j + 1 \/ (x = 1 /\ j = Len(U)))}} : j \in P}
  \cup UNION {UNION {{WsMut("field", j, 0, f, k, 0, "sub") : k \in {"x1", "rev_o"} \ {KeyAt(U[j], f)}}
                      : f \in SlotsOf(U[j].tp)} : j \in P}
  \cup {WsMut("field", j, 0, "d", "none", U[j].d + 1, "sub") : j \in {x \in P : U[x].d >= 0}}
  \cup {WsMut("field", j, 0, "h", "none", U[j].h + 1, "sub") : j \in {x \in P : U[x].tp \in HtlcTps}}
  \cup {WsMut("droplast", 0, 0, "none", "none", 0, "sub"), WsMut("extra", 0, 0, "none", "none", 0, "sub")}

Pair(m, w) == [m |-> m, m2 |-> NoMut, w |-> w]
Pair2(m, m2) == [m |-> m, m2 |-> m2, w |-> NoWsMut]
\* a field mutation with the witness scripts of the CANONICAL outputs (they no longer hash to the output)
StaleWs(ms) == {Pair(m, [NoWsMut EXCEPT !.base = "canon"]) : m \in {x \in ms : x.k = "out" /\ ~x.rs}}

\* PAIRS of mutations (a broken rule must not mask another): fixed pairs of a header field with an
\* output field, and all pairs within a random sample of the single mutations (TLC's -seed = VERIF_SEED)
Simple(ms) == {m \in ms : m.k \in {"out", "ver", "lt", "seq", "op", "ss", "wit"} /\ ~m.rs}
Compatible(a, b) == a # b /\ ~(a.k = b.k /\ a.p = b.p /\ (a.k # "out" \/ a.f = b.f))
PairMuts(S, C, U, om) ==
  LET hs == {Mut("ver", 0, 0, "none", "none", 3), Mut("lt", 0, 0, "lo", "none", 1), Mut("seq", 0, 0, "lo", "none", 1)}
      os == {m \in om : m.k = "out" /\ m.f \in {"d", "h", "k1"} /\ m.x \in {"none", "x1"} /\ ~m.rs}
      R  == RandomSubset(IF Thorough THEN 12 ELSE 5, Simple(om \cup HeaderMutants(S, C))) IN
     {Pair2(h, o) : h \in hs, o \in os}
  \cup {Pair2(p[1], p[2]) : p \in {q \in R \X R : Compatible(q[1], q[2])}}

FullMuts(S, C, U) ==
  LET om == UNION {OutMutants(S, U, j) : j \in DOMAIN U}
      tm == om \cup ExtraMutants(S) \cup HeaderMutants(S, C) \cup SwapMutants(U) IN
     {Pair(NoMut, NoWsMut)}
  \cup {Pair(m, NoWsMut) : m \in tm}
  \cup {Pair(NoMut, w) : w \in WsMutants(S, U)}
  \cup (IF Thorough THEN StaleWs(om)
        ELSE StaleWs({m \in om : m.f \in {"d", "k2", "h"} /\ (m.x \in {"none", "x1"})}))
  \cup PairMuts(S, C, U, om)
LightMuts(S, C, U) ==
     {Pair(NoMut, NoWsMut)}
  \cup {Pair(m, NoWsMut) : m \in HeaderMutants(S, C)}
  \cup {Pair(m, NoWsMut) : m \in UNION {{x \in OutMutants(S, U, j) : x.x \in {"none", "x1", "rev_o", "optrue", "offered", "received",
                                                                          "offered_ax", "received_ax"}} : j \in DOMAIN U}}
  \cup {Pair(m, NoWsMut) : m \in SwapMutants(U)}

---------------------------------------------------------------------------
\* the bases
(***************************************************************************)
(* The RETRY dimension: second requests for the number of a base after its  *)
(* first (semantic) request, through both entry points: identical; another  *)
(* fee rate only; another per-commitment point; other balances; an HTLC     *)
(* dropped / its value, payment hash or expiry changed (an offered HTLC's    *)
(* expiry and the fee rate are NOT in the commitment transaction).          *)
(***************************************************************************)
OtherPt(pt) == IF pt = "A" THEN "B" ELSE "A"
Bump(hs, i, f) == [hs EXCEPT ![i] = IF f = "v" THEN [@ EXCEPT !.v = @ + 1]
                                    ELSE IF f = "h" THEN [@ EXCEPT !.h = @ + 4] ELSE [@ EXCEPT !.cl = @ + 1]]
RetryContents(C) ==
     {<<"same", C>>, <<"fr", [C EXCEPT !.fr = @ + 2000]>>, <<"pt", [C EXCEPT !.pt = OtherPt(@)]>>}
  \cup (IF C.to_h > 2000 THEN {<<"bal", [C EXCEPT !.to_h = @ - 1000, !.to_c = @ + 1000]>>} ELSE {})
  \cup (IF Len(C.off) > 0 /\ C.to_h > 2000
        THEN {<<"off_drop", [C EXCEPT !.off = Tail(@), !.to_h = @ + C.off[1].v]>>,
              <<"off_value", [C EXCEPT !.off = Bump(@, 1, "v"), !.to_h = @ - 1]>>,
              <<"off_hash", [C EXCEPT !.off = Bump(@, 1, "h")]>>,
              <<"off_cltv", [C EXCEPT !.off = Bump(@, 1, "cl")]>>} ELSE {})
  \cup (IF Len(C.rcv) > 0 /\ C.to_h > 2000
        THEN {<<"rcv_drop", [C EXCEPT !.rcv = Tail(@), !.to_h = @ + C.rcv[1].v]>>,
              <<"rcv_value", [C EXCEPT !.rcv = Bump(@, 1, "v"), !.to_h = @ - 1]>>,
              <<"rcv_cltv", [C EXCEPT !.rcv = Bump(@, 1, "cl")]>>} ELSE {})
Retries(S, C) == {[kind |-> kc[1], ep |-> ep, C2 |-> kc[2], outs2 |-> CanonOuts(S, kc[2])]
                    : kc \in RetryContents(C), ep \in {"sem", "raw"}}

BaseRec(S, name, C, hist, full) ==
  LET U == CanonOuts(S, C) IN
  [S |-> S, name |-> name, C |-> C, pre |-> Pre(S), hist |-> hist, outs |-> U, full |-> full,
   ms |-> SetToSeq(IF full THEN FullMuts(S, C, U) ELSE LightMuts(S, C, U)),
   rs |-> SetToSeq(Retries(S, C))]
Bases0 ==
     UNION {{BaseRec(S, nc[1], nc[2], "fresh", TRUE) : nc \in NamedContents(S)} : S \in FullSetups}
  \cup UNION {{BaseRec(S, nc[1], nc[2], "retry", FALSE) : nc \in {x \in NamedContents(S) : x[1] \in RetryNames}} : S \in FullSetups}
  \cup UNION {{BaseRec(S, nc[1], nc[2], "fresh", FALSE) : nc \in {x \in NamedContents(S) : x[1] \in LightNames}}
              : S \in VariedSetups \ FullSetups}
  \cup UNION {{BaseRec(S, nc[1], nc[2], "restart", FALSE) : nc \in {x \in NamedContents(S) : x[1] \in RestartNamesOf(S)}}
              : S \in RestartSetups}
  \cup UNION {{BaseRec(S, nc[1], nc[2], "restart_retry", FALSE) : nc \in {x \in NamedContents(S) : x[1] \in RestartRetryNames}}
              : S \in FullSetups}
ASSUME \A b \in Bases0 : b.hist \in Histories
\* ids: b per base, id per case
BaseSeq0 == SetToSeq(Bases0)
RECURSIVE Offset(_)
Offset(i) == IF i = 1 THEN 0 ELSE Offset(i - 1) + Len(BaseSeq0[i - 1].ms)
Offs == TLCEval([i \in DOMAIN BaseSeq0 |-> Offset(i)])
NB == Len(BaseSeq0)
NCases == IF NB = 0 THEN 0 ELSE Offs[NB] + Len(BaseSeq0[NB].ms)
RECURSIVE ROffset(_)
ROffset(i) == IF i = 1 THEN NCases ELSE ROffset(i - 1) + Len(BaseSeq0[i - 1].rs)
ROffs == TLCEval([i \in DOMAIN BaseSeq0 |-> ROffset(i)])
NRetries == IF NB = 0 THEN 0 ELSE ROffs[NB] + Len(BaseSeq0[NB].rs) - NCases
BaseSeq == TLCEval([i \in DOMAIN BaseSeq0 |->
              [b |-> i, S |-> BaseSeq0[i].S, name |-> BaseSeq0[i].name, C |-> BaseSeq0[i].C, pre |-> BaseSeq0[i].pre,
               hist |-> BaseSeq0[i].hist, outs |-> BaseSeq0[i].outs,
               muts |-> [k \in DOMAIN BaseSeq0[i].ms |->
                           [id |-> Offs[i] + k, m |-> BaseSeq0[i].ms[k].m, m2 |-> BaseSeq0[i].ms[k].m2,
                            w |-> BaseSeq0[i].ms[k].w]],
               retries |-> [k \in DOMAIN BaseSeq0[i].rs |->
                           [id |-> ROffs[i] + k, kind |-> BaseSeq0[i].rs[k].kind, ep |-> BaseSeq0[i].rs[k].ep,
                            C2 |-> BaseSeq0[i].rs[k].C2, outs2 |-> BaseSeq0[i].rs[k].outs2]]]])

ASSUME IOEnv.CT_OUT = "" \/ ndJsonSerialize(IOEnv.CT_OUT, BaseSeq)

---------------------------------------------------------------------------
(***************************************************************************)
(* Leg A: every case on the model.                                          *)
(***************************************************************************)
\* the sorted canonical transaction of a base with the model's script order
ModelCanon(b) == [ver |-> 2, lt |-> CanonLt(b.S, b.C.n), ins |-> << CanonIn(b.S, b.C) >>,
                  outs |-> SortOuts(WithSk(b.outs))]
PosOf(K, o) == MinOf({p \in DOMAIN K : BV(K[p]) = BV(o) /\ K[p].cl = o.cl})
\* positions of a mutation translated from the unordered to the sorted outputs
AtPos(m, K, U) == [m EXCEPT !.p = IF @ = 0 THEN 0 ELSE PosOf(K, U[@]), !.p2 = IF @ = 0 THEN 0 ELSE PosOf(K, U[@])]
AtPosW(w, K, U) == [w EXCEPT !.p = IF @ = 0 THEN 0 ELSE PosOf(K, U[@]), !.p2 = IF @ = 0 THEN 0 ELSE PosOf(K, U[@])]

\* per base, evaluated once
CanonAt == TLCEval([i \in 1..NB |-> ModelCanon(BaseSeq[i])])
\* the signer that answers the judged requests of a base: the one its history leaves (a restart
\* returns the persisted signer: CommitTx!Restart)
SignerOf(b) == SignerAt(b.S, NoRec, b.hist)
SemAt   == TLCEval([i \in 1..NB |-> StepSem(SignerOf(BaseSeq[i]).S, BaseSeq[i].C, RangeOf(CanonAt[i].outs), SW)])

CaseOf(bi, mi) ==
  LET b  == BaseSeq[bi]
      cn == CanonAt[bi]
      m  == AtPos(b.muts[mi].m, cn.outs, b.outs)
      m2 == AtPos(b.muts[mi].m2, cn.outs, b.outs)
      w  == AtPosW(b.muts[mi].w, cn.outs, b.outs)
      tx == Mutate(Mutate(cn, m, b.S, b.C, ModelSk), m2, b.S, b.C, ModelSk)
      ws == WsFor(tx, cn, w) IN
  [b |-> b, canon |-> cn, m |-> m, m2 |-> m2, w |-> w, tx |-> tx, ws |-> ws, pool |-> RangeOf(cn.outs)]

VARIABLES bi, mi, ri, last
vars == <<bi, mi, ri, last>>

Init == /\ bi \in 1..NB
        /\ mi = 0
        /\ ri = 0
        /\ last = IF SetupTag(BaseSeq[bi].S, SW) = "ok"
                  THEN [kind |-> "sem", tag |-> SemAt[bi].tag, refuse |-> {}, signed_ok |-> TRUE, canon_req |-> FALSE]
                  ELSE [kind |-> "setup", tag |-> "refused", refuse |-> {}, signed_ok |-> TRUE, canon_req |-> FALSE]
RawStep == /\ mi = 0 /\ ri = 0
        /\ last.kind = "sem"
        /\ mi' \in 1..Len(BaseSeq[bi].muts)
        /\ UNCHANGED <<bi, ri>>
        /\ LET c == CaseOf(bi, mi')
               r == StepRaw(c.tx, c.ws, SignerOf(c.b).S, c.b.C, c.pool, RetryHist(c.b.hist), SW) IN
           last' = [kind |-> "raw", tag |-> r.tag, refuse |-> Rules(c.tx, c.b.S, c.b.C, c.pool),
                    \* what the code signs is what was submitted, and for the canonical request it is
                    \* what the semantic entry point signs
                    signed_ok |-> r.tag = "ok" => /\ TxBV(r.signed) = TxBV(c.tx)
                                                  /\ (c.m.k = "none" /\ c.m2.k = "none" => TxBV(r.signed) = TxBV(SemAt[bi].signed)),
                    canon_req |-> c.m.k = "none" /\ c.m2.k = "none" /\ c.w.k = "none"]
\* a second request for the number of the base, after its accepted first one
RetryStep == /\ mi = 0 /\ ri = 0
             /\ last.kind = "sem" /\ last.tag = "ok"
             /\ ri' \in 1..Len(BaseSeq[bi].retries)
             /\ UNCHANGED <<bi, mi>>
             /\ LET b == BaseSeq[bi]
                    r == b.retries[ri'] IN
                last' = [kind |-> "retry", tag |-> StepRetry(SignerOf(b).S, b.C, r.C2), refuse |-> {},
                         \* an accepted retry signs what was signed for the recorded content
                         signed_ok |-> StepRetry(SignerOf(b).S, b.C, r.C2) = "ok" => SameContent(b.C, r.C2),
                         canon_req |-> r.kind = "same"]
Next == RawStep \/ RetryStep
Spec == Init /\ [][Next]_vars

\* C04 on the model: nothing non-canonical is accepted; what is signed is the submitted = canonical
\* transaction; the canonical request is accepted whenever the semantic one is
C04_RawAcceptsOnlyCanonical == (last.kind = "raw" /\ last.tag = "ok") => (last.refuse = {} /\ last.signed_ok)
C04_Equivalence == (last.kind = "raw" /\ last.canon_req /\ SemAt[bi].tag = "ok") => last.tag = "ok"
C04_SemSignsCanonical ==
  last.kind = "sem" /\ last.tag = "ok" =>
    LET b == BaseSeq[bi] IN IsCanon(SemAt[bi].signed, b.S, b.C, RangeOf(CanonAt[bi].outs))
\* consistency of the code-shaped model with the reference: a canonical transaction is never
\* refused as "recomposed tx mismatch"
RefConsistent == (last.kind = "raw" /\ last.tag = "mismatch") => last.refuse # {}
\* a retry is accepted only with the recorded content, and the identical retry is accepted
C04_RetryOnlyRecorded == last.kind = "retry" => (last.signed_ok /\ (last.canon_req => last.tag = "ok"))
TypeOK == /\ bi \in 1..NB /\ mi \in 0..Len(BaseSeq[bi].muts) /\ ri \in 0..Len(BaseSeq[bi].retries)
          /\ last.tag \in {"ok", "policy", "len", "version", "decode", "mismatch", "top", "panic", "state", "refused"}

\* size of the matrix (the vacuity guard - every rule is the SOLE reason of a refusal - is evaluated by
\* ImplCommitTx on the real refusals, which is the stronger statement)
NRestart == Cardinality({i \in 1..NB : RestartHist(BaseSeq[i].hist)})
MatrixStats == <<"CT_MATRIX", NB, NCases, NRetries, NRestart>>
ASSUME PrintT(MatrixStats)
=============================================================================
