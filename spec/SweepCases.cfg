INIT Init
NEXT Next
