INIT Init
NEXT Next
