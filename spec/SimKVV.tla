------------------------------- MODULE SimKVV -------------------------------
(* Leg C (spec -> impl): random behaviours of the KVV model, printed as request *)
(* sequences that the harness replays through the real stores (larger key and  *)
(* version alphabets than the exhaustive leg).  Run with                        *)
(*   tlc -simulate num=K -depth D+2.                                            *)
(* Requests that change the state are weighted up; for the cloud store requests *)
(* outside the transaction protocol (which panic and poison the store) are left *)
(* out, the exhaustive leg covers them.                                         *)
EXTENDS KVV, Json, IOUtils

CONSTANTS Kind, NKeys, MaxVer, Depth, BatchSequential, CloudChecksStaged
VARIABLES s, hist, w

K  == [batchSequential |-> BatchSequential, cloudChecksStaged |-> CloudChecksStaged]
Ks == IF NKeys = 3 THEN {"k", "kk", "l"} ELSE {"k", "kk"}
Ps == IF NKeys = 3 THEN {"", "k", "kk", "ka", "l"} ELSE {"", "k", "kk", "ka"}
Xs == {"a", "b", ""}
Reqs == IF Kind = "pair" THEN PairRequests(Ks, MaxVer, Xs, {"a", "b"}, Ps)
        ELSE CloudRequests(Ks, MaxVer, Xs, Ks, 0..MaxVer, {"a", "b"}, Ps)

StepOf(st, r) == IF Kind = "pair"
                 THEN [m |-> MemStep(st.m, r, K).s, r |-> RedbStep(st.r, r, K).s]
                 ELSE CloudStep(st, r, K).s
\* batches are 9 requests out of 10 in the alphabet: weigh the other entry points up
Weight(st, r) == IF Kind = "cloud" /\ CloudStep(st, r, K).resp.c = "panic" THEN 0
                 ELSE IF r.op \in {"Prepare", "Reopen", "Crash"} THEN 60
                 ELSE IF StepOf(st, r) # st
                      THEN CASE r.op \in {"Commit", "Enter"} -> 150
                             [] r.op \in {"Put", "Delete"} -> 60
                             [] r.op = "PutV" -> 25
                             [] OTHER -> 1
                 ELSE IF r.op = "Batch" THEN 1 ELSE 8

Init == /\ s = IF Kind = "pair" THEN [m |-> MemInit, r |-> RedbInit] ELSE CloudInit
        /\ hist = <<>> /\ w = 0
\* (the last step is a single fixed read, so that Emit is evaluated once per behaviour)
Final == [op |-> "GetPrefix", p |-> ""]
Next == /\ Len(hist) < Depth
        /\ IF Len(hist) = Depth - 1
           THEN s' = s /\ hist' = Append(hist, Final) /\ w' = 0
           ELSE \E r \in Reqs : \E k \in 1..Weight(s, r) :
                  /\ s' = StepOf(s, r)
                  /\ hist' = Append(hist, r)
                  /\ w' = k
Spec == Init /\ [][Next]_<<s, hist, w>>

Emit == Len(hist) = Depth => PrintT(<<"SIM", ToJson(hist)>>)
=============================================================================
