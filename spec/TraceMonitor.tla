---------------------------- MODULE TraceMonitor ----------------------------
(***************************************************************************)
(* Leg C (impl -> spec): validates steps recorded from the real             *)
(* implementation (`monitor run`: TLC-simulated histories, replay files).   *)
(* One record per step:                                                     *)
(*   [seq, step, c, req, rc, pre, post, fresh, msg]                         *)
(* c the chain before the step (blocks as id sequences), rc 1 ok | 0        *)
(* refused | 2 panic, fresh the view of a fresh real monitor shown only the *)
(* surviving chain.  Every step is compared with Monitor!Step; the property *)
(* C14 is evaluated on the observations: post = fresh and no panic.         *)
(***************************************************************************)
EXTENDS Monitor, Json, IOUtils

Steps == ndJsonDeserialize(IOEnv.MON_STEPS)
K == MkKS(IOEnv.MON_CAT, IOEnv.MON_VARIANT, IOEnv.MON_REV = "true", IOEnv.MON_MIR = "true", IOEnv.MON_STALE = "true")

IsView(j) == "h" \in DOMAIN j
VJ(j) == IF IsView(j) THEN [h |-> j.h, fh |-> j.fh, fo |-> j.fo, dsh |-> j.dsh, mch |-> j.mch, uch |-> j.uch,
                            ct |-> j.ct, cour |-> j.cour, cos |-> j.cos, cho |-> j.cho, chs |-> j.chs, csl |-> j.csl,
                            csh |-> j.csh, oosh |-> j.oosh, w |-> SeqToSet(j.w), sn |-> SeqToSet(j.sn),
                            sb |-> j.sb, pd |-> <<>>]
         ELSE j
RespOf(rc) == CASE rc = 1 -> "ok" [] rc = 2 -> "panic" [] OTHER -> "refused"
ReqOf(e) == [op |-> e.req.op, b |-> e.req.b, m |-> e.req.m]

\* e.late: the sequence starts with the request L = "the channel is set up in the middle of streamed block b"
StepOk(e) == e.rc # 2 /\ (e.rc = 1 => IsView(e.fresh) /\ Cmp(e.late, VJ(e.post)) = Cmp(e.late, VJ(e.fresh)))

VARIABLES l
Init == l = 1
Next == l <= Len(Steps) /\ l' = l + 1
Spec == Init /\ [][Next]_l

C14 == l > 1 => StepOk(Steps[l - 1])

Idx == DOMAIN Steps
Conforms(e) ==
  LET st == [chain |-> e.c, s |-> VJ(e.pre)]
      o  == Step(K, st, ReqOf(e)) IN
  IF e.req.op = "L" THEN e.rc = 1 /\ [InitStLate(K, e.req.b).s EXCEPT !.pd = <<>>] = VJ(e.post)
  ELSE
  /\ ValidChain(K, e.c) /\ Enabled(K, st, ReqOf(e))
  /\ o.resp = RespOf(e.rc)
  /\ e.rc = 1 => [o.st.s EXCEPT !.pd = <<>>] = VJ(e.post)
Divergent == {i \in Idx : ~Conforms(Steps[i])}
PreGood(i) == Steps[i].step = 0 \/ (i > 1 /\ Steps[i - 1].seq = Steps[i].seq /\ StepOk(Steps[i - 1]))
FirstBad  == {i \in Idx : PreGood(i) /\ ~StepOk(Steps[i])}
Broken    == {i \in Idx : i > 1 /\ Steps[i].step > 0 /\ Steps[i].pre # Steps[i - 1].post}

Describe(i) == LET e == Steps[i] IN
  [line |-> i, seq |-> e.seq, step |-> e.step, rc |-> e.rc,
   diff |-> IF e.rc # 1 THEN <<>>
            ELSE IF IsView(e.fresh) THEN DiffFields(Cmp(e.late, VJ(e.post)), Cmp(e.late, VJ(e.fresh)))
            ELSE <<"fresh-replay-aborted">>]
DescribeDiv(i) == LET e == Steps[i]
                      o == IF e.req.op = "L" THEN [resp |-> "ok", why |-> "", st |-> InitStLate(K, e.req.b)]
                           ELSE Step(K, [chain |-> e.c, s |-> VJ(e.pre)], ReqOf(e)) IN
  [line |-> i, seq |-> e.seq, step |-> e.step, rc |-> e.rc, expected_resp |-> o.resp, why |-> o.why,
   diff |-> IF e.rc = 1 /\ o.resp = "ok" THEN DiffFields(o.st.s, VJ(e.post)) ELSE <<>>]

Report == [ steps |-> Len(Steps),
            first_bad   |-> SetToSeq({Describe(i) : i \in FirstBad}),
            divergences |-> SetToSeq({DescribeDiv(i) : i \in Divergent}),
            broken      |-> Cardinality(Broken) ]
ASSUME JsonSerialize(IOEnv.MON_REPORT, Report)
=============================================================================
