INIT Init
NEXT Next
