--------------------------- MODULE LifecycleCases ---------------------------
(* Prints the case matrix of Lifecycle.tla for one exploration plan as JSON:   *)
(* the configuration record, the transaction catalogue (with the creators /    *)
(* conflicting spends the harness looks up to decide whether a block can be    *)
(* mined) and the request alphabet.  The harness explores the implementation   *)
(* with exactly the requests the specification names - including the Bury sizes *)
(* around every depth constant of the monitor (Plan.DX, Plan.around: BurySet).  *)
EXTENDS Lifecycle, Json, IOUtils

Plan == JsonDeserialize(IOEnv.LC_PLAN)
K == WithDeep(WithSwitches(WithCrash(MkK(Plan.D, Plan.S, Plan.W, Plan.maxd, SeqToSet(Plan.cd), SeqToSet(Plan.kinds), Plan.pairs,
         SeqToSet(Plan.bury), Plan.rev, Plan.mir, Plan.mode, Plan.empty), Plan.crash), Plan.markFirst, Plan.dropOrphans),
         Plan.DX, SeqToSet(Plan.around))

TxJson(id) == LET t == K.tx[id] IN
  [id |-> t.id, k |-> t.k, d |-> t.d, needs |-> SetToSeq(t.needs), conflicts |-> SetToSeq(t.conflicts),
   setup |-> t.setup, nodisc |-> t.nodisc]

Out == [plan |-> Plan, maxd |-> K.maxd,
        txs |-> SetToSeq({TxJson(id) : id \in DOMAIN K.tx}),
        requests |-> SetToSeq(Requests(K))]

VARIABLE x
Init == x = 0
Next == UNCHANGED x
ASSUME JsonSerialize(IOEnv.LC_OUT, Out)
=============================================================================
