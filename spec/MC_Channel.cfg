SPECIFICATION Spec
CONSTANTS
  N = 3
  RevokeChecksClosed = FALSE
  AtomicRevocation = FALSE
  StartPhase = "ready"
  Mon = "C01"
CONSTRAINT Bound
VIEW View
INVARIANTS C01 TypeOK
CHECK_DEADLOCK FALSE
