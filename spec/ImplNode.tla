------------------------------- MODULE ImplNode -------------------------------
(***************************************************************************)
(* Leg B for Node.tla: the state graph extracted from the REAL node          *)
(* (`node explore`: every request of the alphabet on every reachable state,  *)
(* states re-created by re-executing their path on a fresh node).            *)
(* Nodes[i+1] = [id, pre, x, r0, e]; an edge is                              *)
(*   <<to, request index, ok, flag, changed mask, restart equal>>            *)
(* changed mask: 1 channels, 2 node state, 4 store, 8 tracker.               *)
(* Protocol-handler level graphs (`nhand explore`, ND_LEVEL = "handler":     *)
(* judged against Node!HStep) carry two more observations per edge:          *)
(*   <<.., nmuts, crash>>  nmuts = number of mutations the transactional     *)
(*   store's prepare() returned for the request; crash = a signer restored   *)
(*   from the local store as it was BEFORE commit equals the pre-request     *)
(*   signer (and with the prepared mutations added: the post-request one).   *)
(***************************************************************************)
EXTENDS Node, Json, IOUtils, SequencesExt

Nodes    == ndJsonDeserialize(IOEnv.ND_NODES)
Alphabet == JsonDeserialize(IOEnv.ND_ALPHABET)
Handler  == "ND_LEVEL" \in DOMAIN IOEnv /\ IOEnv.ND_LEVEL = "handler"
FeeLimit == IF "ND_FEE_LIMIT" \in DOMAIN IOEnv
            THEN CHOOSE n \in 0..16 : ToString(n) = IOEnv.ND_FEE_LIMIT ELSE 0
MaxInvoices == IF "ND_MAX_INVOICES" \in DOMAIN IOEnv
               THEN CHOOSE n \in 0..16 : ToString(n) = IOEnv.ND_MAX_INVOICES ELSE 0
K == [atomicAllowlist |-> IOEnv.ND_ATOMIC_ALLOWLIST = "true",
      feeLimit |-> FeeLimit,
      maxInvoices |-> MaxInvoices,
      withdrawCountsBeforeSign |-> IF "ND_COUNTS_BEFORE_SIGN" \in DOMAIN IOEnv
                                   THEN IOEnv.ND_COUNTS_BEFORE_SIGN = "true" ELSE TRUE,
      approve |-> IF "ND_APPROVE" \in DOMAIN IOEnv THEN IOEnv.ND_APPROVE = "true" ELSE TRUE]
StepOf(s, r) == IF Handler THEN HStep(s, r, K) ELSE Step(s, r, K)

\* JSON arrays arrive as sequences: turn them into the sets Node.tla uses

Abs(p) == [allow |-> ToSet(p.allow), inv |-> ToSet(p.inv), mark |-> p.mark, chans |-> ToSet(p.chans), fee |-> p.fee,
           iss |-> IF "iss" \in DOMAIN p THEN ToSet(p.iss) ELSE {}]
RespOf(e) == [ok |-> e[3] = 1, flag |-> e[4]]

VARIABLES node, g, last
Init == node = 0 /\ g = InitGhost /\ last = [op |-> "init"]
Next == \E j \in DOMAIN Nodes[node + 1].e :
          LET nd == Nodes[node + 1] e == nd.e[j] IN
          /\ e[1] >= 0
          /\ node' = e[1]
          /\ g' = Ghost(g, Alphabet[e[2]], RespOf(e), Abs(nd.pre), Abs(Nodes[e[1] + 1].pre))
          /\ last' = [from |-> node, req |-> Alphabet[e[2]], ok |-> e[3] = 1]
Spec == Init /\ [][Next]_<<node, g, last>>
View == <<node, g>>
NoIdReuse == Inv_NoIdReuse(g)

BadAt(i, Bad(_, _)) == {<<i, j>> : j \in {k \in DOMAIN Nodes[i].e : Bad(Nodes[i], Nodes[i].e[k])}}
EdgesWhere(Bad(_, _)) == UNION {BadAt(i, Bad) : i \in DOMAIN Nodes}

Conforms(nd, e) ==
  LET o == StepOf(Abs(nd.pre), Alphabet[e[2]]) IN
  /\ o.resp = RespOf(e)
  /\ e[1] >= 0 => o.s = Abs(Nodes[e[1] + 1].pre)
Divergent  == EdgesWhere(LAMBDA nd, e : ~Conforms(nd, e))
FrameBad   == EdgesWhere(LAMBDA nd, e : e[3] = 0 /\ e[5] # 0)
RestartBad == EdgesWhere(LAMBDA nd, e : nd.r0 = 1 /\ e[6] = 0)
\* handler level: a refused request left pending mutations in the transactional store (they are sent to the
\* cloud and committed although the caller was told "refused"); a crash between prepare and commit
MutsBad    == EdgesWhere(LAMBDA nd, e : Len(e) >= 7 /\ e[3] = 0 /\ e[7] # 0)
CrashBad   == EdgesWhere(LAMBDA nd, e : Len(e) >= 8 /\ nd.r0 = 1 /\ e[8] = 0)
NEdges     == FoldLeft(LAMBDA acc, nd : acc + Len(nd.e), 0, Nodes)

Describe(p) == LET nd == Nodes[p[1]] e == nd.e[p[2]] IN
  [node |-> nd.id, ri |-> e[2], pre |-> nd.pre, req |-> Alphabet[e[2]], resp |-> RespOf(e),
   post |-> IF e[1] >= 0 THEN Nodes[e[1] + 1].pre ELSE nd.pre, mask |-> e[5],
   muts |-> IF Len(e) >= 7 THEN e[7] ELSE -1,
   expected |-> LET o == StepOf(Abs(nd.pre), Alphabet[e[2]]) IN [ok |-> o.resp.ok, flag |-> o.resp.flag]]

Report == [ nodes |-> Len(Nodes), expanded |-> Cardinality({i \in DOMAIN Nodes : Nodes[i].x}),
            edges |-> NEdges,
            divergences |-> SetToSeq({Describe(p) : p \in Divergent}),
            frame_bad   |-> SetToSeq({Describe(p) : p \in FrameBad}),
            restart_bad |-> SetToSeq({Describe(p) : p \in RestartBad}),
            muts_bad    |-> SetToSeq({Describe(p) : p \in MutsBad}),
            crash_bad   |-> SetToSeq({Describe(p) : p \in CrashBad}),
            tainted_states |-> Cardinality({i \in DOMAIN Nodes : Nodes[i].r0 = 0}) ]
ASSUME JsonSerialize(IOEnv.ND_REPORT, Report)
=============================================================================
