----------------------------- MODULE ImplKVVCloud -----------------------------
(***************************************************************************)
(* Leg B for the cloud-staged store: the state graph EXTRACTED FROM THE     *)
(* REAL CloudKVVStore<MemoryKVVStore> (harness `kvv explore-cloud`) is      *)
(* loaded here;                                                             *)
(*   1. every implementation edge is compared with CloudStep (conformance), *)
(*   2. TLC explores the product  implementation graph x ghost (the         *)
(*      mutations reported by the last prepare) and evaluates the C16       *)
(*      monitor clauses for the cloud store on it (invariant C16).          *)
(*                                                                         *)
(* Nodes[i+1] = [id, x, par, d, o, e]; o = observation [loc: local dump,     *)
(* ent: enter() accepted on a copy, view: [ok, e] get(k) of every key, prep: *)
(* [ok, e] prepare() on a copy]; e = edges <<to, request index, response     *)
(* index>>.                                                                 *)
(***************************************************************************)
EXTENDS KVV, Json, IOUtils, SequencesExt

Nodes    == ndJsonDeserialize(IOEnv.KVV_NODES)
Alphabet == JsonDeserialize(IOEnv.KVV_ALPHABET).reqs
Resps    == JsonDeserialize(IOEnv.KVV_RESPS)
IgnoreSeq == JsonDeserialize(IOEnv.KVV_IGNORE)
Ignore   == {IgnoreSeq[i] : i \in DOMAIN IgnoreSeq}
K == [batchSequential   |-> IOEnv.KVV_BATCH_SEQUENTIAL = "true",
      cloudChecksStaged |-> IOEnv.KVV_CLOUD_CHECKS_STAGED = "true"]

RespOf(i) == [c |-> Resps[i][1], e |-> Resps[i][2]]

TabOf(d) == [k \in AllKeys |->
               IF \E i \in DOMAIN d : d[i][1] = k
               THEN LET i == CHOOSE i \in DOMAIN d : d[i][1] = k IN Ent(d[i][2], d[i][3])
               ELSE Absent]
WellFormed(d) == d = Dump(TabOf(d))

\* observation -> what the monitors read: [loc, ph, view]
CloudObsOf(o) ==
  LET ph == IF o.view.ok THEN "open" ELSE IF o.ent THEN "closed" ELSE "dead" IN
  [loc |-> TabOf(o.loc), ph |-> ph, view |-> IF ph = "open" THEN TabOf(o.view.e) ELSE EmptyTab]

\* observation -> abstract state of CloudStep: a key is in the commit log iff the transaction
\* reads something else than the local entry for it, or prepare() lists it
CloudStateOf(o) ==
  LET ob == CloudObsOf(o)
      pt == IF o.prep.ok THEN TabOf(o.prep.e) ELSE EmptyTab IN
  [loc |-> ob.loc, ph |-> ob.ph,
   log |-> [k \in AllKeys |-> IF ob.ph # "open" THEN Absent
                              ELSE IF ob.view[k] # ob.loc[k] THEN ob.view[k]
                              ELSE pt[k]]]

Obs == [i \in DOMAIN Nodes |-> CloudObsOf(Nodes[i].o)]
Abs == [i \in DOMAIN Nodes |-> CloudStateOf(Nodes[i].o)]

VARIABLES node, g, last

Init == /\ node = 0
        /\ g = [flags |-> {}, rep |-> CloudGhostInit]
        /\ last = [op |-> "init"]

Next == \E j \in DOMAIN Nodes[node + 1].e :
          LET e == Nodes[node + 1].e[j]
              r == Alphabet[e[2]]
              f == Tag("cloud", CloudViol(g.rep, r, RespOf(e[3]), Obs[node + 1], Obs[e[1] + 1])) IN
          /\ e[1] >= 0                       \* (-1: target beyond the explorer's state cap)
          /\ node' = e[1]
          /\ g' = [flags |-> g.flags \cup (f \ Ignore), rep |-> CloudGhost(g.rep, r, RespOf(e[3]))]
          /\ last' = [from |-> node, req |-> r, c |-> Resps[e[3]][1], new |-> f]

Spec == Init /\ [][Next]_<<node, g, last>>
View == <<node, g>>

C16 == g.flags = {}

---------------------------------------------------------------------------
BadAt(i, Bad(_, _)) == {<<i, j>> : j \in {k \in DOMAIN Nodes[i].e : Bad(i, Nodes[i].e[k])}}
EdgesWhere(Bad(_, _)) == UNION {BadAt(i, Bad) : i \in DOMAIN Nodes}

Conforms(i, e) ==
  LET o == CloudStep(Abs[i], Alphabet[e[2]], K) IN
  o.resp = RespOf(e[3]) /\ (e[1] >= 0 => o.s = Abs[e[1] + 1])

Divergent == EdgesWhere(LAMBDA i, e : ~Conforms(i, e))
Malformed == {i \in DOMAIN Nodes : ~WellFormed(Nodes[i].o.loc)}
NEdges    == FoldLeft(LAMBDA acc, nd : acc + Len(nd.e), 0, Nodes)
\* refused put_batch calls that nevertheless staged a prefix (information, not a C16 clause)
Truncated == EdgesWhere(LAMBDA i, e : e[1] < 0)
PartialBatch == EdgesWhere(LAMBDA i, e : e[1] >= 0 /\ Alphabet[e[2]].op = "Batch" /\ Resps[e[3]][1] # "ok"
                                         /\ Obs[i].ph = "open" /\ Obs[e[1] + 1].view # Obs[i].view)

ShowState(s) == [loc |-> Dump(s.loc), ph |-> s.ph, log |-> Dump(s.log)]
Describe(p) ==
  LET nd == Nodes[p[1]] e == nd.e[p[2]] r == Alphabet[e[2]] IN
  [node |-> nd.id, ri |-> e[2], req |-> r, backend |-> "cloud",
   pre |-> ShowState(Abs[p[1]]), resp |-> Resps[e[3]],
   post |-> IF e[1] >= 0 THEN ShowState(Abs[e[1] + 1]) ELSE ShowState(CloudInit),
   expected |-> LET o == CloudStep(Abs[p[1]], r, K) IN [resp |-> o.resp, s |-> ShowState(o.s)]]

Report ==
  [ nodes       |-> Len(Nodes),
    expanded    |-> Cardinality({i \in DOMAIN Nodes : Nodes[i].x}),
    edges       |-> NEdges,
    malformed   |-> Cardinality(Malformed),
    divergences |-> SetToSeq({Describe(p) : p \in Divergent}),
    truncated_edges |-> Cardinality(Truncated),
    partial_batches |-> Cardinality(PartialBatch) ]

\* (the report does not depend on Ignore: the runs that only look for one more violating history skip it)
ASSUME IOEnv.KVV_DO_REPORT = "false" \/ JsonSerialize(IOEnv.KVV_REPORT, Report)
=============================================================================
