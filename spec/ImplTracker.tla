----------------------------- MODULE ImplTracker -----------------------------
(***************************************************************************)
(* Leg B: the state graph EXTRACTED FROM THE REAL ChainTracker<ChainMonitor> *)
(* (harness `tracker explore`: every request of the alphabet applied to     *)
(* every reachable concrete state, plus the probe requests applied right    *)
(* after every refused request) is loaded here and                          *)
(*   1. every implementation edge and probe is compared with Tracker!Step   *)
(*      (conformance; divergences are written to TR_REPORT, not an alarm),  *)
(*   2. TLC walks the product  implementation graph x ghost monitor and     *)
(*      checks C13a, C13b, C13c on it (violations),                          *)
(*   3. the sets of violating edges / probes are listed in the report so    *)
(*      that every distinct finding gets its own key.                       *)
(*                                                                         *)
(* The configuration (TR_CFG) names the tracker's mode: trusted oracles and   *)
(* allow_deep_reorgs (K.deep); the projection of a state carries, next to    *)
(* the tracker's variables, the chain below the remembered headers (anc).    *)
(* Nodes[i+1] = [id, pre, x, e, p]: implementation state i, its projection, *)
(* whether it was expanded, its edges <<to, request, ok, err, changed>> and *)
(* its probes <<refused request q, probe request r, ok, err, to>>.          *)
(* to = -1: the request panicked (no post state); to = -2: the post state   *)
(* is new but the exploration's state budget was used up (only the response *)
(* and the changed-mask of such an edge are judged).                        *)
(***************************************************************************)
EXTENDS Tracker, Json, IOUtils, SequencesExt

Nodes    == ndJsonDeserialize(IOEnv.TR_NODES)
Alphabet == JsonDeserialize(IOEnv.TR_ALPHABET)
Cfg      == JsonDeserialize(IOEnv.TR_CFG)
EnvNat(s) == CHOOSE n \in 0..5000 : ToString(n) = s
K == [interval |-> EnvNat(IOEnv.TR_INTERVAL), maxReorg |-> EnvNat(IOEnv.TR_MAXREORG),
      trusted |-> SeqSet(Cfg.trusted), deep |-> Cfg.deep,
      popFirst |-> IOEnv.TR_POP_FIRST = "true", keepDecode |-> IOEnv.TR_KEEP_DECODE = "true"]

\* implementation projection -> specification state (the decode states are hidden: a state
\* of the graph is a freshly restored tracker, which has none)
FromJson(j) == [h |-> j.h, tip |-> j.tip, win |-> j.win, anc |-> j.anc,
                ls |-> [k \in DOMAIN j.ls |-> [w |-> SeqSet(j.ls[k].w), s |-> SeqSet(j.ls[k].s),
                                               tw |-> j.ls[k].tw, m |-> j.ls[k].m]],
                tds |-> FALSE, mds |-> FALSE]
\* every node converted once (a constant: TLC evaluates it a single time)
States == [i \in DOMAIN Nodes |-> FromJson(Nodes[i].pre)]
StateOf(nd) == States[nd.id + 1]
PostOf(nd, to) == IF to >= 0 THEN Obs(States[to + 1]) ELSE Obs(StateOf(nd))

VARIABLES node, g, last
vars == <<node, g, last>>

Init == /\ node = 0
        /\ g = InitGhost
        /\ last = [k |-> "init"]

\* the monitors on one edge (an edge into the unexplored region is judged on response and mask only)
EdgeGhost(gh, nd, e) ==
  IF e[1] = -2
  THEN [gh EXCEPT !.frameOK = gh.frameOK /\ (e[3] = 0 => e[5] = 0)]
  ELSE Ghost(gh, K, Obs(StateOf(nd)), Alphabet[e[2]], Resp(e[3], e[4]), e[5], PostOf(nd, e[1]))

EdgeStep == \E j \in DOMAIN Nodes[node + 1].e :
  LET nd == Nodes[node + 1]
      e == nd.e[j] IN
  /\ g' = EdgeGhost(g, nd, e)
  /\ node' = IF e[1] >= 0 THEN e[1] ELSE node
  /\ last' = [k |-> "edge", from |-> node, ri |-> e[2], ok |-> e[3], err |-> e[4], chg |-> e[5]]

ProbeStep == \E j \in DOMAIN Nodes[node + 1].p :
  LET p == Nodes[node + 1].p[j] IN
  /\ g' = GhostProbe(g, Resp(p[3], p[4]))
  /\ node' = node
  /\ last' = [k |-> "probe", from |-> node, qi |-> p[1], ri |-> p[2], ok |-> p[3], err |-> p[4]]

Next == EdgeStep \/ ProbeStep
Spec == Init /\ [][Next]_vars
View == <<node, g>>

C13a == Inv_C13a(g)
C13b == Inv_C13b(g)
C13c == Inv_C13c(g)

---------------------------------------------------------------------------
\* Everything below is evaluated once, at start-up, node by node: no set of all edges is ever
\* built (TLC's UNION is quadratic), the report lists per node the INDICES of the offending
\* edges / probes.  Run with -workers 1: TLC evaluates constants once per worker.

\* 1. conformance
EdgeConforms(nd, e) ==
  LET o == Step(StateOf(nd), Alphabet[e[2]], K) IN
  /\ o.resp = Resp(e[3], e[4])
  /\ e[1] >= 0 => Obs(o.s) = PostOf(nd, e[1])
ProbeConforms(nd, p) ==
  LET o1 == Step(StateOf(nd), Alphabet[p[1]], K)
      o2 == Step(o1.s, Alphabet[p[2]], K) IN
  /\ o2.resp = Resp(p[3], p[4])
  /\ p[5] >= 0 => Obs(o2.s) = PostOf(nd, p[5])

\* per node: the indices of its edges / probes for which Bad holds
EdgesWhere(Bad(_, _))  == [i \in DOMAIN Nodes |-> {j \in DOMAIN Nodes[i].e : Bad(Nodes[i], Nodes[i].e[j])}]
ProbesWhere(Bad(_, _)) == [i \in DOMAIN Nodes |-> {j \in DOMAIN Nodes[i].p : Bad(Nodes[i], Nodes[i].p[j])}]
Count(f) == FoldLeft(LAMBDA acc, i : acc + Cardinality(f[i]), 0, [i \in DOMAIN f |-> i])
Listed(f) == [i \in DOMAIN f |-> SetToSeq(f[i])]
\* the first n <<node index, edge index>> pairs
FirstPairs(f, n) == FoldLeft(LAMBDA acc, i : IF Len(acc) >= n THEN acc
                                             ELSE acc \o [k \in 1..MinOf(n - Len(acc), Cardinality(f[i])) |-> <<i, SetToSeq(f[i])[k]>>],
                             <<>>, [i \in DOMAIN f |-> i])

NEdges  == FoldLeft(LAMBDA acc, nd : acc + Len(nd.e), 0, Nodes)
NProbes == FoldLeft(LAMBDA acc, nd : acc + Len(nd.p), 0, Nodes)
Accepted == FoldLeft(LAMBDA acc, nd : acc + Cardinality({k \in DOMAIN nd.e : nd.e[k][3] = 1}), 0, Nodes)
\* vacuity guards: how many accepted edges did the reference predicate have to justify, how many
\* refused edges / probes were looked at
Refused == FoldLeft(LAMBDA acc, nd : acc + Cardinality({k \in DOMAIN nd.e : nd.e[k][3] = 0}), 0, Nodes)

DescribeEdge(x) == LET nd == Nodes[x[1]] e == nd.e[x[2]] IN
  [node |-> nd.id, ri |-> e[2], pre |-> nd.pre, req |-> Alphabet[e[2]], ok |-> e[3], err |-> e[4], chg |-> e[5],
   to |-> e[1], post |-> IF e[1] >= 0 THEN Nodes[e[1] + 1].pre ELSE nd.pre,
   expected |-> LET o == Step(StateOf(nd), Alphabet[e[2]], K) IN [resp |-> o.resp, h |-> o.s.h, tip |-> o.s.tip.id, nwin |-> Len(o.s.win)]]
DescribeProbe(x) == LET nd == Nodes[x[1]] p == nd.p[x[2]] IN
  [node |-> nd.id, qi |-> p[1], ri |-> p[2], pre |-> nd.pre, q |-> Alphabet[p[1]], req |-> Alphabet[p[2]],
   ok |-> p[3], err |-> p[4], to |-> p[5],
   expected |-> Step(Step(StateOf(nd), Alphabet[p[1]], K).s, Alphabet[p[2]], K).resp]

\* move_bad / frame_bad / later_bad: per node (in file order) the indices of the edges / probes on
\* which the monitor fails
Report ==
  LET de == EdgesWhere(LAMBDA nd, e : ~EdgeConforms(nd, e))
      dp == ProbesWhere(LAMBDA nd, p : ~ProbeConforms(nd, p))
      des == FirstPairs(de, 12)
      dps == FirstPairs(dp, 12) IN
  [ nodes    |-> Len(Nodes),
    expanded |-> Cardinality({i \in DOMAIN Nodes : Nodes[i].x}),
    edges    |-> NEdges, probes |-> NProbes, accepted |-> Accepted, refused |-> Refused,
    n_divergent_edges  |-> Count(de),
    n_divergent_probes |-> Count(dp),
    divergent_edges  |-> [i \in DOMAIN des |-> DescribeEdge(des[i])],
    divergent_probes |-> [i \in DOMAIN dps |-> DescribeProbe(dps[i])],
    move_bad  |-> Listed(EdgesWhere(LAMBDA nd, e : ~EdgeGhost(InitGhost, nd, e).moveOK)),
    \* the move_bad edges whose request was allowed but left the wrong tip / height / window
    post_bad  |-> Listed(EdgesWhere(LAMBDA nd, e : e[1] # -2 /\
                     PostWrong(K, Obs(StateOf(nd)), Alphabet[e[2]], Resp(e[3], e[4]), PostOf(nd, e[1])))),
    \* accepted removals below the remembered headers (deep-reorg mode), and those of them whose
    \* supplied filter header was all-zero (accepted without a proof check)
    deep_retreats |-> Count(EdgesWhere(LAMBDA nd, e : e[3] = 1 /\ Alphabet[e[2]].op = "rm" /\ StateOf(nd).win = <<>>)),
    deep_retreats_unproved |-> Count(EdgesWhere(LAMBDA nd, e :
                     UnprovedDeepRetreat(K, Obs(StateOf(nd)), Alphabet[e[2]], Resp(e[3], e[4])))),
    frame_bad |-> Listed(EdgesWhere(LAMBDA nd, e : ~EdgeGhost(InitGhost, nd, e).frameOK)),
    later_bad |-> Listed(ProbesWhere(LAMBDA nd, p : ~GhostProbe(InitGhost, Resp(p[3], p[4])).laterOK)) ]

\* TR_REPORT = "-": monitors only (the run with INVARIANTS), no conformance report
ASSUME IOEnv.TR_REPORT = "-" \/ JsonSerialize(IOEnv.TR_REPORT, Report)
=============================================================================
