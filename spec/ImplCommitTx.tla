--------------------------- MODULE ImplCommitTx ---------------------------
(***************************************************************************)
(* Leg B of C04: what the harness (`committx run`) RECORDED FROM THE REAL   *)
(* IMPLEMENTATION is loaded here - per base the setup, the content, the     *)
(* transaction it built as canonical from the model's abstract outputs,     *)
(* whether LDK's builder produced the same bytes, LDK's second-level        *)
(* transactions, the verdict of the semantic entry point and against what   *)
(* the returned signatures verify; per raw request the submitted            *)
(* transaction and witness scripts (the concrete values, in the abstract    *)
(* shape), the real verdict and against what the returned signature         *)
(* verifies - and                                                           *)
(*   1. the property monitors (CommitTx!Bad_ operators: reference predicate *)
(*      on the LOGGED transaction, signature targets, entry-point           *)
(*      equivalence) are evaluated on every record      -> VIOLATIONS       *)
(*   2. the real verdict is compared with the code-shaped StepRaw / StepSem *)
(*                                       -> divergences (no alarm),         *)
(*                                          impl_stricter counts            *)
(*   3. per-rule coverage: how often each reference rule was the SOLE       *)
(*      reason of a refusal                              -> vacuity guard   *)
(*   4. concretisation checks: the transaction the harness calls canonical  *)
(*      IS Canon(S, C) of this module and equals LDK's bytes; LDK's         *)
(*      second-level transactions are CanonHtlcTx; every submitted          *)
(*      transaction is the mutation the model asked for; abstract equality  *)
(*      coincides with byte equality.                                       *)
(*   5. histories with a RESTART (CommitTx!Histories): the harness restored *)
(*      the signer from a copy of its store where the history says          *)
(*      (B.restart = "ok", checked as part of the concretisation) and made  *)
(*      the judged requests on the restored signer; the monitors of 1 are   *)
(*      applied to them UNCHANGED (CommitTx!Restart is the identity on what *)
(*      the entry points read), with the signatures verified against the    *)
(*      funding amount CommitTx!SighashAmount (B.amt).                      *)
(* IOEnv: CT_LOG (ndjson), CT_REPORT (json), CT_VOUT_TRUNC (behaviour switch *)
(* of the code-shaped model).                                               *)
(***************************************************************************)
EXTENDS CommitTx, Json, IOUtils, SequencesExt, FiniteSetsExt

Log  == ndJsonDeserialize(IOEnv.CT_LOG)
NLog == Len(Log)
SW == [voutTruncated |-> IOEnv.CT_VOUT_TRUNC = "true"]
BaseIdx == {i \in 1..NLog : Log[i].k = "base"}
RawIdx  == {i \in 1..NLog : Log[i].k = "raw"}
RetryIdx == {i \in 1..NLog : Log[i].k = "retry"}
\* the harness writes a base record before its raw records
BaseLine == TLCEval([b \in {Log[i].b : i \in BaseIdx} |-> CHOOSE i \in BaseIdx : Log[i].b = b])
BaseOf(rec) == Log[BaseLine[rec.b]]

---------------------------------------------------------------------------
\* bases
HtlcPosSeq(outs) == SelectSeq([p \in DOMAIN outs |-> p], LAMBDA p : outs[p].tp \in HtlcTps)
HtxView(h) == [ver |-> h.ver, lt |-> h.lt, vout |-> h.vout, seq |-> h.seq, v |-> h.v, tp |-> h.tp, k1 |-> h.k1,
               d |-> h.d, k2 |-> h.k2]
HtxSeq(B) == [k \in DOMAIN B.htx |-> HtxView(B.htx[k])]
\* a base whose setup_channel was refused: nothing was asked, nothing was signed
ConcBase(B) ==
  IF ~B.setup_ok THEN WideVout(B.S)
  ELSE
  LET ps == HtlcPosSeq(B.canon.outs) IN
  /\ B.reached
  /\ B.hist \in Histories
  \* the signer was restarted exactly where the history says, and the restart succeeded
  /\ B.restart = (IF RestartHist(B.hist) THEN "ok" ELSE "none")
  \* the funding amount the harness verified the commitment signatures with
  /\ B.amt = SighashAmount(B.S)
  /\ IsCanon(B.canon, B.S, B.C, {})
  \* LDK's OutPoint cannot hold a wide output index: no cross-build for such a setup
  /\ WideVout(B.S) \/
       /\ B.ldk_built /\ B.ldk_eq
       /\ Len(B.htx) = Len(ps)
       /\ \A k \in DOMAIN B.htx :
            \/ B.htx[k].tp = "unbuildable" /\ ~B.sem.ok
            \/ /\ HtxView(B.htx[k]) = CanonHtlcTx(B.S, B.C, B.canon.outs, ps[k])
               /\ B.htx[k].nin = 1 /\ B.htx[k].nout = 1 /\ B.htx[k].spends_canon
BaseBad(B) ==
     (IF Bad_SemSignature(B.sem) THEN {"semantic_signature_target"} ELSE {})
  \cup (IF ~WideVout(B.S) /\ Bad_SemHtlc(B.S, HtxSeq(B), B.sem) THEN {"semantic_htlc_signatures"} ELSE {})
  \* the same request again: whatever it returns must again be for the canonical transaction
  \cup (IF B.sem2.ok /\ ~B.sem2.canon THEN {"semantic_retry_signature_target"} ELSE {})
  \* what the signer holds for the number after the first accepted request is the validated content
  \cup (IF B.sem.ok /\ ~(B.rec.some /\ RecordedIs(B.rec, B.C)) THEN {"recorded_content_differs"} ELSE {})
BaseExpected(B) == IF SetupTag(B.S, SW) # "ok" THEN "nosetup"
                   ELSE IF ~B.setup_ok THEN "setup_channel accepts"
                   ELSE StepSem(B.S, B.C, RangeOf(B.canon.outs), SW).tag

\* raw requests
SemOk(B) == IF RetryHist(B.hist) THEN B.sem2.ok ELSE B.sem.ok
IsCanonReq(rec) == rec.m.k = "none" /\ rec.m2.k = "none" /\ rec.w.k = "none"
RawJudge(i) ==
  LET rec  == Log[i]
      B    == BaseOf(rec)
      pool == RangeOf(B.canon.outs)
      rules == Rules(rec.tx, B.S, B.C, pool)
      must == rules # {}
      bad  == (IF rec.resp.ok /\ must THEN {"raw_accepts_noncanonical"} ELSE {})
               \cup (IF rec.resp.ok /\ ~must /\ ~rec.resp.sub THEN {"raw_signature_target"} ELSE {})
               \cup (IF Bad_RawEquiv(SemOk(B), IsCanonReq(rec), rec.resp) THEN {"raw_not_equivalent"} ELSE {}) IN
  [i |-> i, rules |-> rules, ok |-> rec.resp.ok, bad |-> bad,
   tag |-> StepRaw(rec.tx, rec.ws, SignerAt(B.S, NoRec, B.hist).S, B.C, pool, RetryHist(B.hist) /\ B.sem.ok, SW).tag,
   conc |-> /\ IsMutant(rec.tx, B.canon, rec.m, rec.m2, B.S, B.C)
            /\ rec.ws = WsFor(rec.tx, B.canon, rec.w)
            /\ rec.bytes_eq_canon = (TxBV(rec.tx) = TxBV(B.canon))]
JudgedAt == TLCEval([i \in RawIdx |-> RawJudge(i)])
Judged == TLCEval({JudgedAt[i] : i \in RawIdx})
BaseBadAt == TLCEval([i \in BaseIdx |-> BaseBad(Log[i])])

\* retries: a second request for the number of a base, made in the state its accepted first request left
RetryJudge(i) ==
  LET rec == Log[i]
      B   == BaseOf(rec)
      bad == (IF Bad_RetrySignature(rec.resp) THEN {"retry_signature_target"} ELSE {})
              \cup (IF ~WideVout(B.S) /\ Bad_RetryHtlc(B.S, HtxSeq(B), rec.ep, rec.resp) THEN {"retry_htlc_signatures"} ELSE {}) IN
  [i |-> i, ok |-> rec.resp.ok, bad |-> bad, tag |-> StepRetry(B.S, B.C, rec.C2),
   \* did the request change what the signer holds for the number?
   rec_changed |-> ~(rec.rec.some /\ RecordedIs(rec.rec, B.C)),
   \* the request is what the model asked for: the content differs from the base's as its kind says
   conc |-> (rec.kind = "same") = SameContent(B.C, rec.C2)]
RetryAt == TLCEval([i \in RetryIdx |-> RetryJudge(i)])
RetryJudged == TLCEval({RetryAt[i] : i \in RetryIdx})

---------------------------------------------------------------------------
\* 1: TLC walks the log; the monitors are the invariant
VARIABLES l
Init == l = 0
Next == l < NLog /\ l' = l + 1
Spec == Init /\ [][Next]_l
C04 == l >= 1 => (IF Log[l].k = "base" THEN BaseBadAt[l] = {}
                  ELSE IF Log[l].k = "raw" THEN JudgedAt[l].bad = {}
                  ELSE IF Log[l].k = "retry" THEN RetryAt[l].bad = {} ELSE TRUE)

---------------------------------------------------------------------------
\* the report
\* real tags that the model's tag stands for
Matches(model, real) ==
  \/ model = real
  \/ model = "top" /\ (real \in {"panic", "policy"})
MKey(rec) == <<rec.m.k, rec.m.f, rec.m2.k, rec.w.k, rec.w.base>>
Describe(j) ==
  LET rec == Log[j.i] B == BaseOf(rec) IN
  [line |-> j.i, b |-> rec.b, id |-> rec.id, name |-> B.name, ct |-> B.S.ct, hist |-> B.hist, kinds |-> SetToSeq(j.bad),
   rules |-> SetToSeq(j.rules), expected |-> j.tag, m |-> rec.m, m2 |-> rec.m2, w |-> rec.w, resp |-> rec.resp, tx |-> rec.tx,
   S |-> B.S, C |-> B.C]
DescribeBase(i) ==
  [line |-> i, b |-> Log[i].b, id |-> 0, name |-> Log[i].name, ct |-> Log[i].S.ct, hist |-> Log[i].hist,
   kinds |-> SetToSeq(BaseBadAt[i]), rules |-> << >>, expected |-> BaseExpected(Log[i]), sem |-> Log[i].sem,
   sem2 |-> Log[i].sem2, htx |-> Log[i].htx, S |-> Log[i].S, C |-> Log[i].C]
DescribeRetry(j) ==
  LET rec == Log[j.i] B == BaseOf(rec) IN
  [line |-> j.i, b |-> rec.b, id |-> rec.id, name |-> B.name, ct |-> B.S.ct, hist |-> B.hist, kinds |-> SetToSeq(j.bad),
   rules |-> << >>, expected |-> j.tag, ep |-> rec.ep, kind |-> rec.kind, C2 |-> rec.C2, resp |-> rec.resp,
   recorded |-> rec.rec, first |-> B.sem, S |-> B.S, C |-> B.C]
First(S, n) == LET q == SetToSeq(S) IN [k \in 1..Min({Len(q), n}) |-> q[k]]

Violating     == {j \in Judged : j.bad # {}}
ViolatingBase == {i \in BaseIdx : BaseBadAt[i] # {}}
Divergent     == {j \in Judged : ~Matches(j.tag, Log[j.i].resp.tag)}
DivergentBase == {i \in BaseIdx : BaseExpected(Log[i]) # Log[i].sem.tag}
Stricter      == {j \in Judged : ~j.ok /\ j.rules = {}}
ConcBadRaw    == {j \in Judged : ~j.conc}
ConcBadBase   == {i \in BaseIdx : ~ConcBase(Log[i])}
DivKinds      == {<<j.tag, Log[j.i].resp.tag>> : j \in Divergent}
StrKinds      == {<<MKey(Log[j.i]), Log[j.i].resp.tag>> : j \in Stricter}
Granted       == {j \in Judged : j.ok}
GrantKinds    == {MKey(Log[j.i]) : j \in Granted}
Sole(n)       == Cardinality({j \in Judged : j.rules = {n} /\ ~j.ok})
AnyOf(n)      == Cardinality({j \in Judged : n \in j.rules})
AllRuleNames  == RuleNames \cup {"outputs.other"}

Report ==
  [ records      |-> NLog,
    bases        |-> Cardinality(BaseIdx),
    setup_refused |-> Cardinality({i \in BaseIdx : ~Log[i].setup_ok}),
    skipped      |-> Cardinality({i \in 1..NLog : Log[i].k = "skip"}),
    raw          |-> Cardinality(RawIdx),
    sem_ok       |-> Cardinality({i \in BaseIdx : Log[i].sem.ok}),
    sem_retry_ok |-> Cardinality({i \in BaseIdx : Log[i].sem2.ok}),
    \* bases whose judged requests were made on a restored signer; how many of them were answered with a
    \* signature before / after the restart, and raw / retry requests granted by a restored signer
    restart_bases |-> Cardinality({i \in BaseIdx : Log[i].setup_ok /\ RestartHist(Log[i].hist)}),
    restart_sem_ok |-> Cardinality({i \in BaseIdx : Log[i].setup_ok /\ Log[i].hist = "restart" /\ Log[i].sem.ok}),
    restart_sem_retry_ok |-> Cardinality({i \in BaseIdx : Log[i].setup_ok /\ Log[i].hist = "restart_retry" /\ Log[i].sem2.ok}),
    restart_htlc_sigs |-> Cardinality({i \in BaseIdx : Log[i].setup_ok /\ Log[i].hist = "restart" /\ Log[i].sem.ok /\ Len(Log[i].sem.hs) > 0}),
    restart_raw_granted |-> Cardinality({j \in Judged : j.ok /\ BaseOf(Log[j.i]).setup_ok /\ RestartHist(BaseOf(Log[j.i]).hist)}),
    restart_retries_accepted |-> Cardinality({j \in RetryJudged : j.ok /\ RestartHist(BaseOf(Log[j.i]).hist)}),
    htlc_sigs    |-> LET RECURSIVE Sum(_) Sum(S) == IF S = {} THEN 0 ELSE LET x == CHOOSE y \in S : TRUE IN Len(Log[x].sem.hs) + Sum(S \ {x})
                     IN Sum(BaseIdx),
    granted      |-> Cardinality(Granted),
    granted_canonical_request |-> Cardinality({j \in Granted : IsCanonReq(Log[j.i])}),
    must_refuse  |-> Cardinality({j \in Judged : j.rules # {}}),
    distinct_cases |-> Cardinality({<<BaseOf(Log[i]).S, BaseOf(Log[i]).C, BaseOf(Log[i]).hist, Log[i].tx, Log[i].ws>> : i \in RawIdx}),
    distinct_nontrivial |-> Cardinality({<<BaseOf(Log[j.i]).S, BaseOf(Log[j.i]).C, BaseOf(Log[j.i]).hist, Log[j.i].tx, Log[j.i].ws>>
                                           : j \in {x \in Judged : ~IsCanonReq(Log[x.i])}}),
    retries      |-> Cardinality(RetryIdx),
    retries_accepted |-> Cardinality({j \in RetryJudged : j.ok}),
    retries_identical_accepted |-> Cardinality({j \in RetryJudged : j.ok /\ Log[j.i].kind = "same"}),
    retries_identical_same_signatures |-> Cardinality({j \in RetryJudged : j.ok /\ Log[j.i].kind = "same" /\ Log[j.i].resp.same /\ Log[j.i].resp.hsame}),
    retries_changed_refused |-> Cardinality({j \in RetryJudged : ~j.ok /\ Log[j.i].kind # "same"}),
    retries_changed_accepted |-> Cardinality({j \in RetryJudged : j.ok /\ Log[j.i].kind # "same"}),
    retries_recorded_changed |-> Cardinality({j \in RetryJudged : j.rec_changed}),
    retry_kinds  |-> LET T == {<<Log[i].ep, Log[i].kind, Log[i].resp.tag>> : i \in RetryIdx} IN
                     [k \in DOMAIN SetToSeq(T) |-> [ep |-> SetToSeq(T)[k][1], kind |-> SetToSeq(T)[k][2], real |-> SetToSeq(T)[k][3],
                         n |-> Cardinality({i \in RetryIdx : <<Log[i].ep, Log[i].kind, Log[i].resp.tag>> = SetToSeq(T)[k]})]],
    retry_violations |-> LET V == {j \in RetryJudged : j.bad # {}} IN
                     [k \in DOMAIN First(V, 20) |-> DescribeRetry(First(V, 20)[k])],
    retry_divergence_kinds |-> LET DV == {j \in RetryJudged : ~Matches(j.tag, Log[j.i].resp.tag)}
                                   T == {<<Log[j.i].ep, Log[j.i].kind, j.tag, Log[j.i].resp.tag>> : j \in DV} IN
                     [k \in DOMAIN SetToSeq(T) |-> [ep |-> SetToSeq(T)[k][1], kind |-> SetToSeq(T)[k][2], expected |-> SetToSeq(T)[k][3],
                         real |-> SetToSeq(T)[k][4],
                         n |-> Cardinality({j \in DV : <<Log[j.i].ep, Log[j.i].kind, j.tag, Log[j.i].resp.tag>> = SetToSeq(T)[k]})]],
    nviolations  |-> Cardinality(Violating) + Cardinality(ViolatingBase) + Cardinality({j \in RetryJudged : j.bad # {}}),
    violations   |-> [k \in DOMAIN First(Violating, 40) |-> Describe(First(Violating, 40)[k])],
    base_violations |-> [k \in DOMAIN First(ViolatingBase, 20) |-> DescribeBase(First(ViolatingBase, 20)[k])],
    ndivergent   |-> Cardinality(Divergent) + Cardinality(DivergentBase)
                     + Cardinality({j \in RetryJudged : ~Matches(j.tag, Log[j.i].resp.tag)}),
    divergence_kinds |-> [k \in DOMAIN SetToSeq(DivKinds) |->
                            LET t == SetToSeq(DivKinds)[k] IN
                            [expected |-> t[1], real |-> t[2],
                             n |-> Cardinality({j \in Divergent : <<j.tag, Log[j.i].resp.tag>> = t})]],
    base_divergence_kinds |-> LET T == {<<BaseExpected(Log[i]), Log[i].sem.tag>> : i \in DivergentBase} IN
                     [k \in DOMAIN SetToSeq(T) |-> [expected |-> SetToSeq(T)[k][1], real |-> SetToSeq(T)[k][2],
                         n |-> Cardinality({i \in DivergentBase : <<BaseExpected(Log[i]), Log[i].sem.tag>> = SetToSeq(T)[k]})]],
    divergences  |-> [k \in DOMAIN First(Divergent, 12) |-> Describe(First(Divergent, 12)[k])],
    base_divergences |-> [k \in DOMAIN First(DivergentBase, 12) |-> DescribeBase(First(DivergentBase, 12)[k])],
    nstricter    |-> Cardinality(Stricter),
    stricter_kinds |-> [k \in DOMAIN SetToSeq(StrKinds) |->
                          LET t == SetToSeq(StrKinds)[k] IN
                          [m |-> t[1], tag |-> t[2],
                           n |-> Cardinality({j \in Stricter : <<MKey(Log[j.i]), Log[j.i].resp.tag>> = t})]],
    sole         |-> [n \in AllRuleNames |-> Sole(n)],
    any          |-> [n \in AllRuleNames |-> AnyOf(n)],
    uncovered    |-> SetToSeq({n \in RuleNames : Sole(n) = 0}),
    granted_kinds |-> [k \in DOMAIN SetToSeq(GrantKinds) |->
                         LET t == SetToSeq(GrantKinds)[k] IN
                         [m |-> t, n |-> Cardinality({j \in Granted : MKey(Log[j.i]) = t})]],
    real_tags    |-> LET T == {Log[i].resp.tag : i \in RawIdx} IN
                     [k \in DOMAIN SetToSeq(T) |-> [tag |-> SetToSeq(T)[k],
                                                    n |-> Cardinality({i \in RawIdx : Log[i].resp.tag = SetToSeq(T)[k]})]],
    nconc_bad    |-> Cardinality(ConcBadRaw) + Cardinality(ConcBadBase) + Cardinality({j \in RetryJudged : ~j.conc}),
    conc_bad     |-> [k \in DOMAIN First(ConcBadRaw, 6) |-> Describe(First(ConcBadRaw, 6)[k])],
    conc_bad_bases |-> [k \in DOMAIN First(ConcBadBase, 6) |-> DescribeBase(First(ConcBadBase, 6)[k])],
    sample       |-> LET S1 == {j \in Granted : IsCanonReq(Log[j.i]) /\ Len(Log[j.i].tx.outs) > 4}
                         S2 == {j \in Judged : ~j.ok /\ Cardinality(j.rules) = 1 /\ Log[j.i].m.k = "out"}
                         S4 == {j \in Judged : ~j.ok /\ Cardinality(j.rules) = 2 /\ Log[j.i].m2.k # "none"}
                         S3 == {j \in Granted : ~IsCanonReq(Log[j.i]) /\ Log[j.i].m.k # "none"}
                         pick == First(S1, 1) \o First(S2, 2) \o First(S3, 1) \o First(S4, 1) IN
                     [k \in DOMAIN pick |-> Describe(pick[k])] ]

ASSUME JsonSerialize(IOEnv.CT_REPORT, Report)
=============================================================================
