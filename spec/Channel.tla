------------------------------- MODULE Channel -------------------------------
(***************************************************************************)
(* Enforcement state machine of ONE channel of the validating signer.       *)
(*                                                                         *)
(* Mirrors vls-core/src/channel.rs + policy/validator.rs +                  *)
(* policy/simple_validator.rs (commitment numbering, retry rules, secret    *)
(* release, counterparty revocation, BOLT-3 compact secret store).          *)
(*                                                                         *)
(* The module is written "to be bound": the whole transition function is    *)
(* the pure operator Step(s, r) -> [resp, s], one CASE arm per public entry *)
(* point, each arm listing the refusals in the order the code performs them *)
(* (so that a mutation made before a later refusal is visible).  Ghost(g,   *)
(* r, resp) updates history variables from *observations only*; the listed  *)
(* properties C01, C02, C03 are invariants over the ghost variables.        *)
(*                                                                         *)
(* The same operators are used by                                           *)
(*   MC_Channel.tla    : TLC explores the model itself           (leg A)    *)
(*   ImplChannel.tla   : TLC explores the state graph extracted from the    *)
(*                       real implementation, checks every implementation   *)
(*                       edge against Step and runs the ghost monitors on   *)
(*                       the product                             (leg B)    *)
(***************************************************************************)
EXTENDS Naturals, Integers, Sequences, FiniteSets, TLC

NoC  == "none"                         \* absent commitment content
NoPt == [t |-> "none", n |-> -1]        \* absent per-commitment point

(***************************************************************************)
(* Abstract values.                                                        *)
(*  content  : a string naming one concrete CommitmentInfo2                *)
(*             "A","B"  valid at every commitment number                   *)
(*             "H"      carries one received HTLC: valid for n > 0 only     *)
(*             "P"      violates a mandatory policy bound: never valid      *)
(*  point    : [t, n]  = per-commitment point number n of secret tree t     *)
(*  secret   : [t, n]  = per-commitment secret number n of secret tree t    *)
(*             (SHA-256 / secp256k1 are treated as injective)               *)
(***************************************************************************)
HolderValidAt(c, n) == \/ c \in {"A", "B"}
                       \/ c = "H" /\ n > 0
CpValidAt(c, n)     == \/ c \in {"A", "B"}
                       \/ c = "H" /\ n > 0

PointOf(sec) == [t |-> sec.t, n |-> sec.n]

(***************************************************************************)
(* BOLT-3 compact secret store (CounterpartyCommitmentSecrets).             *)
(* The code indexes secrets by idx = 2^48-1-n; place_secret(idx) = number   *)
(* of trailing zero bits of idx = number of trailing ONE bits of n.         *)
(* A slot is [t, n]: the secret of tree t for commitment number n.          *)
(***************************************************************************)
RECURSIVE TrailingOnes(_)
TrailingOnes(n) == IF n % 2 = 1 THEN 1 + TrailingOnes(n \div 2) ELSE 0

RECURSIVE Pow2(_)
Pow2(k) == IF k = 0 THEN 1 ELSE 2 * Pow2(k - 1)

\* the secret stored for number `from` (which has >= bits trailing ones)
\* derives the secret for number `to` iff they agree above the low `bits` bits
InSubtree(from, bits, to) == (to \div Pow2(bits)) = (from \div Pow2(bits))

\* largest commitment number for which a secret is stored (min idx in the code)
MaxSeen(slots) == IF slots = <<>> THEN -1
                  ELSE CHOOSE m \in {slots[i].n : i \in 1..Len(slots)} :
                         \A i \in 1..Len(slots) : slots[i].n <= m

\* provide_secret(idx(n), secret [t,m]) : [ok, slots]
SecProvide(slots, n, sec) ==
  LET pos == TrailingOnes(n) IN
  IF pos > Len(slots) THEN [ok |-> FALSE, slots |-> slots]
  ELSE IF \E i \in 1..pos :
             \* derive_secret(secret, pos, old_idx) != old_secret
             ~( /\ sec.n = n                      \* a secret of another index derives garbage
                /\ sec.t = slots[i].t
                /\ InSubtree(n, pos, slots[i].n) )
       THEN [ok |-> FALSE, slots |-> slots]
  ELSE IF MaxSeen(slots) >= n THEN [ok |-> TRUE, slots |-> slots]   \* min_seen <= idx
  ELSE IF pos < Len(slots)
       THEN [ok |-> TRUE, slots |-> [slots EXCEPT ![pos + 1] = sec]]
       ELSE [ok |-> TRUE, slots |-> Append(slots, sec)]

\* get_secret(idx(n)) : the secret or "none"
SecGet(slots, n) ==
  LET hits == {i \in 1..Len(slots) : InSubtree(slots[i].n, i - 1, n)
                                     /\ slots[i].n >= n} IN
  IF hits = {} THEN [t |-> "none", n |-> -1]
  ELSE LET i == CHOOSE k \in hits : \A j \in hits : k <= j IN
       [t |-> slots[i].t, n |-> n]

(***************************************************************************)
(* Channel state                                                           *)
(***************************************************************************)
InitReady == [ phase |-> "ready",
               nh |-> 0, curH |-> NoC, nextH |-> NoC, closed |-> FALSE,
               nc |-> 0, nr |-> 0, curC |-> NoC, prevC |-> NoC,
               curPt |-> NoPt, prevPt |-> NoPt, sec |-> <<>> ]
InitStub == [InitReady EXCEPT !.phase = "stub"]

Err(s)        == [resp |-> [ok |-> FALSE, sec |-> -1, pt |-> -1, flag |-> -1], s |-> s]
Ok(s)         == [resp |-> [ok |-> TRUE,  sec |-> -1, pt |-> -1, flag |-> -1], s |-> s]
OkSec(s, n)   == [resp |-> [ok |-> TRUE,  sec |-> n,  pt |-> -1, flag |-> -1], s |-> s]
OkPt(s, n)    == [resp |-> [ok |-> TRUE,  sec |-> -1, pt |-> n,  flag |-> -1], s |-> s]
OkPtSec(s, p, n) == [resp |-> [ok |-> TRUE, sec |-> n, pt |-> p, flag |-> -1], s |-> s]
OkFlag(s, b)  == [resp |-> [ok |-> TRUE,  sec |-> -1, pt |-> -1, flag |-> IF b THEN 1 ELSE 0], s |-> s]

---------------------------------------------------------------------------
\* holder side

GetPoint(s, n) ==
  IF s.phase = "stub" THEN (IF n \in {0, 1} THEN OkPt(s, n) ELSE Err(s))
  ELSE IF n > s.nh + 1 THEN Err(s) ELSE OkPt(s, n)

GetSecret(s, n) ==
  IF s.phase = "stub" THEN Err(s)
  ELSE IF n + 2 > s.nh THEN Err(s) ELSE OkSec(s, n)

GetSecretOrNone(s, n) ==
  IF s.phase = "stub" THEN Ok(s)
  ELSE IF n + 2 > s.nh THEN Ok(s) ELSE OkSec(s, n)

CheckFutureSecret(s, n, good) == OkFlag(s, good)

\* the part of validate_holder_commitment_tx shared with the redundant signer
HolderCommitRefused(s, n, c) ==
  \/ n > s.nh + 1                         \* get_per_commitment_point
  \/ ~HolderValidAt(c, n)                 \* validate_commitment_tx (policy bounds, C05)
  \/ n + 1 = s.nh /\ c # s.curH           \* policy-commitment-retry-same
  \/ n + 2 <= s.nh                        \* policy-commitment-holder-not-revoked
  \/ n = s.nh /\ s.closed                 \* channel is closing

ValidateHolder(s, n, c, sig) ==
  IF s.phase = "stub" THEN Err(s)
  ELSE IF HolderCommitRefused(s, n, c) THEN Err(s)
  \* check_holder_tx_signatures (commitment + every HTLC): "badcommit" = signature made for other
  \* content, "badhtlc" = wrong HTLC signature, "shorthtlc" = fewer HTLC signatures than HTLCs,
  \* "replay" = the counterparty's valid signatures for the same content at number n - 1
  ELSE IF sig # "good" THEN Err(s)
  ELSE IF n = s.nh THEN Ok([s EXCEPT !.nextH = c])
  ELSE Ok(s)                              \* retry of current / look-ahead: accepted, no change

Activate(s) ==
  IF s.phase = "stub" THEN Err(s)
  ELSE IF s.nh # 0 THEN Err(s)
  ELSE IF s.nextH = NoC THEN Err(s)
  ELSE OkPt([s EXCEPT !.nh = 1, !.curH = s.nextH, !.nextH = NoC], 1)

\* RevokeChecksClosed: FALSE = the code at the pinned commit (no closed check in
\* revoke_previous_holder_commitment); TRUE = the repaired behaviour
Revoke(s, m, RevokeChecksClosed) ==
  IF s.phase = "stub" THEN Err(s)
  ELSE IF m # s.nh THEN
         \* release_commitment_secret(m): only already released values
         IF m > s.nh THEN Err(s) ELSE OkPtSec(s, m + 1, m - 1)
  ELSE IF s.nextH = NoC THEN Err(s)
  ELSE IF RevokeChecksClosed /\ s.closed THEN Err(s)
  ELSE OkPtSec([s EXCEPT !.nh = m + 1, !.curH = s.nextH, !.nextH = NoC], m + 1, m - 1)

SignHolder(s, n) ==
  IF s.phase = "stub" THEN Err(s)
  ELSE IF n + 1 # s.nh THEN Err(s)
  ELSE Ok([s EXCEPT !.closed = TRUE])

SignHolderRecovery(s) ==
  IF s.phase = "stub" THEN Err(s)
  ELSE IF s.curH = NoC THEN Err(s)
  ELSE Ok([s EXCEPT !.closed = TRUE])

SignHolderRedundant(s, n, c) ==
  IF s.phase = "stub" THEN Err(s)
  ELSE IF HolderCommitRefused(s, n, c) THEN Err(s)
  ELSE Ok([s EXCEPT !.closed = TRUE])

\* mutual close for the balances of content c (the holder, as funder, pays the closing fee):
\* accepted iff both latest commitments exist, carry no HTLC and agree with the proposed
\* balances within epsilon - the contents of this model differ by more than epsilon, so that
\* is the relation CloseNear (the full predicate is the subject of MutualClose.tla, C07).
\* balances of "A" and "P" differ by 100 sat (within epsilon), "B" is 100 000 sat away from both;
\* "H" has an HTLC pending
CloseNear(c, cur) == \/ c \in {"A", "P"} /\ cur = "A"
                     \/ c = "B" /\ cur = "B"
SignMutualClose(s, c) ==
  IF s.phase = "stub" THEN Err(s)
  ELSE IF s.curH = NoC \/ s.curC = NoC THEN Err(s)
  ELSE IF ~(CloseNear(c, s.curH) /\ CloseNear(c, s.curC)) THEN Err(s)
  ELSE Ok([s EXCEPT !.closed = TRUE])

---------------------------------------------------------------------------
\* counterparty side

SignCp(s, n, t, c) ==
  LET pt == [t |-> t, n |-> n] IN
  IF s.phase = "stub" THEN Err(s)
  ELSE IF ~CpValidAt(c, n) THEN Err(s)                        \* policy bounds
  ELSE IF n > s.nr + 1 THEN Err(s)                            \* policy-commitment-previous-revoked
  ELSE IF n + 1 = s.nc /\ (s.curPt = NoPt \/ pt # s.curPt \/ c # s.curC)
       THEN Err(s)                                            \* policy-commitment-retry-same
  \* set_next_counterparty_commit_num(n+1)
  ELSE IF n + 1 < s.nr + (IF n = 0 THEN 1 ELSE 2) THEN Err(s)
  ELSE IF n + 1 # s.nc /\ n # s.nc THEN Err(s)
  ELSE IF n = s.nc
       THEN Ok([s EXCEPT !.prevPt = s.curPt, !.prevC = s.curC,
                         !.curPt = pt, !.curC = c, !.nc = n + 1])
       ELSE Ok(s)                                             \* identical retry

\* stored point for commitment number n, if any
CpPointFor(s, n) == IF n + 1 = s.nc THEN s.curPt
                    ELSE IF n + 2 = s.nc THEN s.prevPt ELSE NoPt

\* AtomicRevocation: FALSE = the code at the pinned commit (the secret is put into
\* the store before the window check of set_next_counterparty_revoke_num can refuse)
ValidateRevocation(s, n, secret, AtomicRevocation) ==
  IF s.phase = "stub" THEN Err(s)
  ELSE IF n # s.nr /\ n + 1 # s.nr THEN Err(s)
  ELSE IF CpPointFor(s, n) = NoPt \/ PointOf(secret) # CpPointFor(s, n) THEN Err(s)
  ELSE LET p == SecProvide(s.sec, n, secret)
           s1 == [s EXCEPT !.sec = p.slots]
           windowBad == \/ n + 3 < s.nc
                        \/ n + 2 > s.nc
                        \/ (n + 1 # s.nr /\ n # s.nr)
       IN
       IF ~p.ok THEN Err(s)
       ELSE IF windowBad THEN (IF AtomicRevocation THEN Err(s) ELSE Err(s1))
       ELSE Ok([s1 EXCEPT !.nr = n + 1,
                          !.prevC = IF n + 2 >= s.nc THEN NoC ELSE s.prevC])

---------------------------------------------------------------------------
\* protocol-handler composites (vls-protocol-signer handler.rs), protocol version v:
\*   v < 5 : ValidateCommitmentTx = validate, then revoke the previous commitment at once
\*   v >= 5: ValidateCommitmentTx = validate, then (n = 0) activate / (n > 0) fetch point n+1;
\*           RevokeCommitmentTx(n) = revoke_previous_holder_commitment(n+1)
\*   v < 6 : GetPerCommitmentPoint(n) also returns secret n-2 (n >= 2)
\* The two parts are not one atomic step in the code: when the second part refuses, what the
\* first part changed stays (modelled as is).
\* Every composite has two wire forms with the same semantics: the semantic ("2"-suffixed, LDK)
\* message and the RAW-transaction message of stock CLN ("...Raw": the canonical transaction of the
\* named content plus a PSBT carrying witness scripts / wallet paths):
\*   HValidate / HValidateRaw               ValidateCommitmentTx2 / ValidateCommitmentTx
\*   HSignCp / HSignCpRaw                   SignRemoteCommitmentTx2 / SignRemoteCommitmentTx
\*   HSignMutualClose / HSignMutualCloseRaw SignMutualCloseTx2 / SignMutualCloseTx
\*   HSignHolder / HSignCommitment          SignLocalCommitmentTx2 / SignCommitmentTx (root handler,
\*                                          lock_time # 0: everything but the number is ignored)
\*   HSignCommitmentClose                   SignCommitmentTx with lock_time = 0: the handler's
\*                                          workaround treats it as SignMutualCloseTx
HValidate(s, v, n, c, sig, RCC) ==
  LET o1 == ValidateHolder(s, n, c, sig) IN
  IF ~o1.resp.ok THEN Err(s)
  ELSE IF v < 5 THEN
         LET o2 == Revoke(o1.s, n, RCC) IN
         IF o2.resp.ok THEN o2 ELSE Err(o1.s)
  ELSE IF n = 0 THEN
         LET o2 == Activate(o1.s) IN
         IF o2.resp.ok THEN o2 ELSE Err(o1.s)
  ELSE LET o2 == GetPoint(o1.s, n + 1) IN
       IF o2.resp.ok THEN o2 ELSE Err(o1.s)

HRevoke(s, v, n, RCC) == IF v < 5 THEN Err(s) ELSE Revoke(s, n + 1, RCC)

HGetPoint(s, v, n) ==
  LET o1 == GetPoint(s, n) IN
  IF ~o1.resp.ok THEN Err(s)
  ELSE IF v < 6 /\ n >= 2 THEN
         (IF GetSecret(s, n - 2).resp.ok THEN OkPtSec(s, n, n - 2) ELSE Err(s))
  ELSE o1

---------------------------------------------------------------------------
\* the transition function; `k` carries the two behaviour switches
Step(s, r, k) ==
  CASE r.op = "GetPoint"            -> GetPoint(s, r.n)
    [] r.op = "GetSecret"           -> GetSecret(s, r.n)
    [] r.op = "GetSecretOrNone"     -> GetSecretOrNone(s, r.n)
    [] r.op = "CheckFutureSecret"   -> CheckFutureSecret(s, r.n, r.good)
    [] r.op = "ValidateHolder"      -> ValidateHolder(s, r.n, r.c, r.sig)
    \* the raw-transaction (phase 1) entry point, given the canonical transaction of (n, c)
    [] r.op = "ValidateHolderRaw"   -> ValidateHolder(s, r.n, r.c, r.sig)
    [] r.op = "Activate"            -> Activate(s)
    [] r.op = "Revoke"              -> Revoke(s, r.n, k.revokeChecksClosed)
    [] r.op = "SignHolder"          -> SignHolder(s, r.n)
    [] r.op = "SignHolderRecovery"  -> SignHolderRecovery(s)
    [] r.op = "SignHolderRedundant" -> SignHolderRedundant(s, r.n, r.c)
    [] r.op = "SignMutualClose"     -> SignMutualClose(s, r.c)
    \* the raw-transaction (phase 1) entry point, given the canonical closing transaction of content c
    [] r.op = "SignMutualCloseRaw"  -> SignMutualClose(s, r.c)
    [] r.op = "SignCp"              -> SignCp(s, r.n, r.t, r.c)
    [] r.op = "ValidateRevocation"  -> ValidateRevocation(s, r.n, [t |-> r.t, n |-> r.m],
                                                          k.atomicRevocation)
    [] r.op = "Restart"             -> Ok(s)
    [] r.op = "HValidate"           -> HValidate(s, r.v, r.n, r.c, r.sig, k.revokeChecksClosed)
    [] r.op = "HValidateRaw"        -> HValidate(s, r.v, r.n, r.c, r.sig, k.revokeChecksClosed)
    [] r.op = "HRevoke"             -> HRevoke(s, r.v, r.n, k.revokeChecksClosed)
    [] r.op = "HGetPoint"           -> HGetPoint(s, r.v, r.n)
    [] r.op = "HSignHolder"         -> SignHolder(s, r.n)
    [] r.op = "HSignCommitment"     -> SignHolder(s, r.n)
    [] r.op = "HSignCp"             -> SignCp(s, r.n, r.t, r.c)
    [] r.op = "HSignCpRaw"          -> SignCp(s, r.n, r.t, r.c)
    [] r.op = "HSignMutualClose"    -> SignMutualClose(s, r.c)
    [] r.op = "HSignMutualCloseRaw" -> SignMutualClose(s, r.c)
    [] r.op = "HSignCommitmentClose" -> SignMutualClose(s, r.c)
    [] r.op = "HValidateRevocation" -> ValidateRevocation(s, r.n, [t |-> r.t, n |-> r.m],
                                                          k.atomicRevocation)
    [] OTHER                        -> Err(s)

(***************************************************************************)
(* Ghost (history) variables: functions of the observed requests/replies.  *)
(***************************************************************************)
InitGhost == [ acceptedValid |-> {},    \* holder numbers accepted with verifying signatures
               disclosed     |-> {},    \* holder numbers whose secret was returned
               signedH       |-> {},    \* holder numbers whose funding signature was released
               discAtSign    |-> {},    \* `disclosed` when the first holder signature was released
               cpSigned      |-> {},    \* set of <<n, point, content>> signed for the counterparty
               cpRevoked     |-> {},    \* counterparty numbers with an accepted revocation
               cpSecrets     |-> {},    \* set of <<n, secret>> accepted as revocations
               stubLeak      |-> FALSE, \* a stub returned a secret
               badSignCp     |-> FALSE, \* a SignCp(n) succeeded with an unrevoked number below n-1
               nhSeen        |-> -1 ]   \* n of the last released holder signature (info)

\* ph = phase of the pre-state, nhPre = next_holder_commit_num of the pre-state.
\* mon selects which property's history is recorded ("C01", "C02", "C03" or "all"):
\* running one monitor at a time keeps the product with the state graph small.
Ghost(g, r, resp, ph, nhPre, mon) ==
  LET m1 == mon \in {"C01", "all"}
      m2 == mon \in {"C02", "all"}
      m3 == mon \in {"C03", "all"}
      disc(n) == IF n >= 0 THEN {n} ELSE {}
      g1 == IF (m1 \/ m2) /\ resp.ok /\ resp.sec >= 0
                 /\ r.op \in {"GetSecret", "GetSecretOrNone", "Revoke",
                              "HValidate", "HValidateRaw", "HRevoke", "HGetPoint"}
            THEN [g EXCEPT !.disclosed = @ \cup disc(resp.sec),
                           !.stubLeak = @ \/ ph = "stub"]
            ELSE g
      signed(n) == IF ~m2 THEN g1 ELSE
                   [g1 EXCEPT !.signedH = @ \cup {n},
                              !.discAtSign = IF g1.signedH = {} THEN g1.disclosed ELSE @,
                              !.nhSeen = n]
  IN
  \* a handler validate that is refused by its SECOND part has still accepted the commitment:
  \* for handler requests "presented with verifying signatures" is what is observable
  IF r.op \in {"HValidate", "HValidateRaw"} /\ r.sig = "good" /\ m1 /\ ~resp.ok
  THEN [g1 EXCEPT !.acceptedValid = @ \cup {r.n}]
  ELSE IF ~resp.ok THEN g1
  ELSE CASE r.op \in {"ValidateHolder", "ValidateHolderRaw", "HValidate", "HValidateRaw"} /\ r.sig = "good" /\ m1
              -> [g1 EXCEPT !.acceptedValid = @ \cup {r.n}]
         [] r.op \in {"SignHolder", "HSignHolder", "HSignCommitment"} -> signed(r.n)
         [] r.op = "SignHolderRedundant" -> signed(r.n)
         [] r.op = "SignHolderRecovery"  -> signed(nhPre - 1)
         [] r.op \in {"SignCp", "HSignCp", "HSignCpRaw"} /\ m3
              -> [g1 EXCEPT !.cpSigned = @ \cup {<<r.n, [t |-> r.t, n |-> r.n], r.c>>},
                            !.badSignCp = @ \/ \E j \in 0..(r.n - 2) : j \notin g1.cpRevoked]
         [] r.op \in {"ValidateRevocation", "HValidateRevocation"} /\ m3
              -> [g1 EXCEPT !.cpRevoked = @ \cup {r.n},
                            !.cpSecrets = @ \cup {<<r.n, [t |-> r.t, n |-> r.m]>>}]
         [] OTHER -> g1

(***************************************************************************)
(* The listed properties as invariants over the ghost variables.           *)
(***************************************************************************)
\* C01: secret n disclosed only after n+1 was accepted with verifying signatures;
\*      a channel that is not set up never discloses.
Inv_C01(g) == /\ \A n \in g.disclosed : (n + 1) \in g.acceptedValid
              /\ ~g.stubLeak

\* C02: no number both signed for broadcast and revoked; nothing newly disclosed after signing
Inv_C02a(g) == g.disclosed \cap g.signedH = {}
Inv_C02b(g) == g.signedH # {} => g.disclosed \subseteq g.discAtSign
Inv_C02(g)  == Inv_C02a(g) /\ Inv_C02b(g)

\* C03
CpSignedNums(g) == {e[1] : e \in g.cpSigned}
Inv_C03a(g) == ~g.badSignCp
Inv_C03b(g) == Cardinality(CpSignedNums(g) \ g.cpRevoked) <= 2
\* accepted revocation secret = secret of the point signed for that number
Inv_C03c(g) == \A e \in g.cpSecrets :
                  \E f \in g.cpSigned : f[1] = e[1] /\ f[2] = PointOf(e[2])
\* BOLT-3 consistency: whenever an accepted secret for number n can derive the secret of an
\* earlier accepted number m (m lies in n's subtree), the two belong to the same tree.
\* (A secret whose index has no trailing zero bits can derive nothing, so BOLT-3 cannot and
\* does not constrain it at the time it is accepted.)
Inv_C03t(g) == \A e, f \in g.cpSecrets :
                  (f[1] < e[1] /\ InSubtree(e[1], TrailingOnes(e[1]), f[1]))
                     => (e[2].t = f[2].t /\ e[2].n = e[1] /\ f[2].n = f[1])
\* one point and one content per signed number
Inv_C03d(g) == \A e, f \in g.cpSigned : e[1] = f[1] => e = f
Inv_C03(g) == Inv_C03a(g) /\ Inv_C03b(g) /\ Inv_C03c(g) /\ Inv_C03t(g) /\ Inv_C03d(g)

(***************************************************************************)
(* Request alphabet for bound N.                                           *)
(***************************************************************************)
Requests(N, HC, CC, TT) ==
       {[op |-> "GetPoint", n |-> n] : n \in 0..N + 2}
  \cup {[op |-> "GetSecret", n |-> n] : n \in 0..N}
  \cup {[op |-> "GetSecretOrNone", n |-> n] : n \in 0..N}
  \cup {[op |-> "CheckFutureSecret", n |-> n, good |-> b] : n \in {0, N}, b \in BOOLEAN}
  \cup {[op |-> "ValidateHolder", n |-> n, c |-> c, sig |-> sg] :
            n \in 0..N + 2, c \in HC, sg \in {"good", "badcommit", "badhtlc", "shorthtlc"}}
  \cup {[op |-> "ValidateHolder", n |-> n, c |-> c, sig |-> "replay"] : n \in 1..N + 2, c \in HC}
  \cup {[op |-> "ValidateHolderRaw", n |-> n, c |-> c, sig |-> sg] :
            n \in 0..N + 2, c \in HC, sg \in {"good", "badcommit"}}
  \cup {[op |-> "ValidateHolderRaw", n |-> n, c |-> c, sig |-> "replay"] : n \in 1..N + 2, c \in HC}
  \cup {[op |-> "Activate"]}
  \cup {[op |-> "Revoke", n |-> n] : n \in 0..N + 1}
  \cup {[op |-> "SignHolder", n |-> n] : n \in 0..N + 1}
  \cup {[op |-> "SignHolderRecovery"]}
  \cup {[op |-> "SignHolderRedundant", n |-> n, c |-> c] : n \in 0..N + 2, c \in HC}
  \cup {[op |-> "SignMutualClose", c |-> c] : c \in CC}
  \cup {[op |-> "SignMutualCloseRaw", c |-> c] : c \in CC}
  \cup {[op |-> "SignCp", n |-> n, t |-> t, c |-> c] : n \in 0..N + 1, t \in TT, c \in CC}
  \cup {[op |-> "ValidateRevocation", n |-> n, t |-> t, m |-> m] :
            n \in 0..N, t \in TT, m \in 0..N}
  \cup {[op |-> "Restart"]}

\* Deep-index alphabet for the counterparty side: the run starts after an honest prefix
\* (SignCp 0..B, ValidateRevocation 0..B-2, tree A, content A); the numbers straddle B so
\* that the secret store is exercised where the index has many trailing zero bits.
DeepCpRequests(B, N, CC, TT) ==
       {[op |-> "SignCp", n |-> n, t |-> t, c |-> c] : n \in (B + 1)..(B + N + 1), t \in TT, c \in CC}
  \cup {[op |-> "ValidateRevocation", n |-> n, t |-> t, m |-> m] :
            n \in (B - 1)..(B + N), t \in TT, m \in (B - 1)..(B + N)}
  \cup {[op |-> "Restart"]}

\* the history of that honest prefix, as the ghost variables would have recorded it
PrefixGhost(B) ==
  IF B = 0 THEN InitGhost ELSE
  [InitGhost EXCEPT !.cpSigned  = {<<n, [t |-> "A", n |-> n], "A">> : n \in 0..B},
                    !.cpRevoked = 0..(B - 2),
                    !.cpSecrets = {<<n, [t |-> "A", n |-> n]>> : n \in 0..(B - 2)}]

\* protocol-handler level alphabet (protocol versions 4, 5, 6).
\* Mutual close: the handler alphabet signs counterparty commitments of content "A" only, so a
\* close for "A" or "P" (within epsilon of "A") can be accepted; "B" is the close that agrees with
\* a holder commitment "B" but never with the counterparty's.
HandlerCloseContents == {"A", "B", "P"}
HandlerRequests(N, HC, TT) ==
       {[op |-> op, v |-> v, n |-> n, c |-> c, sig |-> sg] :
            op \in {"HValidate", "HValidateRaw"},
            v \in {4, 5, 6}, n \in 0..N + 1, c \in HC, sg \in {"good", "badcommit"}}
  \cup {[op |-> "HValidate", v |-> v, n |-> n, c |-> c, sig |-> "replay"] :
            v \in {4, 5, 6}, n \in 1..N + 1, c \in HC}
  \* a commitment WITH an HTLC through the raw message (HTLC list, HTLC witness scripts in the PSBT,
  \* HTLC signatures), at the last explored numbers only: the content enlarges the state space
  \cup {[op |-> "HValidateRaw", v |-> v, n |-> n, c |-> "H", sig |-> sg] :
            v \in {4, 5, 6}, n \in N..N + 1, sg \in {"good", "badhtlc"}}
  \cup {[op |-> "HRevoke", v |-> v, n |-> n] : v \in {4, 5, 6}, n \in 0..N}
  \cup {[op |-> "HGetPoint", v |-> v, n |-> n] : v \in {4, 5, 6}, n \in 0..N + 2}
  \cup {[op |-> op, n |-> n] : op \in {"HSignHolder", "HSignCommitment"}, n \in 0..N}
  \cup {[op |-> op, n |-> n, t |-> t, c |-> c] :
            op \in {"HSignCp", "HSignCpRaw"}, n \in 0..1, t \in TT, c \in {"A"}}
  \cup {[op |-> op, c |-> c] :
            op \in {"HSignMutualClose", "HSignMutualCloseRaw", "HSignCommitmentClose"},
            c \in HandlerCloseContents}
  \cup {[op |-> "HValidateRevocation", n |-> n, t |-> t, m |-> n] : n \in 0..1, t \in TT}
  \cup {[op |-> "Restart"]}
=============================================================================
