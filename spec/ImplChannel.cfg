SPECIFICATION Spec
VIEW View
INVARIANTS C01 C02 C03
CHECK_DEADLOCK FALSE
