------------------------------- MODULE Onchain -------------------------------
(***************************************************************************)
(* C08 - on-chain (wallet / funding) transaction validation.               *)
(*                                                                         *)
(* The component is a (mostly) stateless validator, so this module has     *)
(*  1. exact natural-number arithmetic on u64-and-beyond values (8 little- *)
(*     endian base-1000 digits; TLC integers are 32 bit) - the arithmetic  *)
(*     oracle of the whole check is this text;                             *)
(*  2. Step: an implementation-shaped operator transcribing, in the code's *)
(*     order of checks, Node::check_onchain_tx ->                          *)
(*     SimpleValidator::validate_onchain_tx -> validate_beneficial_value   *)
(*     -> fee velocity insert (conformance: implementation verdict = Step  *)
(*     verdict; a difference is a spec divergence, not an alarm);          *)
(*  3. the REFERENCE PREDICATE Rules (= MustRefuse when non-empty),        *)
(*     transcribed from the property text and docs/policy-controls.md, NOT *)
(*     from the code, one separately named rule per conjunct; Judge turns  *)
(*     an observed verdict into the set of violated rules; the weight the  *)
(*     maximum fee rate is taken over is the BIP-141 weight of the FINAL   *)
(*     signed transaction, per input kind (FinalWeight / RefWeight);       *)
(*  4. Facts: what an abstract (TLC generated) case is expected to look    *)
(*     like once the harness has concretised it - the same record shape    *)
(*     the harness logs from the REAL objects, so Step / Rules are          *)
(*     evaluated on logged concrete values by ImplOnchain and on model      *)
(*     values by MC_Onchain / OnchainCases.                                *)
(*                                                                         *)
(* Shape of a concrete case c (all amounts are Big = 8 digits):            *)
(*   c.pol   [maxfr, unl, limit (msat), ivl, filt]                         *)
(*   c.ver, c.base (tx.base_size()), c.txw (tx.weight() of the transaction *)
(*           as presented to the check: no witnesses yet)                  *)
(*   c.ins   <<[v, sw (segwit flag passed), st (prev script type), uck     *)
(*             (-1, or byte count sum(1+len) of a unilateral-close stack), *)
(*             ss (bytes of scriptSig the input carries in the PRESENTED   *)
(*             transaction: 0, or 23 for a P2SH-wrapped P2WPKH input whose *)
(*             witness program was already filled in by the caller)]>>     *)
(*   c.fw    -1, or the measured weight of the FINAL transaction after the *)
(*           node signed it and the harness finalised it (ImplOnchain uses *)
(*           it only to validate the BIP-141 formula of section 3)         *)
(*   c.outs  <<[v, path ("none","own","other","badlen"), own ("wallet",    *)
(*             "xpub","listed","foreign","funding"), st, inlist (script is *)
(*             literally in the node's allowlist), xin (the xpub it derives  *)
(*             from - a foreign one, or the node's OWN account xpub for a    *)
(*             wallet script - is in the allowlist), ch (index into c.chans of the Ready channel     *)
(*             whose funding outpoint is this output, 0 none), fs (script  *)
(*             is that channel's true 2-of-2 funding script)]>>            *)
(*   c.chans <<[val, outbound, push (msat), nh, hasnext]>>                 *)
(***************************************************************************)
EXTENDS Integers, Sequences, FiniteSets, TLC

---------------------------------------------------------------------------
\* 1. exact naturals
ND == 8
D  == 1..ND
T8(f) == <<f[1], f[2], f[3], f[4], f[5], f[6], f[7], f[8]>>
Big0 == <<0, 0, 0, 0, 0, 0, 0, 0>>
P10  == <<1, 1000, 1000000, 1000000000>>
\* 0 <= n < 2^31
B(n) == T8([i \in D |-> IF i <= 4 THEN (n \div P10[i]) % 1000 ELSE 0])

BAdd(a, b) ==
  LET c[i \in 0..ND] == IF i = 0 THEN 0 ELSE (a[i] + b[i] + c[i - 1]) \div 1000
  IN T8([i \in D |-> (a[i] + b[i] + c[i - 1]) % 1000])
BLt(a, b) == \E i \in D : a[i] < b[i] /\ \A j \in (i + 1)..ND : a[j] = b[j]
BLe(a, b) == ~BLt(b, a)
BEq(a, b) == \A i \in D : a[i] = b[i]
\* a >= b
BSub(a, b) ==
  LET w[i \in 0..ND] == IF i = 0 THEN 0 ELSE IF a[i] - b[i] - w[i - 1] < 0 THEN 1 ELSE 0
  IN T8([i \in D |-> (a[i] - b[i] - w[i - 1] + 1000) % 1000])
\* 0 <= k <= 2 000 000
BMul(a, k) ==
  LET c[i \in 0..ND] == IF i = 0 THEN 0 ELSE (a[i] * k + c[i - 1]) \div 1000
  IN T8([i \in D |-> (a[i] * k + c[i - 1]) % 1000])
\* 1 <= d <= 2 000 000
BDivMod(a, d) ==
  LET r[i \in 1..(ND + 1)] == IF i = ND + 1 THEN 0 ELSE (r[i + 1] * 1000 + a[i]) % d
  IN [q |-> T8([i \in D |-> (r[i + 1] * 1000 + a[i]) \div d]), r |-> r[1]]
BDiv(a, d) == BDivMod(a, d).q
BCeilDiv(a, d) == LET x == BDivMod(a, d) IN IF x.r = 0 THEN x.q ELSE BAdd(x.q, B(1))
BShl3(a) == <<0, a[1], a[2], a[3], a[4], a[5], a[6], a[7]>>          \* a * 1000
BMin(a, b) == IF BLt(b, a) THEN b ELSE a

U64MAX == <<615, 551, 709, 73, 744, 446, 18, 0>>                     \* 2^64 - 1
U32MAX == <<295, 967, 294, 4, 0, 0, 0, 0>>                           \* 2^32 - 1
TwoP32 == <<296, 967, 294, 4, 0, 0, 0, 0>>
TwoP64 == <<616, 551, 709, 73, 744, 446, 18, 0>>
Div16(a)  == BDiv(a, 65536)
Mul16(a)  == BMul(a, 65536)
Mod2p32(a) == BSub(a, Mul16(Mul16(Div16(Div16(a)))))
Mod2p64(a) == BSub(a, Mul16(Mul16(Mul16(Mul16(Div16(Div16(Div16(Div16(a)))))))))

IsSmall(a) == a[4] <= 1 /\ \A i \in 5..ND : a[i] = 0
ToInt(a)   == a[1] + 1000 * a[2] + 1000000 * a[3] + 1000000000 * a[4]

SumBig(s, F(_)) ==
  LET f[k \in 0..Len(s)] == IF k = 0 THEN Big0 ELSE BAdd(f[k - 1], F(s[k])) IN f[Len(s)]
SumInt(s, F(_)) ==
  LET f[k \in 0..Len(s)] == IF k = 0 THEN 0 ELSE f[k - 1] + F(s[k]) IN f[Len(s)]
RangeOf(s) == {s[k] : k \in DOMAIN s}

---------------------------------------------------------------------------
\* 2. the implementation-shaped specification (code order)
MAX_ONCHAIN_TX_SIZE == 32768

V(t, tag, ix) == [t |-> t, tag |-> tag, ix |-> ix]
VOk == V("ok", "", <<>>)
VErr(tag) == V("err", tag, <<>>)

\* Behaviour switches (what the model says the code does; spec/onchain_switches.json holds HEAD's values):
\*   sw.wrap  TRUE : fee * 1000 wraps in u64, the rate is cast to u32 with `as`
\*            FALSE: exact arithmetic / saturating conversion
\*   sw.flat  TRUE : check_onchain_tx charges EVERY input it can sign the witness of a P2WPKH spend
\*                   (header + count + len + 72-byte signature + len + 33), whatever its kind - also a
\*                   taproot key-path input, whose witness is one 64-byte signature
\*            FALSE: the intended algorithm: a taproot input is charged header + count + len + 64
Sw(wrap, flat) == [wrap |-> wrap, flat |-> flat]
SpendValid(st) == st \in {"p2wpkh", "p2sh", "p2tr", "p2pkh", "p2wsh"}
\* witness-header + element-count + length + sig + len + redeemscript (check_onchain_tx); nothing is
\* added for a scriptSig: the code takes tx.weight() of the transaction AS PRESENTED (c.txw)
InWit(i, flat) == IF ~SpendValid(i.st) THEN 0
                  ELSE IF ~flat /\ i.st = "p2tr" /\ i.uck < 0 THEN 2 + 1 + 1 + 64
                  ELSE 2 + 1 + 1 + 72 + 1 + (IF i.uck >= 0 THEN i.uck ELSE 33)
CodeWeight(c, flat) == c.txw + SumInt(c.ins, LAMBDA i : InWit(i, flat))

\* one output, as validate_onchain_tx classifies it: [k |-> "ben" | "unk" | "err", v, tag]
OutCode(o, c) ==
  IF o.path # "none"
  THEN IF o.path = "badlen"                     \* Wallet::can_spend fails (path length)
       THEN [k |-> "err", v |-> Big0, tag |-> "policy-onchain-output-scriptpubkey"]
       ELSE IF o.own = "wallet" /\ o.path = "own" /\ o.st \in {"p2wpkh", "p2sh", "p2tr"}
       THEN [k |-> "ben", v |-> o.v, tag |-> ""]
       ELSE IF o.inlist \/ (o.own \in {"xpub", "wallet"} /\ o.xin /\ o.path = "own" /\ o.st \in {"p2wpkh", "p2pkh", "p2tr"})
       THEN [k |-> "ben", v |-> o.v, tag |-> ""]
       ELSE [k |-> "err", v |-> Big0, tag |-> "policy-onchain-no-unknown-outputs"]
  ELSE IF o.inlist
  THEN [k |-> "ben", v |-> o.v, tag |-> ""]
  ELSE IF o.ch # 0
  THEN LET h == c.chans[o.ch] IN
       IF ~BEq(o.v, h.val) THEN [k |-> "err", v |-> Big0, tag |-> "policy-onchain-output-match-commitment"]
       ELSE IF ~o.fs THEN [k |-> "err", v |-> Big0, tag |-> "policy-onchain-output-scriptpubkey"]
       ELSE IF h.nh # 1 THEN [k |-> "err", v |-> Big0, tag |-> "policy-onchain-initial-commitment-countersigned"]
       ELSE IF ~h.outbound THEN [k |-> "err", v |-> Big0, tag |-> "policy-onchain-no-fund-inbound"]
       ELSE IF BLe(B(1000), h.push) THEN [k |-> "err", v |-> Big0, tag |-> "policy-onchain-no-channel-push"]
       ELSE [k |-> "ben", v |-> h.val, tag |-> ""]
  ELSE [k |-> "unk", v |-> Big0, tag |-> ""]

FoldOuts(c) ==
  LET f[k \in 0..Len(c.outs)] ==
        IF k = 0 THEN [err |-> "", ben |-> Big0, unk |-> <<>>]
        ELSE LET p == f[k - 1]
                 r == OutCode(c.outs[k], c) IN
             IF p.err # "" THEN p
             ELSE IF r.k = "err" THEN [p EXCEPT !.err = r.tag]
             ELSE IF r.k = "unk" THEN [p EXCEPT !.unk = Append(@, k - 1)]
             ELSE IF BLt(U64MAX, BAdd(p.ben, r.v)) THEN [p EXCEPT !.err = "policy-onchain-fee-range"]
             ELSE [p EXCEPT !.ben = BAdd(@, r.v)]
  IN f[Len(c.outs)]

\* estimate_feerate_per_kw(fee, weight) = (((fee * 1000) + 999) / weight) as u32
\* wrap = TRUE: u64 wrapping multiplication/addition (production profile) and truncating cast;
\* wrap = FALSE: exact arithmetic, saturating conversion   (wrap = sw.wrap of the switches)
CodeRate(nb, W, wrap) ==
  IF wrap THEN Mod2p32(BDiv(Mod2p64(BAdd(Mod2p64(BShl3(nb)), B(999))), W))
  ELSE BMin(BDiv(BAdd(BShl3(nb), B(999)), W), U32MAX)
CodeVelAmount(nb, wrap) == IF wrap THEN Mod2p64(BShl3(nb)) ELSE BMin(BShl3(nb), U64MAX)
VelLimit(pol) == IF pol.unl THEN U64MAX ELSE pol.limit

\* vel = sum of the fee velocity buckets (msat) before the request
Step(c, vel, sw) ==
  LET wrap == sw.wrap
      no(v) == [v |-> v, nb |-> Big0, vel |-> vel] IN
  IF c.ver # 2 THEN no(VErr("policy-onchain-format-standard"))
  ELSE IF c.base > MAX_ONCHAIN_TX_SIZE THEN no(VErr("policy-onchain-max-size"))
  ELSE IF (\E k \in DOMAIN c.outs : c.outs[k].ch # 0) /\ (\E i \in DOMAIN c.ins : ~c.ins[i].sw)
  THEN no(VErr("policy-onchain-funding-non-malleable"))
  ELSE LET f == FoldOuts(c) IN
  IF f.err # "" THEN no(VErr(f.err))
  ELSE IF Len(f.unk) > 0 THEN no(V("unknown", "policy-onchain-no-unknown-outputs", f.unk))
  ELSE LET si == SumBig(c.ins, LAMBDA i : i.v) IN
  IF BLt(U64MAX, si) THEN no(VErr("policy-onchain-fee-range"))        \* funding sum inputs overflow
  ELSE IF BLt(si, f.ben) THEN no(VErr("policy-onchain-format-standard"))  \* non-beneficial value underflow
  ELSE LET nb  == BSub(si, f.ben)
           amt == CodeVelAmount(nb, wrap) IN
  IF BLt(B(c.pol.maxfr), CodeRate(nb, CodeWeight(c, sw.flat), wrap)) THEN no(VErr("policy-onchain-fee-range"))
  ELSE IF BLt(VelLimit(c.pol), BMin(BAdd(vel, amt), U64MAX)) THEN no(VErr("policy-onchain-fee-range"))
  ELSE [v |-> VOk, nb |-> nb, vel |-> BMin(BAdd(vel, amt), U64MAX)]

\* Approve::handle_proposed_onchain on top of the check: [res, asked, ix]
StepApprove(c, vel, sw, approve) ==
  LET s == Step(c, vel, sw) IN
  IF s.v.t = "ok" THEN [res |-> "true", asked |-> FALSE, ix |-> <<>>]
  ELSE IF s.v.t = "unknown" THEN [res |-> IF approve THEN "true" ELSE "false", asked |-> TRUE, ix |-> s.v.ix]
  ELSE [res |-> "err", asked |-> FALSE, ix |-> <<>>]

---------------------------------------------------------------------------
\* 3. the reference predicate (property text; docs/policy-controls.md "Onchain Transactions")
\* Weight.  Every reasonable reading of "fee rate" divides by the weight of the FINAL, fully signed
\* transaction.  It is computed here from the BIP-141 formula
\*      weight = 4 * (size without witness data) + (marker + flag + witness stacks)
\* and the per-kind shape of a finalised input (BIP-141/143/341, BIP-16 for the wrapped program) -
\* NOT from what the code under test adds up:
\*   kind (c.ins[i].st)        final scriptSig                    final witness stack
\*   p2wpkh                    as presented (empty)               <sig+hashtype> <33-byte key>
\*   p2sh (wrapped p2wpkh)     1 push of the 22-byte program      <sig+hashtype> <33-byte key>
\*   p2pkh                     push <sig+hashtype>, push <key>    empty
\*   p2tr (key path)           as presented (empty)               <64-byte sig [+hashtype]>
\*   p2wsh unilateral close    as presented (empty)               <sig+hashtype> + the given stack
\*   anything else             not the node's to sign: as presented (allowance below)
\* The transaction is judged AS PRESENTED: a scriptSig the caller already filled in (c.ins[i].ss bytes)
\* is part of c.txw and is not charged again; one that is still to come is charged at 4 WU per byte.
VarInt(n) == IF n < 253 THEN 1 ELSE 3
PK_LEN == 33
FinalScriptSig(i, sig) ==
  CASE i.st = "p2sh"  -> 1 + 22
    [] i.st = "p2pkh" -> (1 + sig) + (1 + PK_LEN)
    [] OTHER          -> i.ss
\* bytes by which the base size grows when the presented scriptSig becomes the final one
SsGrowth(i, sig) ==
  LET f == FinalScriptSig(i, sig) IN
  IF f > i.ss THEN (VarInt(f) + f) - (VarInt(i.ss) + i.ss) ELSE 0
HasWitness(i) == i.uck >= 0 \/ i.st \in {"p2wpkh", "p2sh", "p2tr", "p2wsh"}
\* one input's witness field: element count + (length + element)*
FinalWitness(i, sig, sch) ==
  IF i.uck >= 0 THEN 1 + (1 + sig) + i.uck
  ELSE IF i.st \in {"p2wpkh", "p2sh", "p2wsh"} THEN 1 + (1 + sig) + (1 + PK_LEN)
  ELSE IF i.st = "p2tr" THEN 1 + (1 + sch)
  ELSE 1                                            \* empty stack
\* weight of the finalised transaction when every ECDSA signature (with its hash-type byte) takes `sig`
\* bytes and every Schnorr signature `sch`
FinalWeight(c, sig, sch) ==
  LET segwit == \E k \in DOMAIN c.ins : HasWitness(c.ins[k]) IN
  c.txw + 4 * SumInt(c.ins, LAMBDA i : SsGrowth(i, sig))
        + (IF segwit THEN 2 + SumInt(c.ins, LAMBDA i : FinalWitness(i, sig, sch)) ELSE 0)
\* sizes: a DER signature is at most 72 bytes, 73 with the hash type (low-S signers: 72); a Schnorr
\* signature is 64 bytes, 65 with an explicit hash type
SIG_MAX == 73
SIG_MIN == 68                                       \* shorter ones have probability < 2^-24
SCH_MAX == 65
SCH_MIN == 64
\* The reference takes the LARGEST final weight (the most lenient bound: never an alarm because a
\* signature came out short), plus
\*   - WSLACK weight units per input: the tolerance the reference has granted since its first version
\*     ("73-byte signature, one witness header per input"; 2 WU are < 0.5 % of an input);
\*   - for an input the node does not sign (unknown script) the witness of a P2WPKH spend, which
\*     somebody else may still add.
\* The slack is one-sided: a validator may use any SMALLER weight (a lower bound refuses more - that
\* is what check_onchain_tx documents for its estimate); a LARGER one admits fee rates above the
\* maximum and is a violation of rule "fee".
WSLACK == 2
ForeignAllowance(i) == IF SpendValid(i.st) \/ i.uck >= 0 THEN 0 ELSE (1 + SIG_MAX) + (1 + PK_LEN)
RefWeight(c) == FinalWeight(c, SIG_MAX, SCH_MAX)
                  + (IF \E k \in DOMAIN c.ins : HasWitness(c.ins[k]) THEN 0 ELSE 2)   \* marker + flag, granted anyway
                  + SumInt(c.ins, LAMBDA i : WSLACK + ForeignAllowance(i))
\* binding of the formula to reality: the measured weight of the really signed transaction (c.fw) lies
\* between the smallest and the largest final weight (only inputs the node signs; see ImplOnchain)
FinalWeightOK(c) == c.fw < 0 \/ (FinalWeight(c, SIG_MIN, SCH_MIN) <= c.fw /\ c.fw <= FinalWeight(c, SIG_MAX, SCH_MAX))
\* smallest non-beneficial value whose rate floor(nb*1000/weight) exceeds the maximum
FeeFloor(c) == BCeilDiv(BMul(B(RefWeight(c)), c.pol.maxfr + 1), 1000)

Countersigned(h) == h.nh >= 1 \/ h.hasnext
\* the named rules an output breaks
OutDefects(o, c) ==
  IF o.inlist THEN {}            \* an allowlisted script is an approved destination, whatever else it is
  ELSE IF o.ch # 0
  THEN LET h == c.chans[o.ch] IN
       (IF ~BEq(o.v, h.val) THEN {"fund_value"} ELSE {})
         \cup (IF ~o.fs THEN {"fund_script"} ELSE {})
         \cup (IF ~h.outbound THEN {"fund_inbound"} ELSE {})
         \cup (IF BLe(B(1000), h.push) THEN {"fund_push"} ELSE {})      \* sub-satoshi push tolerated
         \cup (IF ~Countersigned(h) THEN {"fund_uncountersigned"} ELSE {})
  ELSE IF o.own = "wallet" \/ o.inlist \/ (o.own = "xpub" /\ o.xin) THEN {}
  ELSE {"unknown_dest"}
NonBen(c) == {k \in DOMAIN c.outs : OutDefects(c.outs[k], c) # {}}
RefIn(c)  == SumBig(c.ins, LAMBDA i : i.v)
RefBen(c) == LET nb == NonBen(c)
                 f[k \in 0..Len(c.outs)] ==
                   IF k = 0 THEN Big0 ELSE IF k \in nb THEN f[k - 1] ELSE BAdd(f[k - 1], c.outs[k].v)
             IN f[Len(c.outs)]
\* value that leaves the node (0 when the outputs exceed the inputs: nothing of ours is lost)
RefLoss(c) == LET si == RefIn(c) sb == RefBen(c) IN IF BLt(si, sb) THEN Big0 ELSE BSub(si, sb)
Funds(c) == \E k \in DOMAIN c.outs : c.outs[k].ch # 0

\* acc: exact msat total of the losses accepted so far in the velocity window
Rules(c, acc) ==
  UNION {OutDefects(c.outs[k], c) : k \in DOMAIN c.outs}
    \cup (IF BLe(FeeFloor(c), RefLoss(c)) THEN {"fee"} ELSE {})
    \cup (IF Funds(c) /\ (\E i \in DOMAIN c.ins : ~c.ins[i].sw) THEN {"fund_nonsegwit"} ELSE {})
    \cup (IF ~c.pol.unl /\ BLt(c.pol.limit, BAdd(acc, BShl3(RefLoss(c)))) THEN {"velocity"} ELSE {})
MustRefuse(c, acc) == Rules(c, acc) # {}
\* coverage only: the rules that fire on their own account - "fee"/"velocity" count only when the
\* plain fee (inputs minus ALL outputs) is excessive, not when they merely follow from an output
\* that is not beneficial
PureLoss(c) == LET si == RefIn(c) so == SumBig(c.outs, LAMBDA o : o.v) IN IF BLt(si, so) THEN Big0 ELSE BSub(si, so)
PrimaryRules(c, acc) ==
  UNION {OutDefects(c.outs[k], c) : k \in DOMAIN c.outs}
    \cup (IF BLe(FeeFloor(c), PureLoss(c)) THEN {"fee"} ELSE {})
    \cup (IF Funds(c) /\ (\E i \in DOMAIN c.ins : ~c.ins[i].sw) THEN {"fund_nonsegwit"} ELSE {})
    \cup (IF ~c.pol.unl /\ BLt(c.pol.limit, BAdd(acc, BShl3(PureLoss(c)))) THEN {"velocity"} ELSE {})
AllRules == {"unknown_dest", "fund_value", "fund_script", "fund_inbound", "fund_push",
             "fund_uncountersigned", "fund_nonsegwit", "fee", "velocity"}

\* violated rules, given the verdict of Node::check_onchain_tx.
\* UnknownDestinations means by the API contract "get these outputs approved, then sign": it is an
\* acceptable verdict only if (a) every non-beneficial output is among the reported INDICES and
\* (b) the rules an approval of those outputs cannot discharge hold for the transaction as a whole -
\* whatever the order in which an implementation performs its checks.
Undischarged(c) ==
  IF Funds(c) /\ (\E i \in DOMAIN c.ins : ~c.ins[i].sw) THEN {"fund_nonsegwit"} ELSE {}
Judge(c, acc, v) ==
  IF v.t = "ok" THEN Rules(c, acc)
  ELSE IF v.t = "unknown"
  THEN (IF {k - 1 : k \in NonBen(c)} \subseteq RangeOf(v.ix) THEN {} ELSE {"unreported"}) \cup Undischarged(c)
  ELSE {}
\* ... and of Approve::handle_proposed_onchain (a = [res, asked, ix])
JudgeApprove(c, acc, a) ==
  IF a.res # "true" THEN {}
  ELSE IF a.asked THEN Judge(c, acc, V("unknown", "", a.ix))
  ELSE Judge(c, acc, VOk)
\* OBSERVATION, not a rule: with the reported outputs approved, is what then leaves the node beyond them
\* (inputs - beneficial - approved) above the fee-rate bound / the velocity limit?  The code at HEAD
\* returns UnknownDestinations before its fee and velocity checks, and the approver (who is shown the
\* transaction and the previous outputs) overrides those controls by design; counted in the evidence.
ApprovedLoss(c, ix) ==
  LET si == RefIn(c)
      ok == {k \in DOMAIN c.outs : k \notin NonBen(c) \/ (k - 1) \in RangeOf(ix)}
      f[k \in 0..Len(c.outs)] == IF k = 0 THEN Big0 ELSE IF k \in ok THEN BAdd(f[k - 1], c.outs[k].v) ELSE f[k - 1]
      so == f[Len(c.outs)]
  IN IF BLt(si, so) THEN Big0 ELSE BSub(si, so)
UnknownPathExcess(c, acc, ix) ==
  (IF BLe(FeeFloor(c), ApprovedLoss(c, ix)) THEN {"fee"} ELSE {})
    \cup (IF ~c.pol.unl /\ BLt(c.pol.limit, BAdd(acc, BShl3(ApprovedLoss(c, ix)))) THEN {"velocity"} ELSE {})
\* ghost: window total after an observed verdict (only an Ok check consumes velocity)
AccAfter(c, acc, v) == IF v.t = "ok" THEN BAdd(acc, BShl3(RefLoss(c))) ELSE acc

---------------------------------------------------------------------------
\* 4. abstract cases and their expected concretisation
\* output kinds: who owns the script, its type, which derivation path accompanies it
KindTab ==
  [ W  |-> [own |-> "wallet",  st |-> "p2wpkh", path |-> "own"],
    Ws |-> [own |-> "wallet",  st |-> "p2sh",   path |-> "own"],
    Wt |-> [own |-> "wallet",  st |-> "p2tr",   path |-> "own"],
    Wk |-> [own |-> "wallet",  st |-> "p2pkh",  path |-> "own"],
    Wx |-> [own |-> "wallet",  st |-> "p2wpkh", path |-> "other"],
    Wl |-> [own |-> "wallet",  st |-> "p2wpkh", path |-> "badlen"],
    Wn |-> [own |-> "wallet",  st |-> "p2wpkh", path |-> "none"],
    L  |-> [own |-> "listed",  st |-> "p2wpkh", path |-> "none"],
    Lp |-> [own |-> "listed",  st |-> "p2wpkh", path |-> "own"],
    X  |-> [own |-> "xpub",    st |-> "p2wpkh", path |-> "own"],
    Xk |-> [own |-> "xpub",    st |-> "p2pkh",  path |-> "own"],
    Xt |-> [own |-> "xpub",    st |-> "p2tr",   path |-> "own"],
    Xs |-> [own |-> "xpub",    st |-> "p2sh",   path |-> "own"],
    Xx |-> [own |-> "xpub",    st |-> "p2wpkh", path |-> "other"],
    Xn |-> [own |-> "xpub",    st |-> "p2wpkh", path |-> "none"],
    U  |-> [own |-> "foreign", st |-> "p2wpkh", path |-> "none"],
    Ut |-> [own |-> "foreign", st |-> "p2tr",   path |-> "none"],
    Up |-> [own |-> "foreign", st |-> "p2wpkh", path |-> "own"],
    F  |-> [own |-> "funding", st |-> "p2wsh",  path |-> "none"],
    Fb |-> [own |-> "funding", st |-> "p2wsh",  path |-> "none"],
    Fp |-> [own |-> "funding", st |-> "p2wsh",  path |-> "own"] ]
SimpleKinds == {"W", "Ws", "Wt", "Wk", "Wx", "Wl", "Wn", "L", "Lp", "X", "Xk", "Xt", "Xs", "Xx", "Xn",
                "U", "Ut", "Up"}
FundKinds   == {"F", "Fb", "Fp"}
ScriptLen(st) == CASE st = "p2wpkh" -> 22 [] st = "p2sh" -> 23 [] st = "p2pkh" -> 25
                   [] st = "p2tr" -> 34 [] st = "p2wsh" -> 34 [] OTHER -> 0
\* input kinds: previous output script type, segwit flag established by the PSBT layer.
\* "p2sh" / "p2shS": a P2SH-wrapped P2WPKH utxo presented with an empty scriptSig / with the scriptSig
\* already holding the push of the witness program (see InSs) - the two ways a caller can present it
UCK_STACK == 78                                   \* one 77-byte witness script: 1 + 77
InTab ==
  [ p2wpkh  |-> [st |-> "p2wpkh",  sw |-> TRUE,  uck |-> -1],
    p2tr    |-> [st |-> "p2tr",    sw |-> TRUE,  uck |-> -1],
    p2sh    |-> [st |-> "p2sh",    sw |-> FALSE, uck |-> -1],
    p2shS   |-> [st |-> "p2sh",    sw |-> FALSE, uck |-> -1],
    p2pkh   |-> [st |-> "p2pkh",   sw |-> FALSE, uck |-> -1],
    p2wpkhU |-> [st |-> "p2wpkh",  sw |-> FALSE, uck |-> -1],   \* no input transaction supplied
    uck     |-> [st |-> "p2wsh",   sw |-> TRUE,  uck |-> UCK_STACK],
    odd     |-> [st |-> "invalid", sw |-> FALSE, uck |-> -1] ]
CommitTab ==
  [ none      |-> [nh |-> 0, hasnext |-> FALSE],
    validated |-> [nh |-> 0, hasnext |-> TRUE],
    active    |-> [nh |-> 1, hasnext |-> FALSE],
    advanced  |-> [nh |-> 2, hasnext |-> FALSE] ]

\* scriptSig bytes of input k in the presented transaction: the first input carries `pad` bytes (size
\* cases); a "p2shS" input carries the push of its witness program
InSs(a, k) == IF a.ins[k].kind = "p2shS" THEN 1 + 22 ELSE IF k = 1 THEN a.pad ELSE 0
\* serialized size without witnesses
BaseSize(a) ==
  4 + VarInt(Len(a.ins))
    + SumInt([k \in 1..Len(a.ins) |-> k], LAMBDA k : 32 + 4 + 4 + VarInt(InSs(a, k)) + InSs(a, k))
    + VarInt(Len(a.outs)) + SumInt(a.outs, LAMBDA o : 8 + 1 + ScriptLen(KindTab[o.kind].st)) + 4

ChanAt(a, k) == IF \E j \in DOMAIN a.chans : a.chans[j].at = k
                THEN CHOOSE j \in DOMAIN a.chans : a.chans[j].at = k ELSE 0
\* the channel whose keys a funding-kind output is built from (slot, or the next channel in order)
FundIdx(a, k) == IF a.outs[k].slot > 0 THEN a.outs[k].slot
                 ELSE Cardinality({j \in 1..k : a.outs[j].kind \in FundKinds})
\* abstract case -> expected concrete case
Facts(a) ==
  [ pol   |-> a.pol, ver |-> a.ver, base |-> BaseSize(a), txw |-> 4 * BaseSize(a), fw |-> -1,
    ins   |-> [k \in DOMAIN a.ins |-> LET t == InTab[a.ins[k].kind] IN
                 [v |-> a.ins[k].v, sw |-> t.sw, st |-> t.st, uck |-> t.uck, ss |-> InSs(a, k)]],
    outs  |-> [k \in DOMAIN a.outs |-> LET t == KindTab[a.outs[k].kind] IN
                 [v |-> a.outs[k].v, path |-> t.path, own |-> t.own, st |-> t.st,
                  inlist |-> (t.own = "listed" /\ a.listed) \/ a.outs[k].al,
                  xin |-> (t.own = "xpub" /\ a.xpub) \/ (t.own = "wallet" /\ a.ownxpub),
                  ch |-> ChanAt(a, k), fs |-> a.outs[k].kind \in {"F", "Fp"} /\ FundIdx(a, k) = ChanAt(a, k)]],
    chans |-> [j \in DOMAIN a.chans |-> LET t == CommitTab[a.chans[j].commit] IN
                 [val |-> a.chans[j].val, outbound |-> a.chans[j].outbound, push |-> a.chans[j].push,
                  nh |-> t.nh, hasnext |-> t.hasnext]] ]
=============================================================================
