----------------------------- MODULE SimLifecycle -----------------------------
(* Leg C (spec -> impl): random behaviours of the Lifecycle model with the REAL  *)
(* constants (D = 100, S = 106, W = 100), two channels with on-chain activity,   *)
(* several Bury / Unbury macro steps - printed as request sequences that the     *)
(* harness replays through the real implementation (`lifecycle run`) and         *)
(* TraceLifecycle.tla validates.  Run with  tlc -simulate num=N -depth Depth+2.  *)
(* Requests that make a channel progress towards being forgotten are preferred.  *)
EXTENDS Lifecycle, Json, IOUtils

CONSTANTS Depth, MaxBury
Plan == JsonDeserialize(IOEnv.LC_PLAN)
K == WithDeep(WithSwitches(WithCrash(MkK(Plan.D, Plan.S, Plan.W, Plan.maxd, SeqToSet(Plan.cd), SeqToSet(Plan.kinds), Plan.pairs,
         SeqToSet(Plan.bury), Plan.rev, Plan.mir, Plan.mode, Plan.empty), Plan.crash), Plan.markFirst, Plan.dropOrphans),
         Plan.DX, SeqToSet(Plan.around))
RQ == Requests(K)

VARIABLES s, hist, nb, w
Closed == \E d \in DOMAIN s.chans : LET c == s.chans[d] IN
            c.ph = "ready" /\ (c.dsh # -1 \/ c.mch # -1 \/ c.csh # -1)
\* requests that change the signer's state are preferred to refused / no-op ones
Weight(r) == IF Step(K, s, r).s = s THEN 1
             ELSE CASE r.op = "Connect" /\ r.b # <<>> -> 6
                    [] r.op = "Setup" -> 5
                    [] r.op = "Bury"  -> IF Closed THEN 8 ELSE 1
                    [] r.op \in {"New", "Forget", "Heartbeat"} -> 4
                    [] OTHER -> 2
\* blocks whose disconnection the compact-proof harness does not offer (see TxRec.nodisc)
DiscOK == LET b == TopBlock(s) IN \A i \in DOMAIN b : ~K.tx[b[i]].nodisc

\* the top k blocks are empty and still in the header window
UnburyOK(k) == s.hw >= k /\ (IF s.ev = <<>> THEN TRUE ELSE s.ev[Len(s.ev)].h <= s.h - k)

Init == s = InitState(K) /\ hist = <<>> /\ nb = 0 /\ w = 0
Next == /\ Len(hist) < Depth
        /\ \E r \in RQ :
             /\ Enabled(K, s, r)
             /\ r.op \in {"Bury", "Unbury"} => nb < MaxBury
             /\ r.op \in {"Disconnect"} => DiscOK /\ s.hw > 0
             /\ r.op = "Unbury" => UnburyOK(r.k)
             /\ LET o == Step(K, s, r) IN
                /\ o.rc # "panic"
                /\ s' = o.s
                /\ hist' = Append(hist, r)
                /\ nb' = IF r.op \in {"Bury", "Unbury"} THEN nb + 1 ELSE nb
                /\ \E k \in 1..Weight(r) : w' = k
Spec == Init /\ [][Next]_<<s, hist, nb, w>>

Emit == Len(hist) = Depth => PrintT(<<"SIM", ToJson(hist)>>)
=============================================================================
