--------------------------- MODULE AuthClientSeqs ---------------------------
(* Prints, as ndjson, EVERY request sequence of length Depth of the client     *)
(* session model of Auth.tla (puts of next versions, honest gets, gets         *)
(* answered with each earlier recorded reply): the harness runs exactly these  *)
(* sessions through the real PrivClient over gRPC.  Among them, for Depth >= 4: *)
(* get ; put ; get ; replay of the first reply.                                 *)
EXTENDS Auth, Json, IOUtils, SequencesExt

Depth == CHOOSE n \in 0..12 : ToString(n) = IOEnv.AUTH_DEPTH
Wide  == IOEnv.AUTH_TIER = "thorough"
K == [W |-> 8, framed |-> FALSE]       \* (the replay decision does not depend on the framing)
CKeysG    == IF Wide THEN {<<99, 104, 47, 49>>, <<99, 104, 47, 50>>} ELSE {<<99, 104, 47, 49>>}
CPrefixes == IF Wide THEN {<<>>, <<99, 104, 47, 50>>} ELSE {<<>>}

RECURSIVE Paths(_, _)
Paths(c, d) ==
  IF d = 0 THEN {<<>>}
  ELSE UNION { {<<r>> \o q : q \in Paths(CStep(c, r, K).c, d - 1)} : r \in CReqs(c, CKeysG, CPrefixes, Depth, Depth) }

Seqs == SetToSeq(Paths(InitC, Depth))

VARIABLE x
Init == x = 0
Next == UNCHANGED x
ASSUME ndJsonSerialize(IOEnv.AUTH_OUT, Seqs)
ASSUME PrintT(<<"SEQS", Len(Seqs)>>)
=============================================================================
