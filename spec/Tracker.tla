------------------------------- MODULE Tracker -------------------------------
(***************************************************************************)
(* Chain tracker of the validating signer (property C13).                   *)
(*                                                                         *)
(* Mirrors vls-core/src/chain/tracker.rs (ChainTracker::add_block,          *)
(* remove_block, block_chunk, validate_block, validate_retarget),           *)
(* policy/validator.rs::validate_block (txoo proof + trusted-oracle         *)
(* majority) and the part of monitor.rs a ChainMonitor listener contributes *)
(* to the tracker (watch additions/removals for funding / double-spend      *)
(* transactions, the streamed-block decode state).                          *)
(*                                                                         *)
(* Written "to be bound": the whole transition function is the pure         *)
(* operator  Step(s, r, K) -> [resp, s]  with the refusals in the order the *)
(* code performs them, so that a mutation made before a later refusal is    *)
(* visible in the model.  Ghost(g, pre, r, resp, post) updates history      *)
(* variables from OBSERVATIONS only; C13 is the conjunction of three        *)
(* invariants over them.  The same operators are used by                    *)
(*   MC_Tracker.tla    TLC explores the model itself                (leg A) *)
(*   ImplTracker.tla   TLC walks the state graph extracted from the real    *)
(*                     ChainTracker<ChainMonitor>, checks every edge and    *)
(*                     probe against Step and runs the monitors     (leg B) *)
(*   TraceTracker.tla  TLC validates recorded step sequences        (leg C) *)
(*                                                                         *)
(* Abstract values                                                          *)
(*  header   [id, p, c, lvl, fh]  id: path name of the block ("A2.e.f1+2"), *)
(*           p: id of its parent ("?" unknown),                             *)
(*           c: its content, lvl: difficulty level (target = max >> lvl),   *)
(*           fh: the filter header recorded with it: "ok" (what an honest   *)
(*           oracle attests), "zero" (recorded without filter header) or    *)
(*           "bad" (anything else)                                          *)
(*  content  "b" base block, "e" empty, "f<k>" funding transaction of       *)
(*           channel k (spends I<k>, creates F<k>), "d<k>" another          *)
(*           transaction spending I<k>                                      *)
(*  listener [w, s, tw, m]  watches, seen, number of txid watches, monitor  *)
(*           m = [h, fund, ds, fo, sb, other]                               *)
(*  state    [h, tip, win, anc, ls, tds, mds]                               *)
(*           win: the remembered headers below the tip, nearest first;      *)
(*           anc: the chain below the remembered headers as the honest node *)
(*           knows it (nearest first, honest filter headers).  anc is NOT   *)
(*           tracker state: it is the environment the "supplied previous    *)
(*           headers" argument of a removal is taken from.  A removal uses  *)
(*           it only in deep-reorg mode (K.deep, nothing remembered): there *)
(*           the code does not compare the supplied headers with anything   *)
(*           it remembers; after validate_block the SUPPLIED headers become *)
(*           the tip, the height goes down, the window stays empty.         *)
(*  request  [op, link, pow, db, t, c, kind, pf, att, prev, need, probe, pq] *)
(*           (see harness/src/bin/tracker.rs for the concrete meaning)      *)
(*  K        [interval, maxReorg, trusted, deep, popFirst, keepDecode]      *)
(*           deep:       ChainTracker::allow_deep_reorgs (the testnet       *)
(*                       default of NodeConfig): a removal is not refused   *)
(*                       when no header is remembered below the tip         *)
(*           popFirst:   remove_block pops the header window BEFORE         *)
(*                       validate_block (the code at HEAD)                  *)
(*           keepDecode: a refused streamed request leaves the tracker's /  *)
(*                       the monitors' block-decode state behind (HEAD)     *)
(***************************************************************************)
EXTENDS Naturals, Integers, Sequences, FiniteSets, TLC

SeqSet(q) == {q[i] : i \in DOMAIN q}
MinOf(a, b) == IF a < b THEN a ELSE b

ErrNone == 0
ErrOrphan == 1
ErrChain == 2
ErrBlock == 3
ErrDecode == 4
ErrTooDeep == 5
ErrProof == 6
ErrPanic == 7

Oracles == {"o1", "o2", "o3"}
StreamKinds == {"stream", "streamOther"}

Spends(c) == CASE c \in {"f1", "d1"} -> {"I1"}
               [] c \in {"f2", "d2"} -> {"I2"}
               [] OTHER -> {}
ChanOf(c) == CASE c \in {"f1", "d1"} -> 1
               [] c \in {"f2", "d2"} -> 2
               [] OTHER -> 0
IsFunding(c) == c \in {"f1", "f2"}
NameI(k) == IF k = 1 THEN "I1" ELSE "I2"
NameF(k) == IF k = 1 THEN "F1" ELSE "F2"

DbStr(d) == CASE d = 0 -> ""
              [] d > 0 -> "+" \o ToString(d)
              [] OTHER -> ToString(d)
Token(r) == r.c \o DbStr(r.db) \o (IF r.t = "late" THEN "@" ELSE "") \o (IF r.pow = "bad" THEN "!" ELSE "")

\* the listeners see the transactions of the PROOF (compact) or of the streamed block: a compact
\* proof that omits the matching transactions shows them an empty block
Visible(r, c) == IF r.kind = "compact" /\ r.pf = "omit" THEN "e" ELSE c

ForwardWatches(s) == UNION {s.ls[k].w : k \in DOMAIN s.ls}
ReverseWatches(s) == UNION {s.ls[k].w \cup s.ls[k].s : k \in DOMAIN s.ls}

---------------------------------------------------------------------------
\* responses
Resp(ok, err) == [ok |-> ok, err |-> err]
Refuse(s, err) == [resp |-> Resp(0, err), s |-> s]
Accept(s)      == [resp |-> Resp(1, ErrNone), s |-> s]
Panic(s)       == [resp |-> Resp(2, ErrPanic), s |-> s]

---------------------------------------------------------------------------
\* validate_retarget / the bits rule of validate_block; newH is at height h+1.
\* (The testnet-only "20 minute rule" - a block at the chain's maximum target whose time is more
\* than 20 minutes after its predecessor's skips these checks - does not apply on the networks
\* driven here; requests with t = "late" probe exactly that.)
BitsVerdict(K, h, prevLvl, newLvl) ==
  IF (h + 1) % K.interval = 0
  THEN IF newLvl < 0 THEN ErrBlock                    \* target > chain max
       ELSE IF newLvl - prevLvl > 2 THEN ErrChain     \* target < prev/4
       ELSE IF prevLvl - newLvl > 2 THEN ErrChain     \* target > prev*4
       ELSE ErrNone
  ELSE IF newLvl # prevLvl THEN ErrChain ELSE ErrNone

\* TxoProof::verify + trusted-oracle majority (policy/validator.rs::validate_block)
\* prevFh: recorded filter header of the previous block; content: of the validated block
ProofVerifies(K, r, prevFh, content, watches) ==
  /\ r.pf \notin {"wrongheight", "wrongblock", "badsig"}
  /\ r.kind = "compact" =>
        /\ r.pf # "badfh"
        /\ prevFh = "ok"                               \* attested header = H(filter, recorded prev)
        /\ r.pf = "omit" => Spends(content) \cap watches = {}
  /\ Cardinality(SeqSet(r.att)) >= 1
  /\ Cardinality(SeqSet(r.att) \cap K.trusted) >= (Cardinality(K.trusted) + 1) \div 2

\* ChainTracker::validate_block(height h, prev -> new): first failing check, in the code's order
Validate(K, s, h, prevH, linkOk, powOk, newLvl, r, content, watches) ==
  IF ~linkOk THEN ErrOrphan
  ELSE IF ~powOk THEN ErrBlock
  ELSE IF BitsVerdict(K, h, prevH.lvl, newLvl) # ErrNone THEN BitsVerdict(K, h, prevH.lvl, newLvl)
  ELSE IF prevH.fh = "zero" THEN ErrNone               \* documented upgrade path: proof not checked
  ELSE IF ~ProofVerifies(K, r, prevH.fh, content, watches) THEN ErrProof
  ELSE ErrNone

---------------------------------------------------------------------------
\* listeners (ChainMonitor + ListenSlot): block with content c connected at new height nh
MonForward(m, k, c, nh) ==
  LET m1 == [m EXCEPT !.h = nh, !.sb = TRUE] IN
  IF ChanOf(c) # k THEN m1
  ELSE IF IsFunding(c) THEN [m1 EXCEPT !.fund = nh, !.fo = NameF(k), !.ds = -1]
  ELSE [m1 EXCEPT !.ds = IF m.ds = -1 THEN nh ELSE m.ds]

LsForward(l, k, c, nh) ==
  LET adds == IF ChanOf(c) = k /\ IsFunding(c) THEN {NameF(k)} ELSE {}
      rems == IF ChanOf(c) = k THEN {NameI(k)} ELSE {} IN
  [l EXCEPT !.w = (l.w \cup adds) \ rems, !.s = l.s \cup rems, !.m = MonForward(l.m, k, c, nh)]

\* block with content c at height h disconnected (backward rules applied in forward order)
MonBackward(m, k, c, h) ==
  LET m1 == [m EXCEPT !.sb = TRUE] IN
  LET m2 == IF ChanOf(c) # k THEN m1
            ELSE LET m3 == [m1 EXCEPT !.ds = IF m.ds = h THEN -1 ELSE m.ds] IN
                 IF IsFunding(c) THEN [m3 EXCEPT !.fund = -1, !.fo = "-"] ELSE m3 IN
  [m2 EXCEPT !.h = m.h - 1]

LsBackward(l, k, c, h) ==
  LET adds == IF ChanOf(c) = k /\ IsFunding(c) THEN {NameF(k)} ELSE {}
      rems == IF ChanOf(c) = k THEN {NameI(k)} ELSE {} IN
  [l EXCEPT !.s = l.s \ rems, !.w = (l.w \cup rems) \ adds, !.m = MonBackward(l.m, k, c, h)]

\* the monitor asserts funding_height = height when a funding confirmation is disconnected
BackwardPanics(s, c) == \E k \in DOMAIN s.ls : ChanOf(c) = k /\ IsFunding(c) /\ s.ls[k].m.fund # s.ls[k].m.h

SawBlock(s) == [s EXCEPT !.ls = [k \in DOMAIN s.ls |-> [s.ls[k] EXCEPT !.m.sb = TRUE]]]

---------------------------------------------------------------------------
\* block_chunk(...) for a streamed request: Some state = continue, "panic" otherwise
\* tds: the tracker holds a block-decode state; mds: the monitors hold one
StreamPanics(s) == s.tds \/ (s.mds /\ Len(s.ls) > 0)
AfterStream(s) == [SawBlock(s) EXCEPT !.tds = TRUE, !.mds = Len(s.ls) > 0]

\* hidden decode state after a streamed request was refused by add_block / remove_block
\*   finished: maybe_finish_decoding_block ran (it consumes the tracker's decode state)
Leftover(K, s, finished) ==
  IF K.keepDecode THEN [s EXCEPT !.tds = IF finished THEN FALSE ELSE s.tds]
  ELSE [s EXCEPT !.tds = FALSE, !.mds = FALSE]

---------------------------------------------------------------------------
\* a header as the honest node records it
Honest(hd) == [hd EXCEPT !.fh = "ok"]

AddBlock(s, r, K) ==
  LET streamed == r.kind \in StreamKinds IN
  IF streamed /\ StreamPanics(s) THEN Panic(s)
  ELSE
  LET s1 == IF streamed THEN AfterStream(s) ELSE s IN
  IF ~streamed /\ s1.tds THEN Panic(s)                  \* assert is_external = decode_state.is_some()
  ELSE IF r.kind = "streamOther" THEN Refuse(Leftover(K, s1, TRUE), ErrDecode)
  ELSE
  LET s2 == [s1 EXCEPT !.tds = FALSE]
      newLvl == s.tip.lvl + r.db
      v == Validate(K, s, s.h, s.tip, r.link = "tip", r.pow = "ok", newLvl, r, r.c, ForwardWatches(s)) IN
  IF v # ErrNone THEN Refuse(Leftover(K, s2, TRUE), v)
  ELSE IF r.kind = "block" THEN Refuse(s2, ErrProof)    \* non-streamed full block not supported
  ELSE
  LET nh == s.h + 1
      newTip == [id |-> s.tip.id \o "." \o Token(r), p |-> s.tip.id, c |-> r.c, lvl |-> newLvl,
                 fh |-> IF r.pf = "badfh" THEN "bad" ELSE "ok"] IN
  Accept([s2 EXCEPT !.ls = [k \in DOMAIN s2.ls |-> LsForward(s2.ls[k], k, Visible(r, r.c), nh)],
                    !.win = <<s.tip>> \o SubSeq(s.win, 1, MinOf(Len(s.win), K.maxReorg - 1)),
                    \* a header pushed out of the full window is from now on known to the node only
                    !.anc = IF Len(s.win) >= K.maxReorg THEN <<Honest(s.win[Len(s.win)])>> \o s.anc ELSE s.anc,
                    !.tip = newTip, !.h = nh,
                    !.mds = IF streamed THEN FALSE ELSE s2.mds])

SuppliedFh(r) == CASE r.prev = "right" -> "ok"
                   [] r.prev = "zerofh" -> "zero"
                   [] OTHER -> "bad"

\* a header that is not part of the chain (prev = "wronghdr")
Unrelated == [id |-> "U", p |-> "?", c |-> "b", lvl |-> 0, fh |-> "ok"]
\* deep-reorg mode: nothing is remembered below the tip and deep reorgs are allowed
DeepMode(K, s) == s.win = <<>> /\ K.deep
\* the previous headers a removal request supplies when nothing is remembered: the parent of the
\* tip as the node knows it, with the filter header the request names (no known parent: the node
\* has nothing that links, the harness supplies the unrelated header)
SuppliedLinks(s, r) == r.prev # "wronghdr" /\ s.anc # <<>>
Supplied(s, r) == IF SuppliedLinks(s, r) THEN [s.anc[1] EXCEPT !.fh = SuppliedFh(r)] ELSE Unrelated

RemoveBlock(s, r, K) ==
  LET streamed == r.kind \in StreamKinds IN
  IF streamed /\ StreamPanics(s) THEN Panic(s)
  ELSE
  LET s1 == IF streamed THEN AfterStream(s) ELSE s IN
  LET deep == DeepMode(K, s) IN
  IF s.win = <<>> /\ ~K.deep THEN Refuse(Leftover(K, s1, FALSE), ErrTooDeep)     \* deep reorgs not allowed
  \* something is remembered: the supplied headers must be the remembered ones
  ELSE IF ~deep /\ (r.prev = "wronghdr" \/ s.win[1].id # s.tip.p)  \* supplied header # remembered header
       THEN Refuse(Leftover(K, s1, FALSE), ErrChain)
  ELSE IF ~deep /\ SuppliedFh(r) # s.win[1].fh THEN Refuse(Leftover(K, s1, FALSE), ErrChain)
  ELSE
  \* deep-reorg mode: the supplied headers are used as they are (validate_block checks that the
  \* tip links to them and verifies the proof against the supplied filter header)
  LET prevH == IF deep THEN Supplied(s, r) ELSE s.win[1]
      linkOk == ~deep \/ SuppliedLinks(s, r)
      \* the code at HEAD pops the remembered header here, before validating
      sp == IF K.popFirst /\ ~deep THEN [s1 EXCEPT !.win = Tail(s.win)] ELSE s1 IN
  IF ~streamed /\ s1.tds THEN Panic(s)
  ELSE IF streamed THEN Refuse(Leftover(K, sp, TRUE), ErrDecode)
        \* maybe_finish_decoding_block compares the streamed (tip) block's hash with the
        \* PREVIOUS block's hash: a streamed removal is always refused
  ELSE
  LET v == Validate(K, s, s.h - 1, prevH, linkOk, TRUE, s.tip.lvl, r, s.tip.c, ReverseWatches(s)) IN
  IF v # ErrNone THEN Refuse(sp, v)
  ELSE IF r.kind = "block" THEN Refuse(sp, ErrProof)
  ELSE IF BackwardPanics(s, Visible(r, s.tip.c)) THEN Panic(s)
  ELSE Accept([s1 EXCEPT !.ls = [k \in DOMAIN s1.ls |-> LsBackward(s1.ls[k], k, Visible(r, s.tip.c), s.h)],
                         \* headers.pop_front() (no-op when nothing is remembered); the previous
                         \* headers become the tip
                         !.win = IF deep THEN <<>> ELSE Tail(s.win),
                         !.anc = IF deep THEN Tail(s.anc) ELSE s.anc,
                         !.tip = prevH, !.h = s.h - 1])

Step(s, r, K) == IF r.op = "add" THEN AddBlock(s, r, K) ELSE RemoveBlock(s, r, K)

\* a request is applied only where the outpoints it spends are unspent (= forward watches)
Enabled(s, r) == SeqSet(r.need) \subseteq ForwardWatches(s)

\* the part of the state the harness can observe (the decode states are hidden)
Obs(s) == [h |-> s.h, tip |-> s.tip, win |-> s.win, anc |-> s.anc, ls |-> s.ls]


---------------------------------------------------------------------------
(***************************************************************************)
(* The request alphabet: every request that deviates from a correct one in  *)
(* at most maxDev dimensions (header link, proof of work, bits, proof       *)
(* class, delivery kind, attesting oracles, previous-headers argument).     *)
(***************************************************************************)
AllAtt == <<"o1", "o2", "o3">>
\* (the last one: the same oracle attesting twice must count once)
AttSeqs == {<<"o1">>, <<"o2">>, <<"o3">>, <<"o1", "o2">>, <<"o1", "o3">>, <<"o2", "o3">>, AllAtt, <<"o1", "o1">>}
B2N(b) == IF b THEN 1 ELSE 0

Dev(r) == B2N(r.link # "tip") + B2N(r.pow # "ok") + B2N(r.db # 0) + B2N(r.pf # "good")
          + B2N(r.kind \in {"streamOther", "block"}) + B2N(r.att # AllAtt)
          + B2N(r.prev \notin {"-", "right"})

WellFormed(r) == /\ r.kind \in StreamKinds => r.pf \notin {"omit", "badfh"}
                 /\ r.t = "late" => r.db = -2          \* late blocks return to an easier target

NeedOf(c) == IF Spends(c) = {} THEN <<>> ELSE <<CHOOSE x \in Spends(c) : TRUE>>

RawRequests(Contents, Dbs) ==
  [op : {"add"}, link : {"tip", "fork"}, pow : {"ok", "bad"}, db : Dbs, t : {"same", "late"}, c : Contents,
   kind : {"compact", "stream", "streamOther", "block"},
   pf : {"good", "wrongheight", "wrongblock", "badsig", "omit", "badfh"}, att : AttSeqs, prev : {"-"}]
  \cup
  [op : {"rm"}, link : {"tip"}, pow : {"ok"}, db : {0}, t : {"same"}, c : {"-"},
   kind : {"compact", "stream", "streamOther", "block"},
   pf : {"good", "wrongheight", "wrongblock", "badsig", "omit", "badfh"}, att : AttSeqs,
   prev : {"right", "zerofh", "wrongfh", "wronghdr"}]

Decorate(r) == [op |-> r.op, link |-> r.link, pow |-> r.pow, db |-> r.db, t |-> r.t, c |-> r.c, kind |-> r.kind,
                pf |-> r.pf, att |-> r.att, prev |-> r.prev, need |-> NeedOf(r.c),
                \* probe: used as "later correct request"; pq: probes are applied after this
                \* request when it is refused
                probe |-> B2N(Dev(r) = 0 /\ r.c \in {"e", "-"}), pq |-> B2N(Dev(r) <= 1)]

Requests(maxDev, Contents, Dbs) ==
  {Decorate(r) : r \in {x \in RawRequests(Contents, Dbs) : Dev(x) <= maxDev /\ WellFormed(x)}}

---------------------------------------------------------------------------
(***************************************************************************)
(* The property, stated independently of the order of checks in the code.   *)
(***************************************************************************)
\* the reference predicate of C13(a): may the tip move by this request in this state?
MajorityOK(K, r) == Cardinality(SeqSet(r.att) \cap K.trusted) >= (Cardinality(K.trusted) + 1) \div 2

RetargetOK(K, h, prevLvl, newLvl) ==
  IF h % K.interval = 0
  THEN newLvl >= 0 /\ newLvl - prevLvl <= 2 /\ prevLvl - newLvl <= 2
  ELSE newLvl = prevLvl

ProofOK(K, r, prevFh, content, watches) ==
  \/ prevFh = "zero"                                   \* tip recorded without a filter header
  \/ /\ r.pf \in {"good", "omit", "badfh"}
     /\ r.kind = "compact" => r.pf # "badfh" /\ prevFh = "ok"
     /\ (r.kind = "compact" /\ r.pf = "omit") => Spends(content) \cap watches = {}
     /\ MajorityOK(K, r)

MayAdvance(K, pre, r) ==
  /\ r.op = "add" /\ r.link = "tip" /\ r.pow = "ok"
  /\ RetargetOK(K, pre.h + 1, pre.tip.lvl, pre.tip.lvl + r.db)
  /\ r.kind \in {"compact", "stream"}
  /\ ProofOK(K, r, pre.tip.fh, r.c, ForwardWatches(pre))

\* A removal below the remembered headers is possible only in deep-reorg mode.  There the supplied
\* previous headers are, by the documented contract of allow_deep_reorgs ("we assume the prev header
\* is correct and use it"; testnet only), the record of the previous block: the header must be the
\* parent of the tip and the proof must verify on top of the SUPPLIED filter header (so a supplied
\* all-zero filter header counts as "recorded without a filter header": UnprovedDeepRetreat counts
\* these for the evidence).
MayRetreat(K, pre, r) ==
  /\ r.op = "rm"
  /\ r.kind \in {"compact", "stream"}
  /\ IF pre.win # <<>>
     THEN /\ r.prev \notin {"wronghdr"} /\ pre.win[1].id = pre.tip.p /\ SuppliedFh(r) = pre.win[1].fh
          /\ RetargetOK(K, pre.h, pre.win[1].lvl, pre.tip.lvl)
          /\ ProofOK(K, r, pre.win[1].fh, pre.tip.c, ReverseWatches(pre))
     ELSE /\ K.deep
          /\ r.prev # "wronghdr" /\ pre.anc # <<>> /\ pre.anc[1].id = pre.tip.p
          /\ RetargetOK(K, pre.h, pre.anc[1].lvl, pre.tip.lvl)
          /\ ProofOK(K, r, SuppliedFh(r), pre.tip.c, ReverseWatches(pre))

UnprovedDeepRetreat(K, pre, r, resp) ==
  resp.ok = 1 /\ r.op = "rm" /\ pre.win = <<>> /\ SuppliedFh(r) = "zero"

\* the previous block of the tip in state pre, as a removal with request r reinstates it
PrevBlock(pre, r) == IF pre.win # <<>> THEN pre.win[1] ELSE [pre.anc[1] EXCEPT !.fh = SuppliedFh(r)]

\* observations: pre/post are Obs-shaped states, resp = [ok, err], chg = components changed
\* across the add_block / remove_block call (0 = none)
TipMoved(pre, post) == pre.tip # post.tip \/ pre.h # post.h

\* may the request be accepted at all ...
MoveAllowed(K, pre, r) == IF r.op = "add" THEN MayAdvance(K, pre, r) ELSE MayRetreat(K, pre, r)
\* ... and what an accepted (allowed) request does to tip / height / remembered headers: after an
\* addition the tip is the new block on top of the old tip; after a removal the tip is the previous
\* block (the remembered one, below the remembered headers the supplied one), one lower
PostRight(K, pre, r, post) ==
  IF r.op = "add"
  THEN  /\ post.h = pre.h + 1
        /\ post.tip = [id |-> pre.tip.id \o "." \o Token(r), p |-> pre.tip.id, c |-> r.c,
                       lvl |-> pre.tip.lvl + r.db,
                       \* the filter header recorded with the new tip is the attested one (never "none")
                       fh |-> IF r.pf = "badfh" THEN "bad" ELSE "ok"]
        /\ post.win # <<>> /\ post.win[1] = pre.tip
  ELSE  /\ post.h = pre.h - 1 /\ post.tip = PrevBlock(pre, r)
        /\ post.win = IF pre.win # <<>> THEN Tail(pre.win) ELSE <<>>

MoveValid(K, pre, r, resp, post) ==
  /\ TipMoved(pre, post) => resp.ok = 1
  /\ resp.ok = 1 => MoveAllowed(K, pre, r) /\ PostRight(K, pre, r, post)

\* (for the report: an accepted, allowed request that left the wrong tip / height / window)
PostWrong(K, pre, r, resp, post) == resp.ok = 1 /\ MoveAllowed(K, pre, r) /\ ~PostRight(K, pre, r, post)

\* streaming the block (block_chunk, accepted requests of their own) may set saw_block
NoSb(o) == [o EXCEPT !.ls = [k \in DOMAIN o.ls |-> [o.ls[k] EXCEPT !.m.sb = TRUE]]]

InitGhost == [moveOK |-> TRUE, frameOK |-> TRUE, laterOK |-> TRUE]

\* one observed request
Ghost(g, K, pre, r, resp, chg, post) ==
  [g EXCEPT !.moveOK = g.moveOK /\ MoveValid(K, pre, r, resp, post),
            !.frameOK = g.frameOK /\ (resp.ok = 0 => chg = 0 /\ NoSb(post) = NoSb(pre))]

\* one observed probe: request r was accepted in this state; it was applied again right after
\* some refused request q: it must still be accepted
GhostProbe(g, respAfter) == [g EXCEPT !.laterOK = g.laterOK /\ respAfter.ok = 1]

Inv_C13a(g) == g.moveOK        \* the tip moves only by validated blocks
Inv_C13b(g) == g.frameOK       \* a refused request changes nothing
Inv_C13c(g) == g.laterOK       \* ... so a later correct request still succeeds
=============================================================================
