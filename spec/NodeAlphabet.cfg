INIT Init
NEXT Next
