-------------------------------- MODULE Auth --------------------------------
(***************************************************************************)
(* Authentication tags of externally stored signer state (property C17).    *)
(*                                                                         *)
(* Mirrors                                                                  *)
(*   vls-core/src/persist/mod.rs          ExternalPersistHelper             *)
(*       new_nonce / client_hmac / server_hmac / check_hmac,                *)
(*       compute_shared_hmac, add_to_hmac                                   *)
(*   lightning-storage-server/lib/src/util.rs                               *)
(*       compute_shared_hmac, add_to_hmac, prepare_value_for_put,           *)
(*       process_value_from_get (remove_and_check_hmac)                     *)
(* and the call sites that compare tags (vls-proxy nodefront.rs, lssd       *)
(* lib.rs put/get handlers, lss client driver.rs).                          *)
(*                                                                         *)
(* HMAC-SHA256 is abstracted by its PRE-IMAGE: under the stated assumption  *)
(* (collision / second pre-image resistance, unforgeability without the     *)
(* key) two tags are equal iff they were computed with the same key over    *)
(* the same byte string, and a modified tag equals no genuine tag.  What    *)
(* the specification transcribes is therefore the FRAMING: which bytes the  *)
(* code feeds to the HMAC engine, in which order.                           *)
(*                                                                         *)
(* Written "to be bound": the transition function of one signer session is  *)
(* the pure operator  Step(s, r, K) -> [resp, s];  Ghost(g, s, r, resp)     *)
(* updates history variables from observations only; C17 is three           *)
(* invariants over the ghost variables.  K = [W, framed] :                  *)
(*   W       width of the version field (8 in the code; 2 in leg A)         *)
(*   framed  FALSE = the code at HEAD (fields are concatenated with no      *)
(*           length framing); TRUE = the proposed repair (see               *)
(*           work/proposed/C17-*.diff): context and every key / value       *)
(*           prefixed with their 8-byte big-endian length                   *)
(***************************************************************************)
EXTENDS Naturals, Integers, Sequences, FiniteSets, TLC

(***************************************************************************)
(* Byte strings are sequences of 0..255.  A fresh nonce (32 random bytes    *)
(* drawn by the signer) is ONE symbol 1000+j, j = 1, 2, ... : it cannot be  *)
(* assembled from data bytes.  Nonce number 0 is the initial value of       *)
(* ExternalPersistHelper.last_nonce, 32 literal zero bytes.                 *)
(***************************************************************************)
RECURSIVE Flat(_)
Flat(ss) == IF Len(ss) = 0 THEN <<>> ELSE Head(ss) \o Flat(Tail(ss))

ZeroNonce   == [i \in 1..32 |-> 0]
NonceSym(j) == IF j = 0 THEN ZeroNonce ELSE <<1000 + j>>
Len8(n)     == <<0, 0, 0, 0, 0, 0, n \div 256, n % 256>>       \* u64 big endian, n < 65536

(***************************************************************************)
(* A record is [k, v, x]: key bytes, version (W bytes, big endian), value.  *)
(* add_to_hmac(key, version, value): key bytes, version bytes, value bytes. *)
(***************************************************************************)
EncRec(r, K) == IF K.framed
                THEN Len8(Len(r.k)) \o r.k \o r.v \o Len8(Len(r.x)) \o r.x
                ELSE r.k \o r.v \o r.x
EncList(L, K) == Flat([i \in 1..Len(L) |-> EncRec(L[i], K)])

(***************************************************************************)
(* Context of a shared tag: what compute_shared_hmac is given as `nonce`.   *)
(*   [t |-> "role",  j |-> 1|2]   the one-byte role 0x01 (client_hmac) or   *)
(*                                0x02 (server_hmac)                        *)
(*   [t |-> "nonce", j |-> d]     the nonce drawn d requests ago (0 = the   *)
(*                                nonce of the current request)             *)
(*   [t |-> "zero"]               32 zero bytes                             *)
(* followed by `ext`, further bytes chosen by the adversary: the storage    *)
(* server computes compute_shared_hmac(secret, request.nonce, kvs) for a    *)
(* request nonce of ANY length (lssd/src/lib.rs get handler).               *)
(***************************************************************************)
RoleCtx(b)   == [t |-> "role",  j |-> b, ext |-> <<>>]
NonceCtx(d)  == [t |-> "nonce", j |-> d, ext |-> <<>>]
ZeroCtx      == [t |-> "zero",  j |-> 0, ext |-> <<>>]

\* applicable in a session that has drawn n nonces
CtxApplicable(c, n) == c.t = "nonce" => n - c.j >= 1
CtxSyms(c, n) == (CASE c.t = "role"  -> <<c.j>>
                    [] c.t = "zero"  -> ZeroNonce
                    [] c.t = "nonce" -> NonceSym(n - c.j)) \o c.ext
CtxLen(c)     == (IF c.t = "role" THEN 1 ELSE 32) + Len(c.ext)

\* compute_shared_hmac(secret, ctx, kvs): HMAC keyed by the shared secret over
\*   secret || ctx || add_to_hmac(kv_1) || ... || add_to_hmac(kv_m)
\* (the leading secret is the same constant on both sides and is left out)
SharedPre(c, n, L, K) ==
  (IF K.framed THEN Len8(CtxLen(c)) ELSE <<>>) \o CtxSyms(c, n) \o EncList(L, K)

(***************************************************************************)
(* Tags.  kind separates the two HMAC keys (shared secret / per-value       *)
(* secret); ed # NoEdit is a tag whose bytes were modified after it was     *)
(* computed (it equals no genuine tag).                                     *)
(***************************************************************************)
NoEdit == [t |-> "none", n |-> 0]
MkTag(kind, pre, ed) == [kind |-> kind, pre |-> pre, ed |-> ed]

(***************************************************************************)
(* Requests.  Every check names, by a descriptor, how the presented tag     *)
(* was obtained by the adversary (it can only show tags that the real code  *)
(* computed somewhere: the signer, the server, or the server answering an   *)
(* adversarial request):                                                    *)
(*   mk = [impl, ctx, l]   tag computed by implementation `impl` ("core" =  *)
(*                         vls-core, "lss" = lightning-storage-server) in   *)
(*                         context ctx over record list l                   *)
(*   ed                    modification of the tag bytes                    *)
(*   ck                    implementation that checks                       *)
(*   l2                    record list presented with the tag               *)
(*   how                   how the generator derived l2 / ctx (label only)  *)
(* op:                                                                      *)
(*   NewNonce           ExternalPersistHelper::new_nonce                    *)
(*   CheckGet           check_hmac(l2, tag): response to a read             *)
(*   CheckPutAck        tag = server_hmac(l2): acknowledgement of a write   *)
(*   ServerCheckClient  tag = client_hmac(l2): the server admitting a write *)
(*   Open               process_value_from_get(key, version, x || tag) for  *)
(*                      the single record l2[1], tag made by                *)
(*                      prepare_value_for_put for the record mk.l[1]        *)
(***************************************************************************)
InitS == [n |-> 0]

ExpectedCtx(r) == CASE r.op = "CheckGet"          -> NonceCtx(0)
                    [] r.op = "CheckPutAck"       -> RoleCtx(2)
                    [] r.op = "ServerCheckClient" -> RoleCtx(1)
                    [] OTHER                      -> RoleCtx(0)

\* check_hmac at n = 0 uses the initial last_nonce (zeros)
CheckCtx(s, r) == IF r.op = "CheckGet" /\ s.n = 0 THEN ZeroCtx ELSE ExpectedCtx(r)

Applicable(s, r) == r.op \in {"NewNonce", "Open"} \/ CtxApplicable(r.mk.ctx, s.n)

Presented(s, r, K) ==
  IF r.op = "Open" THEN MkTag("value", EncRec(r.mk.l[1], K), r.ed)
  ELSE MkTag("shared", SharedPre(r.mk.ctx, s.n, r.mk.l, K), r.ed)

Recomputed(s, r, K) ==
  IF r.op = "Open" THEN MkTag("value", EncRec(r.l2[1], K), NoEdit)
  ELSE MkTag("shared", SharedPre(CheckCtx(s, r), s.n, r.l2, K), NoEdit)

Resp(ok) == [ok |-> ok]

\* only new_nonce changes the signer's state (every check takes &self)
NextS(s, r) == IF r.op = "NewNonce" THEN [n |-> s.n + 1] ELSE s

Step(s, r, K) ==
  CASE r.op = "NewNonce" ->
         \* last_nonce := fresh entropy; the nonce is returned to be sent with the read
         [resp |-> Resp(TRUE), s |-> NextS(s, r)]
    [] r.op = "Open" ->
         \* remove_and_check_hmac: (1) shorter than a tag -> Err  (2) split off the last 32
         \* bytes  (3) recompute over key, version, remaining value and compare
         IF r.ed.t = "short" THEN [resp |-> Resp(FALSE), s |-> s]
         ELSE [resp |-> Resp(Presented(s, r, K) = Recomputed(s, r, K)), s |-> s]
    [] OTHER ->
         \* recompute over the presented records in the checker's own context and compare
         [resp |-> Resp(Presented(s, r, K) = Recomputed(s, r, K)), s |-> s]

(***************************************************************************)
(* Property monitors (ghost state computed from observations only: the      *)
(* request descriptor and whether the real code accepted).                  *)
(*                                                                         *)
(* C17a  a fetched value is accepted only with exactly the key, version and *)
(*       content the signer wrote            (Open accepted  =>  l2 = mk.l) *)
(* C17b  a response is accepted only if it authenticates, unmodified, under *)
(*       the context of THIS request: the fresh nonce of this read (resp.   *)
(*       the acknowledgement / admission role of this write)                *)
(* C17c  two different record lists never authenticate under the same tag   *)
(*       (accepted  =>  l2 = mk.l)                                          *)
(* A check made before any nonce was drawn (n = 0) has no request it could  *)
(* be the response of; it is held to the initial zero nonce.                *)
(***************************************************************************)
U(K) == [W |-> K.W, framed |-> FALSE]

Verdict(s, r, K) ==
  LET sameL   == r.l2 = r.mk.l
      tagOK   == r.ed = NoEdit
      ctxOK   == r.mk.ctx = CheckCtx(s, r)
      sameRaw == EncList(r.l2, U(K)) = EncList(r.mk.l, U(K))
      sameAll == CtxSyms(r.mk.ctx, s.n) \o EncList(r.mk.l, U(K))
                   = CtxSyms(CheckCtx(s, r), s.n) \o EncList(r.l2, U(K))
  IN
  IF r.op = "Open" THEN
       IF sameL /\ tagOK THEN [mon |-> "ok", rel |-> "legit"]
       ELSE [mon |-> "a", rel |-> IF ~tagOK THEN "tag-edit"
                                  ELSE IF sameRaw THEN "unframed-records" ELSE "content"]
  ELSE IF ~sameL THEN
       [mon |-> "c", rel |-> IF ~tagOK THEN "tag-edit"
                             ELSE IF ctxOK /\ sameRaw THEN "unframed-records"
                             ELSE IF ~ctxOK /\ sameAll THEN "unframed-context"
                             ELSE "content"]
  ELSE IF ~ctxOK \/ ~tagOK THEN
       [mon |-> "b", rel |-> IF ~tagOK THEN "tag-edit" ELSE "context"]
  ELSE [mon |-> "ok", rel |-> "legit"]

\* canonical key of a violation class: monitor, checking implementation (whose framing is at
\* fault), relation between what was tagged and what was accepted, and - except for the two
\* "unframed" relations - how the accepted input was derived
KeyOf(s, r, K) == LET v == Verdict(s, r, K) IN
  <<"C17" \o v.mon, r.ck, v.rel,
    IF v.rel \in {"unframed-records", "unframed-context"} THEN "-"
    ELSE IF v.rel = "tag-edit" THEN r.ed.t ELSE r.how>>

InitGhost == [a |-> {}, b |-> {}, c |-> {}]

\* Judgement of one observed step: does it conform to Step, and what does the monitor say
\* (evaluated once per implementation edge by ImplAuth / TraceAuth)
Judge(s, r, ok, K) ==
  IF r.op = "NewNonce" THEN [exp |-> TRUE, mon |-> "ok", key |-> <<>>]
  ELSE LET v == Verdict(s, r, K) IN
       [exp |-> Step(s, r, K).resp.ok,
        mon |-> v.mon,
        key |-> IF ok /\ v.mon # "ok" THEN KeyOf(s, r, K) ELSE <<>>]

GhostJ(g, ok, j) == IF ok /\ j.mon # "ok" THEN [g EXCEPT ![j.mon] = @ \cup {j.key}] ELSE g

Ghost(g, s, r, resp, K) == GhostJ(g, resp.ok, Judge(s, r, resp.ok, K))

Inv_C17a(g) == g.a = {}
Inv_C17b(g) == g.b = {}
Inv_C17c(g) == g.c = {}

(***************************************************************************)
(* Client side of the read exchange as the code performs it                 *)
(* (lightning-storage-server lib/src/client/driver.rs, PrivClient):         *)
(*   get : nonce := 32 fresh random bytes ; send (prefix, nonce) ; compare   *)
(*         the reply's hmac with compute_shared_hmac(secret, nonce, kvs) ;   *)
(*         check and strip the per-value tag of every returned record        *)
(*   put : sort ; seal every value ; client tag ; the server stores a record *)
(*         only with the NEXT version of its key (0 for a new key) ;         *)
(*         compare the acknowledgement with the expected server tag          *)
(* Session state c = [n, store, replies]: gets made so far, the server's     *)
(* records, and the record list served for every get so far (what an         *)
(* on-path party has recorded).  Requests:                                   *)
(*   [op |-> "Put", recs]        write                                      *)
(*   [op |-> "Get", p]           read of prefix p, answered honestly         *)
(*   [op |-> "GetReplay", p, j]  read answered with the reply (records and   *)
(*                               server tag) recorded for get number j       *)
(* A replayed reply carries the tag made under the nonce of get j; the get   *)
(* that receives it is number n+1 and checks under ITS nonce: this is the    *)
(* CheckGet of Step with the context "nonce drawn n+1-j requests ago".       *)
(***************************************************************************)
InitC == [n |-> 0, store |-> <<>>, replies |-> <<>>]

Ver8(v)      == <<0, 0, 0, 0, 0, 0, v \div 256, v % 256>>
VerNum(v)    == v[Len(v)] + 256 * v[Len(v) - 1]
HasPrefix(k, p) == Len(p) <= Len(k) /\ SubSeq(k, 1, Len(p)) = p
Stored(st, k)   == {i \in 1..Len(st) : st[i].k = k}
NextVer(st, k)  == IF Stored(st, k) = {} THEN 0 ELSE VerNum(st[CHOOSE i \in Stored(st, k) : TRUE].v) + 1
Select(st, p)   == SelectSeq(st, LAMBDA r : HasPrefix(r.k, p))
AsSet(L)        == {L[i] : i \in 1..Len(L)}

CResp(ok, recs) == [ok |-> ok, recs |-> recs]

CStep(c, r, K) ==
  CASE r.op = "Put" ->
         IF \A i \in 1..Len(r.recs) : VerNum(r.recs[i].v) = NextVer(c.store, r.recs[i].k)
         THEN [resp |-> CResp(TRUE, <<>>),
               c |-> [c EXCEPT !.store = SelectSeq(c.store, LAMBDA x : \A i \in 1..Len(r.recs) : r.recs[i].k # x.k)
                                          \o r.recs]]
         ELSE [resp |-> CResp(FALSE, <<>>), c |-> c]          \* version conflict: nothing stored
    [] r.op = "Get" ->
         LET L == Select(c.store, r.p) IN
         [resp |-> CResp(TRUE, L), c |-> [c EXCEPT !.n = @ + 1, !.replies = Append(@, L)]]
    [] r.op = "GetReplay" ->
         LET L  == c.replies[r.j]
             ok == Step([n |-> c.n + 1],
                        [op |-> "CheckGet", mk |-> [impl |-> "lss", ctx |-> NonceCtx(c.n + 1 - r.j), l |-> L],
                         ed |-> NoEdit, ck |-> "lss", l2 |-> L, how |-> "replay"], K).resp.ok
         IN [resp |-> CResp(ok, IF ok THEN L ELSE <<>>), c |-> [c EXCEPT !.n = @ + 1, !.replies = Append(@, L)]]

(***************************************************************************)
(* Monitors of the client session, from observations only: the nonce seen   *)
(* on the wire for every get ([len, id]: its length and its bytes) and       *)
(* whether the client accepted.                                              *)
(* C17d (freshness clause of C17): every get uses a nonce of full length     *)
(*       that differs from the nonces of all earlier gets of the session.    *)
(* C17b: a reply recorded for an earlier get is never accepted.              *)
(***************************************************************************)
NonceLen == 32
InitCG == [nonces |-> {}, b |-> {}, d |-> {}]
ModelNonce(i) == [len |-> NonceLen, id |-> NonceSym(i)]

CKeys(g, r, ok, nonce) ==
  IF r.op = "Put" THEN {}
  ELSE (IF nonce.len # NonceLen THEN {<<"C17d", "lssclient", "nonce-length", "-">>} ELSE {})
       \cup (IF nonce \in g.nonces THEN {<<"C17d", "lssclient", "nonce-reused", "-">>} ELSE {})
       \cup (IF r.op = "GetReplay" /\ ok THEN {<<"C17b", "lssclient", "context", "replay">>} ELSE {})

CGhost(g, r, ok, nonce) ==
  LET ks == CKeys(g, r, ok, nonce) IN
  [nonces |-> IF r.op = "Put" THEN g.nonces ELSE g.nonces \cup {nonce},
   b |-> g.b \cup {k \in ks : k[1] = "C17b"},
   d |-> g.d \cup {k \in ks : k[1] = "C17d"}]

Inv_C17d(g) == g.d = {}

\* requests of a session in state c (the specification is the single source of what is explored)
PutReq(recs)     == [op |-> "Put", recs |-> recs, p |-> <<>>, j |-> 0]
GetReq(p)        == [op |-> "Get", recs |-> <<>>, p |-> p, j |-> 0]
ReplayReq(p, j)  == [op |-> "GetReplay", recs |-> <<>>, p |-> p, j |-> j]
CReqs(c, keys, prefixes, maxver, maxgets) ==
       {PutReq(<<[k |-> k, v |-> Ver8(NextVer(c.store, k)), x |-> <<100 + NextVer(c.store, k)>>]>>) :
          k \in {kk \in keys : NextVer(c.store, kk) <= maxver}}
  \cup (IF c.n < maxgets
        THEN {GetReq(p) : p \in prefixes} \cup {ReplayReq(p, j) : p \in prefixes, j \in 1..c.n}
        ELSE {})

(***************************************************************************)
(* Generators: the adversary's candidate modifications of a written list    *)
(* (used by MC_Auth, AuthCases and SimAuth so that the specification is the *)
(* single source of what is explored).                                      *)
(***************************************************************************)
Rec(k, v, x) == [k |-> k, v |-> v, x |-> x]
ValidKey(k)  == \A i \in 1..Len(k) : k[i] < 128      \* keys are Rust Strings: ASCII only
ValidList(L) == \A i \in 1..Len(L) : ValidKey(L[i].k)

\* every way to read the byte string P as ONE unframed record
Parses1(P, W) ==
  {Rec(SubSeq(P, 1, i), SubSeq(P, i + 1, i + W), SubSeq(P, i + W + 1, Len(P))) :
     i \in {j \in 0..(Len(P) - W) : ValidKey(SubSeq(P, 1, j))}}

\* every way to read P as a list of exactly m unframed records (boundary shifts, merge, split)
RECURSIVE Parses(_, _, _)
Parses(P, m, W) ==
  IF m = 0 THEN (IF Len(P) = 0 THEN {<<>>} ELSE {})
  ELSE IF Len(P) < m * W THEN {}
  ELSE UNION { {<<r>> \o rest : r \in Parses1(SubSeq(P, 1, c), W),
                                rest \in Parses(SubSeq(P, c + 1, Len(P)), m - 1, W)} :
               c \in W..(Len(P) - (m - 1) * W) }

ParsesUpTo(P, mmax, W) == UNION {Parses(P, m, W) : m \in 0..mmax}

Pow2(b)      == CASE b = 0 -> 1 [] b = 1 -> 2 [] b = 2 -> 4 [] b = 3 -> 8
                  [] b = 4 -> 16 [] b = 5 -> 32 [] b = 6 -> 64 [] b = 7 -> 128
FlipBit(x, b) == IF (x \div Pow2(b)) % 2 = 1 THEN x - Pow2(b) ELSE x + Pow2(b)
FlipAt(q, p, b) == [q EXCEPT ![p] = FlipBit(@, b)]
Set(L, i, f, val) == [L EXCEPT ![i] = [@ EXCEPT ![f] = val]]
DropAt(q, i) == SubSeq(q, 1, i - 1) \o SubSeq(q, i + 1, Len(q))
Cand(how, l) == [how |-> how, l |-> l]

\* single-bit and structural modifications named in the property, applied to record i
\* (bits: which bit positions of every byte are flipped)
EditsAt(L, i, bits) ==
  LET r == L[i] IN
       {Cand("flipk", Set(L, i, "k", FlipAt(r.k, p, b))) : p \in 1..Len(r.k), b \in bits \ {7}}
  \cup {Cand("flipv", Set(L, i, "v", FlipAt(r.v, p, b))) : p \in 1..Len(r.v), b \in bits}
  \cup {Cand("flipx", Set(L, i, "x", FlipAt(r.x, p, b))) : p \in 1..Len(r.x), b \in bits}
  \cup (IF Len(r.k) > 0 THEN {Cand("trunck", Set(L, i, "k", SubSeq(r.k, 1, Len(r.k) - 1)))} ELSE {})
  \cup (IF Len(r.x) > 0 THEN {Cand("truncx", Set(L, i, "x", SubSeq(r.x, 1, Len(r.x) - 1)))} ELSE {})
  \cup {Cand("extk", Set(L, i, "k", Append(r.k, 97))), Cand("extx", Set(L, i, "x", Append(r.x, 0)))}
  \cup {Cand("drop", DropAt(L, i)), Cand("dup", SubSeq(L, 1, i) \o SubSeq(L, i, Len(L)))}
  \cup UNION {{Cand("swapk", Set(Set(L, i, "k", L[j].k), j, "k", r.k)),
               Cand("swapv", Set(Set(L, i, "v", L[j].v), j, "v", r.v)),
               Cand("swapx", Set(Set(L, i, "x", L[j].x), j, "x", r.x)),
               Cand("reorder", [L EXCEPT ![i] = L[j], ![j] = r])} : j \in (i + 1)..Len(L)}

Edits(L, bits) == UNION {EditsAt(L, i, bits) : i \in 1..Len(L)}

\* everything the adversary may present instead of the written list L
Candidates(L, bits, mmax, W) ==
  LET P == EncList(L, [W |-> W, framed |-> FALSE]) IN
       {Cand("same", L)}
  \cup {Cand(IF Len(p) = Len(L) THEN "parse" ELSE "merge-split", p) : p \in ParsesUpTo(P, mmax, W) \ {L}}
  \cup {c \in Edits(L, bits) : c.l # L /\ ValidList(c.l)}

\* ways the adversary can have a tag made whose pre-image is that of (ctx c0, list L): a context
\* that absorbs the first i bytes of the records (the server accepts any request nonce)
Absorbs(c0, L, mmax, W) ==
  LET P == EncList(L, [W |-> W, framed |-> FALSE]) IN
  UNION { {[ctx |-> [c0 EXCEPT !.ext = SubSeq(P, 1, i)], l |-> q] :
             q \in ParsesUpTo(SubSeq(P, i + 1, Len(P)), mmax, W)} : i \in 1..Len(P) }

Req(op, impl, ctx, l, ed, ck, l2, how) ==
  [op |-> op, mk |-> [impl |-> impl, ctx |-> ctx, l |-> l], ed |-> ed, ck |-> ck, l2 |-> l2, how |-> how]
NewNonceReq == Req("NewNonce", "core", RoleCtx(0), <<>>, NoEdit, "core", <<>>, "same")

=============================================================================
