---------------------------- MODULE TraceTracker ----------------------------
(***************************************************************************)
(* Leg C (impl -> spec): validates step sequences recorded from the real    *)
(* ChainTracker (`tracker run`: TLC-simulated behaviours of the model and   *)
(* replay files, each sequence on ONE tracker object without any restore).  *)
(* One record per step: [seq, step, pre, req, resp = <<ok, err, chg>>, post]*)
(*  - every step is compared with Tracker!Step; the specification carries   *)
(*    the hidden decode state along the sequence (divergences -> report),   *)
(*  - the monitors C13a, C13b run on the observations; C13c: a request that *)
(*    the ATOMIC specification accepts in the state before a run of refused *)
(*    requests must be accepted when it follows them.                       *)
(***************************************************************************)
EXTENDS Tracker, Json, IOUtils, SequencesExt

Steps == ndJsonDeserialize(IOEnv.TR_STEPS)
Cfg   == JsonDeserialize(IOEnv.TR_CFG)
EnvNat(s) == CHOOSE n \in 0..5000 : ToString(n) = s
K == [interval |-> EnvNat(IOEnv.TR_INTERVAL), maxReorg |-> EnvNat(IOEnv.TR_MAXREORG),
      trusted |-> SeqSet(Cfg.trusted), deep |-> Cfg.deep,
      popFirst |-> IOEnv.TR_POP_FIRST = "true", keepDecode |-> IOEnv.TR_KEEP_DECODE = "true"]
KAtomic == [K EXCEPT !.popFirst = FALSE, !.keepDecode = FALSE]

FromJson(j) == [h |-> j.h, tip |-> j.tip, win |-> j.win, anc |-> j.anc,
                ls |-> [k \in DOMAIN j.ls |-> [w |-> SeqSet(j.ls[k].w), s |-> SeqSet(j.ls[k].s),
                                               tw |-> j.ls[k].tw, m |-> j.ls[k].m]],
                tds |-> FALSE, mds |-> FALSE]
Clean(o) == [h |-> o.h, tip |-> o.tip, win |-> o.win, anc |-> o.anc, ls |-> o.ls, tds |-> FALSE, mds |-> FALSE]

VARIABLES l,       \* next line
          g,       \* ghost monitors
          cur,     \* specification state (observable part as recorded, hidden part as predicted)
          base,    \* observed state before the current run of refused requests
          prevok,  \* was the previous request of this sequence accepted
          bad      \* [div, move, post, frame, later]: sets of offending lines (post: the
                   \* move lines whose request was allowed but left the wrong tip/height/window)
vars == <<l, g, cur, base, prevok, bad>>

NoState == [h |-> -1]
Init == /\ l = 1 /\ g = InitGhost /\ cur = NoState /\ base = NoState /\ prevok = 1
        /\ bad = [div |-> {}, move |-> {}, post |-> {}, frame |-> {}, later |-> {}]

Walk ==
  /\ l <= Len(Steps)
  /\ LET e == Steps[l]
         first == e.step = 0
         pre == FromJson(e.pre)
         c0 == IF first THEN pre ELSE cur
         r == e.req
         resp == Resp(e.resp[1], e.resp[2])
         post == Obs(FromJson(e.post))
         o == Step(c0, r, K)
         conf == /\ Obs(c0) = Obs(pre)
                 /\ o.resp = resp
                 /\ resp.ok # 2 => Obs(o.s) = post
         b0 == IF first \/ prevok = 1 THEN Obs(pre) ELSE base
         laterOK == (~first /\ prevok = 0) =>
                       (Step(Clean(b0), r, KAtomic).resp.ok = 1 => resp.ok = 1)
         g1 == Ghost(InitGhost, K, Obs(pre), r, resp, e.resp[3], post) IN
     /\ g' = [moveOK |-> g.moveOK /\ g1.moveOK, frameOK |-> g.frameOK /\ g1.frameOK,
              laterOK |-> g.laterOK /\ laterOK]
     /\ cur' = IF resp.ok = 2 THEN c0
               ELSE [h |-> post.h, tip |-> post.tip, win |-> post.win, anc |-> post.anc, ls |-> post.ls,
                     tds |-> o.s.tds, mds |-> o.s.mds]
     /\ base' = b0
     /\ prevok' = IF resp.ok = 1 THEN 1 ELSE 0
     /\ bad' = [div   |-> IF conf THEN bad.div ELSE bad.div \cup {l},
                move  |-> IF g1.moveOK THEN bad.move ELSE bad.move \cup {l},
                post  |-> IF resp.ok # 2 /\ PostWrong(K, Obs(pre), r, resp, post) THEN bad.post \cup {l} ELSE bad.post,
                frame |-> IF g1.frameOK THEN bad.frame ELSE bad.frame \cup {l},
                later |-> IF laterOK THEN bad.later ELSE bad.later \cup {l}]
  /\ l' = l + 1

Describe(i) == LET e == Steps[i] IN
  [line |-> i, seq |-> e.seq, step |-> e.step, req |-> e.req, resp |-> e.resp, pre |-> e.pre, post |-> e.post]

Finish ==
  /\ l = Len(Steps) + 1
  /\ JsonSerialize(IOEnv.TR_REPORT,
        [steps |-> Len(Steps),
         divergences |-> SetToSeq({Describe(i) : i \in bad.div}),
         move_bad  |-> SetToSeq({Describe(i) : i \in bad.move}),
         post_bad  |-> SetToSeq({i : i \in bad.post}),
         frame_bad |-> SetToSeq({Describe(i) : i \in bad.frame}),
         later_bad |-> SetToSeq({Describe(i) : i \in bad.later})])
  /\ l' = l + 1
  /\ UNCHANGED <<g, cur, base, prevok, bad>>

Next == Walk \/ Finish
Spec == Init /\ [][Next]_vars

C13a == Inv_C13a(g)
C13b == Inv_C13b(g)
C13c == Inv_C13c(g)
=============================================================================
