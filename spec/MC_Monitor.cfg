SPECIFICATION Spec
CONSTANTS
  Cat = "q"
  Variant = "funder"
  Rev = TRUE
  Mir = TRUE
  MaxTx = 2
  MaxLen = 4
  Modes = {"compact", "streamed"}
VIEW View
INVARIANTS C14 TypeOK
CHECK_DEADLOCK FALSE
