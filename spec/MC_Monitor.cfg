\* Leg A by hand:  tlc -config MC_Monitor.cfg MC_Monitor.tla   (about 5 s; the check writes its own cfg)
\* Rev / Mir = FALSE / FALSE is the behaviour of the pinned commit (C14 is then violated by the MODEL:
\* a hypothesis that leg B confirms on the real code); TRUE / TRUE is the repaired behaviour.
SPECIFICATION Spec
CONSTANTS
  Cat = "q"
  Variant = "funder"
  Rev = TRUE
  Mir = TRUE
  MaxTx = 2
  MaxLen = 4
  Modes = {"compact", "streamed"}
  Late = FALSE
  Stale = FALSE
VIEW View
INVARIANTS C14 TypeOK
CHECK_DEADLOCK FALSE
