SPECIFICATION Spec
VIEW View
INVARIANTS C05 TypeOK
CHECK_DEADLOCK FALSE
