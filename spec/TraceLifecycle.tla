---------------------------- MODULE TraceLifecycle ----------------------------
(***************************************************************************)
(* Leg C (impl -> spec): validates steps recorded from the real             *)
(* implementation (`lifecycle run`: TLC-simulated behaviours, replay files).*)
(* One record per step: [seq, step, req, rc, msg, pre, post] with rc 1 ok | *)
(* 0 refused | 2 panic and pre / post the projections of the real signer.   *)
(* Every step is compared with Lifecycle!Step (divergences -> LC_REPORT);   *)
(* the ghost monitor is folded along every sequence and C15a / C15b are     *)
(* checked as invariants.  Replayed sequences may contain the very deep      *)
(* Bury(k) requests (k up to MAX_CLOSING_DEPTH and beyond, real blocks).     *)
(***************************************************************************)
EXTENDS Lifecycle, Json, IOUtils

Steps == ndJsonDeserialize(IOEnv.LC_STEPS)
Cases == JsonDeserialize(IOEnv.LC_CASES)
Plan  == Cases.plan
K == WithDeep(WithSwitches(WithCrash(MkK(Plan.D, Plan.S, Plan.W, Plan.maxd, SeqToSet(Plan.cd), SeqToSet(Plan.kinds), Plan.pairs,
         SeqToSet(Plan.bury), Plan.rev, Plan.mir, Plan.mode, Plan.empty), Plan.crash), Plan.markFirst, Plan.dropOrphans),
         Plan.DX, SeqToSet(Plan.around))
RC(c) == CASE c = 1 -> "ok" [] c = 2 -> "panic" [] OTHER -> "err"

ChanFields == {"ph", "bh", "fg", "fh", "dsh", "mch", "uch", "ct", "our", "ht", "sl", "csh", "oosh"}
Abs(p) == [h |-> p.h, hw |-> p.hw, ev |-> p.ev, mark |-> p.mark, su |-> SeqToSet(p.su),
           chans |-> [d \in 1..K.maxd |-> [f \in ChanFields |-> p.chans[d][f]]]]
ObsOf(p) == [h |-> p.h, ph |-> [d \in 1..K.maxd |-> p.chans[d].ph]]
Consistent(p) == /\ \A d \in 1..K.maxd : p.pst[d] = p.chans[d].ph
                 /\ SeqToSet(p.lis) = {d \in 1..K.maxd : p.chans[d].ph = "ready"}
ReqOf(e) == Req(e.req.op, e.req.d, e.req.b, e.req.k)

VARIABLES l, g
Init == l = 1 /\ g = InitGhost
Next == /\ l <= Len(Steps)
        /\ l' = l + 1
        /\ LET e == Steps[l]
               g0 == IF e.step = 0 THEN InitGhost ELSE g IN
           g' = IF e.rc = 2 THEN g0 ELSE Ghost(K, g0, ReqOf(e), RC(e.rc), ObsOf(e.pre), ObsOf(e.post))
Spec == Init /\ [][Next]_<<l, g>>
C15a == Inv_C15a(g)
C15b == Inv_C15b(g)
C15c == Inv_C15c(g)
\* after every step a signer restored from a copy of the store equals the running one (see ImplLifecycle)
RestartEq(e) == /\ ~e.rs.failed
                /\ e.rs.mark = e.post.mark
                /\ \A d \in 1..K.maxd : \A f \in ChanFields : e.rs.chans[d][f] = e.post.chans[d][f]
                /\ e.rs.pst = e.post.pst /\ e.rs.lis = e.post.lis
                /\ (K.crash \/ e.post.pl = e.post.lis)
                /\ e.rs.feq
C15r == l > 1 => LET e == Steps[l - 1] IN e.rc = 2 \/ (~e.post.dead /\ RestartEq(e))

Idx == DOMAIN Steps
Conforms(e) ==
  LET st == Abs(e.pre)
      o  == Step(K, st, ReqOf(e)) IN
  /\ Enabled(K, st, ReqOf(e))
  /\ o.rc = RC(e.rc)
  /\ e.rc # 2 /\ ~e.post.dead => o.s = Abs(e.post) /\ Consistent(e.post)
Divergent == {i \in Idx : ~Steps[i].pre.dead /\ ~Conforms(Steps[i])}
Broken    == {i \in Idx : i > 1 /\ Steps[i].step > 0 /\ Steps[i].pre # Steps[i - 1].post}
Shown     == {i \in Divergent : Cardinality({j \in Divergent : j < i}) < 8}
Pruned    == {i \in Idx : \E d \in 1..K.maxd : Steps[i].pre.chans[d].ph = "ready" /\ Steps[i].post.chans[d].ph = "none"}
MaxOf(S) == IF S = {} THEN 0 ELSE CHOOSE x \in S : \A y \in S : y <= x

DescribeDiv(i) == LET e == Steps[i] o == Step(K, Abs(e.pre), ReqOf(e)) IN
  [line |-> i, seq |-> e.seq, step |-> e.step, req |-> e.req, rc |-> RC(e.rc), expected_rc |-> o.rc,
   pre |-> e.pre, post |-> e.post,
   expected |-> [h |-> o.s.h, hw |-> o.s.hw, mark |-> o.s.mark, chans |-> o.s.chans]]

Report == [ steps |-> Len(Steps), n_divergences |-> Cardinality(Divergent),
            divergences |-> SetToSeq({DescribeDiv(i) : i \in Shown}),
            broken |-> Cardinality(Broken),
            pruned_ready_steps |-> Cardinality(Pruned),
            max_height |-> MaxOf({Steps[i].post.h : i \in Idx}),
            refused |-> Cardinality({i \in Idx : Steps[i].rc = 0}),
            aborts |-> Cardinality({i \in Idx : Steps[i].rc = 2}) ]
ASSUME JsonSerialize(IOEnv.LC_REPORT, Report)
=============================================================================
