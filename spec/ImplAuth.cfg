SPECIFICATION Spec
VIEW View
INVARIANTS C17a C17b C17c
CHECK_DEADLOCK FALSE
