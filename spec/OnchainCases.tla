---------------------------- MODULE OnchainCases ----------------------------
(* Writes the case matrix of OnchainGen as ndjson (IOEnv.OC_OUT): line i is   *)
(* session i, a JSON array of steps.  IOEnv.OC_TIER = "quick" | "thorough";   *)
(* IOEnv.OC_GROUP = "all" or one of OnchainGen!GroupNames.                    *)
EXTENDS OnchainGen, Json, IOUtils

Cases == IF IOEnv.OC_GROUP = "all" THEN SetToSeq(AllSessions(IOEnv.OC_TIER))
         ELSE SetToSeq(GroupSessions(IOEnv.OC_TIER, IOEnv.OC_GROUP))

VARIABLE x
Init == x = 0
Next == UNCHANGED x
ASSUME LET c == Cases IN ndJsonSerialize(IOEnv.OC_OUT, c) /\ PrintT(<<"sessions", Len(c)>>)
=============================================================================
