------------------------------ MODULE Velocity ------------------------------
(***************************************************************************)
(* Velocity control of the validating signer (property C12).                *)
(*                                                                         *)
(* Mirrors                                                                  *)
(*   vls-core/src/util/velocity.rs   VelocityControl::insert / velocity     *)
(*   vls-core/src/node.rs            add_invoice, add_keysend,              *)
(*                                   check_onchain_tx, Node::new_full        *)
(*   vls-persist/src/model.rs        NodeStateEntry (what is durable)        *)
(*   vls-protocol-signer/src/approver.rs  VelocityApprover                  *)
(*                                                                         *)
(* Written "to be bound": the transition function is the pure operator      *)
(*   Step(s, r, P) -> [resp, s]                                             *)
(* with one arm per public entry point; Ghost(g, r, resp, P) updates the    *)
(* history (what was APPROVED, when) from observations only; the property   *)
(* is the invariant Inv_C12 over the ghost.  The same operators are used by *)
(*   MC_Velocity    TLC explores the model                        (leg A)   *)
(*   ImplVelocity   TLC explores the state graph extracted from the real    *)
(*                  implementation: every implementation edge is compared   *)
(*                  with Step, the monitor runs on the product     (leg B)   *)
(*   TraceVelocity  TLC validates recorded step sequences          (leg C)   *)
(*                                                                         *)
(* Values.  Time is in model seconds, amounts in model units (the harness    *)
(* scales: real second = t0 + t*scale, real msat = a*unit).  TOP stands for  *)
(* u64::MAX and TOP-k for u64::MAX - k*unit, so that saturating arithmetic   *)
(* and comparisons with the limit are homomorphic as long as "small"        *)
(* amounts stay far below TOP/2 (they are < 100 here).                      *)
(***************************************************************************)
EXTENDS Integers, Sequences, FiniteSets, TLC

TOP == 1000000000

Lesser(a, b) == IF a < b THEN a ELSE b
SatAdd(x, y) == IF x + y > TOP THEN TOP ELSE x + y        \* u64::saturating_add
IsTop(a) == a > TOP \div 2                                 \* a "near u64::MAX" amount

(***************************************************************************)
(* One control:  [start |-> start_sec, b |-> buckets]   b[1] = current      *)
(* bucket, b[Len] = oldest.  p = [B |-> bucket seconds, K |-> bucket count, *)
(* L |-> limit] (L = TOP: the control is disabled, "unlimited").            *)
(***************************************************************************)
Zeros(k)  == [i \in 1..k |-> 0]
NewCtl(p) == [start |-> 0, b |-> Zeros(p.K)]              \* new_with_intervals

RECURSIVE SumSatFrom(_, _)
SumSatFrom(b, i) == IF i > Len(b) THEN 0 ELSE SatAdd(b[i], SumSatFrom(b, i + 1))
Velocity(b) == SumSatFrom(b, 1)                            \* fn velocity(): saturating sum

\* the first half of insert(): shift out the expired buckets, re-align start_sec
Rotate(c, p, t) ==
  LET n  == IF t >= c.start THEN (t - c.start) \div p.B    \* (current_sec - start_sec) / interval
            ELSE TOP                \* u64 wrap-around (production arithmetic): a huge shift
      k  == Len(c.b)
      sh == Lesser(k, n)                                      \* min(len, nshift)
  IN [start |-> t - (t % p.B),
      b     |-> [i \in 1..k |-> IF i <= sh THEN 0 ELSE c.b[i - sh]]]

\* VelocityControl::insert(current_sec = t, velocity_msat = a) -> [ok, c]
Insert(c, p, t, a) ==
  LET r == Rotate(c, p, t)
      v == Velocity(r.b) IN
  IF SatAdd(v, a) > p.L
    THEN [ok |-> FALSE, c |-> r]                           \* refused: the rotation stays
    ELSE [ok |-> TRUE,  c |-> [r EXCEPT !.b[1] = SatAdd(r.b[1], a)]]

(***************************************************************************)
(* Spec change.  VelocityControl::update_spec(spec) - applied by           *)
(* Node::new_full to the restored payment and fee controls with the         *)
(* policy's specs, and by Node::update_velocity_controls - keeps a control   *)
(* whose limit, bucket length and bucket count match the spec, and replaces  *)
(* any other by a fresh, EMPTY control of the NEW spec's shape.  Hence       *)
(*   - a restart with an unchanged policy keeps what was counted             *)
(*     (UpdateSpec(c, p, p) = c: the Restart arm of Step), and               *)
(*   - a history after a spec change is a history from InitState of the new  *)
(*     spec (SpecChange): the cases of VelocityCases with `from` have the    *)
(*     harness create and use the real control / node under another spec     *)
(*     and then install the case's spec; the property then speaks about the  *)
(*     approvals since the change and the windows of the NEW spec.           *)
(***************************************************************************)
UpdateSpec(c, old, new) == IF old = new THEN c ELSE NewCtl(new)
SpecChange(c, old, new) == UpdateSpec(c, old, new)      \* old # new: = NewCtl(new), whatever c holds

(***************************************************************************)
(* Signer state:                                                            *)
(*   now   the clock (last timestamp used; timestamps never decrease)       *)
(*   pay   the payment control in memory      fee   the fee control         *)
(*   dpay, dfee   what the persistent store holds for them                  *)
(* Parameters P = [level, pay, fee, keep, persistFee, ns]:                      *)
(*   level "struct"   a bare VelocityControl; Restart = serde round trip    *)
(*                    through vls-persist's model (for a control of a real  *)
(*                    interval type followed by update_spec(same spec))     *)
(*         "approver" VelocityApprover over a refusing delegate; Restart =  *)
(*                    get_state / load_from_state                           *)
(*         "node"     a Node over a KVV store; Restart = restore_nodes      *)
(*   keep        does a restart keep the persisted controls?  At the pinned *)
(*               commit Node::new_full installs FRESH controls (FALSE).     *)
(*   persistFee  does check_onchain_tx persist the node state? (FALSE)      *)
(***************************************************************************)
(*   ns          number of NAMED payment hashes per kind (invoice / keysend) the requests may *)
(*               re-use; a request with h = 0 carries a fresh, never repeated hash.  inv[i]  *)
(*               is the amount registered in the node's `invoices` map for named hash i (-1: *)
(*               none), dinv what the store holds: slots 1..ns invoices, ns+1..2ns keysends. *)
NoInv(P)     == [i \in 1..(2 * P.ns) |-> -1]
InitState(P) == [now |-> 0, pay |-> NewCtl(P.pay), fee |-> NewCtl(P.fee),
                 dpay |-> NewCtl(P.pay), dfee |-> NewCtl(P.fee), inv |-> NoInv(P), dinv |-> NoInv(P)]

InvoiceOps == {"AddInvoice", "ProposeInvoice"}       \* Propose*: Approve::handle_proposed_* (has_payment
KeysendOps == {"AddKeysend", "ProposeKeysend"}       \* shortcut, approving approver, then Node::add_*)
PayOps == {"Insert"} \cup InvoiceOps \cup KeysendOps
FeeOps == {"Onchain"}
Slot(r, P) == IF r.op \in InvoiceOps THEN r.h ELSE P.ns + r.h
Resp(ok)   == [ok |-> ok, err |-> FALSE]
RespErr    == [ok |-> FALSE, err |-> TRUE]
Code(resp) == IF resp.err THEN -1 ELSE IF resp.ok THEN 1 ELSE 0     \* as recorded by the harness

\* request r = [op, dt, a, h]: advance the clock by dt, then call the entry point with amount a
\* (h > 0: for the payment with named hash h; h = 0: a fresh hash)
Step(s, r, P) ==
  LET t == s.now + r.dt IN
  CASE r.op \in PayOps ->
         IF P.level = "node" /\ r.h > 0 /\ s.inv[Slot(r, P)] # -1
         THEN \* the hash is already in `invoices` (has_payment / the shortcut at the top of add_invoice
              \* and add_keysend): answered without consulting the velocity control, nothing changes.
              \* An invoice is identified by the hash of its signed bytes: another amount is "a different
              \* invoice for the same payment hash" (error); a keysend is identified by its payment hash
              \* alone, so another amount is answered true and the registered amount stays what it was.
              IF r.op \in InvoiceOps /\ s.inv[Slot(r, P)] # r.a
              THEN [resp |-> RespErr, s |-> [s EXCEPT !.now = t]]
              ELSE [resp |-> Resp(TRUE), s |-> [s EXCEPT !.now = t]]
         ELSE
         \* add_invoice / add_keysend: insert into the payment control; on acceptance the payment is
         \* registered and the whole node state is persisted, on refusal nothing is (Ok(false))
         LET o   == Insert(s.pay, P.pay, t, r.a)
             reg == IF r.h > 0 THEN [s.inv EXCEPT ![Slot(r, P)] = r.a] ELSE s.inv IN
         [resp |-> Resp(o.ok),
          s |-> IF P.level # "node" THEN [s EXCEPT !.now = t, !.pay = o.c, !.dpay = o.c]
                ELSE IF o.ok THEN [s EXCEPT !.now = t, !.pay = o.c, !.dpay = o.c, !.dfee = s.fee,
                                            !.inv = reg, !.dinv = reg]
                ELSE [s EXCEPT !.now = t, !.pay = o.c]]
    [] r.op \in FeeOps ->
         \* check_onchain_tx: insert non_beneficial*1000 into the fee control
         LET o == Insert(s.fee, P.fee, t, r.a) IN
         [resp |-> Resp(o.ok),
          s |-> IF o.ok /\ P.persistFee
                THEN [s EXCEPT !.now = t, !.fee = o.c, !.dfee = o.c, !.dpay = s.pay, !.dinv = s.inv]
                ELSE [s EXCEPT !.now = t, !.fee = o.c]]
    [] r.op = "Restart" ->
         \* the invoices map is always restored from the store; the controls only if P.keep
         [resp |-> Resp(TRUE),
          s |-> IF P.level # "node" THEN [s EXCEPT !.now = t]
                ELSE IF P.keep THEN [s EXCEPT !.now = t, !.pay = UpdateSpec(s.dpay, P.pay, P.pay),
                                                 !.fee = UpdateSpec(s.dfee, P.fee, P.fee), !.inv = s.dinv]
                ELSE [s EXCEPT !.now = t, !.pay = NewCtl(P.pay), !.fee = NewCtl(P.fee), !.inv = s.dinv]]

(***************************************************************************)
(* Equivalence of states.  insert() begins by rotating to "now", so a       *)
(* control is characterised by its buckets rotated to now, and the whole    *)
(* state by that plus the position of now inside the current bucket: the    *)
(* lazy rotation of a refused insert and a translation of all times by a    *)
(* multiple of the bucket length are not observable.                        *)
(***************************************************************************)
Norm(s, P) == [op |-> s.now % P.pay.B, of |-> s.now % P.fee.B,
               pay  |-> Rotate(s.pay,  P.pay, s.now).b, fee  |-> Rotate(s.fee,  P.fee, s.now).b,
               dpay |-> Rotate(s.dpay, P.pay, s.now).b, dfee |-> Rotate(s.dfee, P.fee, s.now).b,
               inv |-> s.inv, dinv |-> s.dinv]

(***************************************************************************)
(* History (ghost) variables, computed from OBSERVATIONS only: the request  *)
(* (dt, a) and the reply.  h[i] = total amount approved exactly i-1 seconds *)
(* ago, for ages 0..W where W = (K-1)*B is the longest window the property  *)
(* speaks about ("the tracked interval minus one bucket").  Older approvals *)
(* are forgotten: no window of length <= W ending now or later contains     *)
(* them.  Totals are capped at TOP+1 (> every limit).                       *)
(***************************************************************************)
W(p) == (p.K - 1) * p.B
CapAdd(x, y) == IF x + y > TOP THEN TOP + 1 ELSE x + y
InitHist(p) == Zeros(W(p) + 1)
\* seen[i]: named payment i has been answered `true` before, i.e. it IS approved: a later `true`
\* for it is the same approval again (idempotent) and is not counted a second time
InitGhost(P) == [pay |-> InitHist(P.pay), fee |-> InitHist(P.fee), seen |-> [i \in 1..(2 * P.ns) |-> FALSE]]

Age(h, dt)   == [i \in 1..Len(h) |-> IF i - dt >= 1 THEN h[i - dt] ELSE 0]
Credit(h, a) == [h EXCEPT ![1] = CapAdd(h[1], a)]

Ghost(g, r, resp, P) ==
  LET gp == Age(g.pay, r.dt)
      gf == Age(g.fee, r.dt) IN
  [pay |-> IF r.op \in PayOps /\ resp.ok /\ (r.h = 0 \/ ~g.seen[Slot(r, P)]) THEN Credit(gp, r.a) ELSE gp,
   fee |-> IF r.op \in FeeOps /\ resp.ok THEN Credit(gf, r.a) ELSE gf,
   seen |-> IF r.op \in PayOps /\ resp.ok /\ r.h > 0 THEN [g.seen EXCEPT ![Slot(r, P)] = TRUE] ELSE g.seen]

\* one monitor at a time: the history of the control that is not monitored is not kept (on a
\* broken implementation it could grow without bound and the product would never be exhausted)
GhostFor(mon, g, r, resp, P) ==
  LET n == Ghost(g, r, resp, P) IN
  [pay |-> IF mon = "fee" THEN g.pay ELSE n.pay,
   fee |-> IF mon = "pay" THEN g.fee ELSE n.fee,
   seen |-> n.seen]

RECURSIVE CapSum(_, _, _)
CapSum(h, i, j) == IF i > j THEN 0 ELSE CapAdd(CapSum(h, i + 1, j), h[i])

(***************************************************************************)
(* C12.  "The sum of the amounts approved within any time window no longer  *)
(* than the tracked interval minus one bucket never exceeds the limit."     *)
(* Windows are [now-j+1 .. now-i+1] over the retained ages; since this is   *)
(* an invariant (checked in every state) every window is examined when its  *)
(* right end is "now".  A disabled control (L = TOP) has no limit.          *)
(***************************************************************************)
WindowsOK(h, p) == p.L < TOP => \A i \in 1..Len(h) : \A j \in i..Len(h) : CapSum(h, i, j) <= p.L
\* amounts are non-negative, so the widest window dominates: same predicate, cheaper
TotalOK(h, p)   == p.L < TOP => CapSum(h, 1, Len(h)) <= p.L

Inv_C12_pay(g, P)  == TotalOK(g.pay, P.pay)
Inv_C12_fee(g, P)  == TotalOK(g.fee, P.fee)
Inv_C12(g, P)      == Inv_C12_pay(g, P) /\ Inv_C12_fee(g, P)
Inv_C12_windows(g, P) == WindowsOK(g.pay, P.pay) /\ WindowsOK(g.fee, P.fee)

(***************************************************************************)
(* Bounded request alphabets and the case matrix (the single source of what *)
(* the harness explores).  A case = parameters + concretisation hints for   *)
(* the harness (kind of real control, seconds per model second, msat per    *)
(* model unit, epoch offset) + the request alphabet.                        *)
(***************************************************************************)
ReqH(op, dt, a, h) == [op |-> op, dt |-> dt, a |-> a, h |-> h]
Req(op, dt, a) == ReqH(op, dt, a, 0)
RestartReq == Req("Restart", 0, 0)

AllDts(p)  == 0..(p.K * p.B + 1)
\* bucket-boundary deltas: stay, next second, one bucket, around the window end, full expiry
EdgeDts(p) == {0, 1, p.B - 1, p.B, p.B + 1, W(p) - 1, W(p), W(p) + 1, p.K * p.B, p.K * p.B + 1}
                \cap 0..(p.K * p.B + 1)
\* amounts: 0 .. L+1 and the saturating extremes; near a huge limit: around the limit
Amounts(p, tops) == IF IsTop(p.L) THEN {0, 1, 2, p.L - 2, p.L - 1, p.L, TOP}
                    ELSE (0..(p.L + 1)) \cup tops

Ctl(b, k, l) == [B |-> b, K |-> k, L |-> l]
Unl(b, k)    == Ctl(b, k, TOP)
=============================================================================
