SPECIFICATION Spec
CONSTANTS
  Letters = {0, 1}
  W = 2
  MaxKey = 1
  MaxVal = 1
  MaxRecs = 2
  MaxN = 2
  Framed = FALSE
  Mon = "C17c"
VIEW View
INVARIANTS C17a C17b C17c
CHECK_DEADLOCK FALSE
