SPECIFICATION Spec
CONSTANTS
  KS = 1
  KR = 1
  Mags = {"n", "g"}
VIEW View
INVARIANTS C07
PROPERTIES ClosedAfterSign
CHECK_DEADLOCK FALSE
