SPECIFICATION Spec
CONSTANTS
  KS = 1
  KR = 1
  Mags = {"n", "g"}
  Saturate = TRUE
VIEW View
INVARIANTS C07
PROPERTIES ClosedAfterSign
CHECK_DEADLOCK FALSE
