----------------------------- MODULE KeysCases -----------------------------
(* Everything the harness is asked to do for C18 is generated here, from the  *)
(* specification:                                                            *)
(*   KEYS_WHAT = "explore": the request alphabet + the graphs to extract      *)
(*               (configuration x id family x bounds) for leg B               *)
(*   KEYS_WHAT = "scripts": the case matrix of leg C - every creation order   *)
(*               of every non-empty subset of the ids, every subset of them   *)
(*               set up, every restart point; and the id-separation families  *)
(*               (ids that differ in a single bit of a single byte)           *)
(* Output: one JSON document in KEYS_OUT.                                      *)
EXTENDS Keys, Json, IOUtils, SequencesExt

Nat0(x) == CHOOSE n \in 0..64 : ToString(n) = x
NIds == Nat0(IOEnv.KEYS_NIDS)
NMax == Nat0(IOEnv.KEYS_NMAX)
Side == IOEnv.KEYS_SIDE          \* "life" | "tree"
What == IOEnv.KEYS_WHAT
Tier == IOEnv.KEYS_TIER          \* "quick" | "thorough"

Styles == <<"native", "ldk">>                 \* LND is outside C18 (order dependent by design)
Seeds  == <<"s1", "s2", "s3">>
Nets   == <<"regtest", "testnet", "bitcoin">>
\* configuration number ci = position in this list (stable across legs)
Configs == [k \in 1..(2 * 3 * 3) |->
              [style |-> Styles[((k - 1) \div 9) + 1],
               seed  |-> Seeds[(((k - 1) \div 3) % 3) + 1],
               net   |-> Nets[((k - 1) % 3) + 1]]]
\* the statement quantifies over seeds, styles and networks; a Latin-square style selection
\* keeps the quick tier small: every style, seed and network occurs
QuickCfgs    == {1, 14}                        \* native/s1/regtest, ldk/s2/testnet
ThoroughCfgs == {1, 9, 11, 15}                \* both styles, all seeds and networks occur
ExploreCfgs  == IF Tier = "quick" THEN QuickCfgs ELSE ThoroughCfgs
ScriptCfgs   == IF Tier = "quick" THEN {1, 5, 9, 11, 15, 16} ELSE 1..18   \* quick: each style x each seed

K(fam, n) == [style |-> "native", nids |-> n, nmax |-> NMax, oid |-> OidOf(fam)]

---------------------------------------------------------------------------
\* leg B: alphabet and graphs
Alphabet ==
  LET all == Requests(K("low", NIds), {"id0", "perm"}, {"A", "B"}) IN
  IF Side = "life"
  THEN NodeRequests \cup
       {r \in all : /\ r.op \in LifeOps
                    \* value variant B only for id 1 (a differing re-setup must be refused)
                    /\ (r.op = "Setup" /\ r.v = "B" => r.id = 1 /\ ~r.al)
                    \* the permanent id is given to id 2 (and to id 1 when there is no id 2)
                    /\ (r.op = "Setup" /\ r.al => r.id = (IF NIds >= 2 THEN 2 ELSE 1))
                    /\ (r.op \in ObsOps /\ r.via = "perm" => r.id = (IF NIds >= 2 THEN 2 ELSE 1))
                    /\ (r.op = "Point" => r.n \in {0, 1, 2, NMax + 1})
                    /\ (r.op = "Secret" => r.n \in {0, NMax})}
  ELSE {r \in all : /\ r.op \in TreeOps
                    /\ (r.op \in ObsOps /\ r.op # "Get" => r.via = "id0")
                    /\ (r.op = "Provide" => r.to = 1)      \* one store: the counterparty of channel 1
                    /\ (r.op = "Get" => r.to = 1)}
AlphaSeq == SetToSeq(Alphabet)

Prepare(n) == [k \in 1..(3 * n) |->
                 LET i == ((k - 1) \div 3) + 1 IN
                 CASE (k - 1) % 3 = 0 -> [op |-> "New", id |-> i]
                   [] (k - 1) % 3 = 1 -> [op |-> "Setup", id |-> i, al |-> (i = 2), v |-> (IF i = 1 THEN "A" ELSE "B")]
                   [] OTHER           -> [op |-> "Advance", id |-> i]]

\* thorough: every selected configuration with family "low"; the peer-only family (all dbids
\* equal, so forgetting one channel blocks every later creation) for one configuration per style
GraphKeys == IF Side = "life" /\ Tier = "thorough"
             THEN {<<c, "low">> : c \in ExploreCfgs} \cup {<<5, "peer0">>, <<15, "peer0">>}
             ELSE {<<c, "low">> : c \in ExploreCfgs}
Graphs == SetToSeq({ [ci |-> k[1], cfg |-> Configs[k[1]], fam |-> k[2], nids |-> NIds, nmax |-> NMax,
                      init |-> IF Side = "tree" THEN Prepare(NIds) ELSE <<>>]
                     : k \in GraphKeys })

ExploreDoc == [requests |-> AlphaSeq,
               obs      |-> [k \in 1..Len(AlphaSeq) |-> AlphaSeq[k].op \in ObsOps],
               graphs   |-> Graphs,
               configs  |-> Configs]

---------------------------------------------------------------------------
\* leg C: scripts
RECURSIVE Perms(_)
Perms(S) == IF S = {} THEN {<<>>}
            ELSE UNION {{<<x>> \o p : p \in Perms(S \ {x})} : x \in S}
Orders(n) == UNION {Perms(S) : S \in (SUBSET (1..n)) \ {{}}}

RECURSIVE Cat(_)
Cat(ss) == IF ss = <<>> THEN <<>> ELSE Head(ss) \o Cat(Tail(ss))

Watch(i) == << [op |-> "Basepoints", id |-> i, via |-> "id0"],
               [op |-> "Point", id |-> i, n |-> 0, via |-> "id0"],
               [op |-> "Point", id |-> i, n |-> 1, via |-> "id0"],
               [op |-> "Point", id |-> i, n |-> NMax + 1, via |-> "id0"],
               [op |-> "Secret", id |-> i, n |-> 0, via |-> "id0"],
               [op |-> "Secret", id |-> i, n |-> NMax, via |-> "id0"] >>

\* create in the given order; members of `ready` are set up and advanced right after their
\* creation; a restart after the p-th creation (p = 0: before anything, p = -1: never);
\* in the end everything observable is observed, then once more after a final restart
Script(order, ready, p) ==
  LET part(k) == LET i == order[k] IN
                 <<[op |-> "New", id |-> i]>>
                 \o (IF i \in ready
                     THEN <<[op |-> "Setup", id |-> i, al |-> (i = 2), v |-> (IF i % 2 = 1 THEN "A" ELSE "B")],
                            [op |-> "Advance", id |-> i]>>
                     ELSE <<>>)
                 \o (IF p = k THEN <<[op |-> "Restart"]>> ELSE <<>>)
      watch == Cat([k \in 1..Len(order) |-> Watch(order[k])])
  IN (IF p = 0 THEN <<[op |-> "Restart"]>> ELSE <<>>)
     \o Cat([k \in 1..Len(order) |-> part(k)])
     \o watch

LifeScripts == { [fam |-> "low", nids |-> NIds, nmax |-> NMax, reqs |-> Script(o, r, p)]
                 : <<o, r, p>> \in { <<o, r, p>> \in (Orders(NIds) \X (SUBSET (1..NIds)) \X (-1..NIds)) :
                                       r \subseteq Range(o) /\ p <= Len(o) } }

\* id separation: family flip<p> has 9 ids: a base id and the 8 ids that differ from it in
\* exactly one bit of byte p (0..32 peer id, 33..40 dbid): created on one node, observed
FlipScript == Cat([i \in 1..9 |-> << [op |-> "New", id |-> i],
                                     [op |-> "Basepoints", id |-> i, via |-> "id0"],
                                     [op |-> "Point", id |-> i, n |-> 0, via |-> "id0"],
                                     [op |-> "Point", id |-> i, n |-> 1, via |-> "id0"] >>])
FlipScripts == { [fam |-> "flip" \o ToString(p), nids |-> 9, nmax |-> NMax, reqs |-> FlipScript] : p \in 0..40 }

\* other id families (ids differ in a middle / the last dbid byte, or only in the peer id):
\* both creation orders of the extreme ids, one set up, restart, forget in between
FamScripts == { [fam |-> f, nids |-> 3, nmax |-> NMax,
                 reqs |-> Script(o, {o[1]}, 1) \o <<[op |-> "Forget", id |-> o[2]], [op |-> "Restart"]>>
                          \o Watch(o[1]) \o Watch(o[2])]
                : f \in {"mid", "high", "peer0", "peer32"}, o \in {<<1, 3>>, <<3, 1>>, <<2, 3, 1>>} }

\* node-level and wallet keys: the reference term, then the node's answer, for every key; the same
\* questions again with a channel around and after a restart.  Run on EVERY configuration (both
\* tiers), so that the documented cross-style relations (same seed and network) are exercised.
NodeOrder == <<"account", "shutdown", "hb", "wpkh0", "wpkh1", "wpkh7", "tr1", "sh1",
               "bolt12", "persist", "nodeid", "onion">>
NodeRef(w) == CHOOSE r \in NodeRequests : r.op = "Ref" /\ r.which = w
AskAll == [k \in 1..Len(NodeOrder) |-> [op |-> "NodeKey", which |-> NodeOrder[k]]]
NodeScript == Cat([k \in 1..Len(NodeOrder) |-> <<NodeRef(NodeOrder[k]), [op |-> "NodeKey", which |-> NodeOrder[k]]>>])
              \o <<[op |-> "New", id |-> 1], [op |-> "Setup", id |-> 1, al |-> FALSE, v |-> "A"]>> \o AskAll
              \o <<[op |-> "Restart"]>> \o AskAll
NodeScripts == << [fam |-> "low", nids |-> 1, nmax |-> NMax, reqs |-> NodeScript],
                  \* a second, independently created node that is asked straight away
                  [fam |-> "low", nids |-> 1, nmax |-> NMax, reqs |-> AskAll] >>

ScriptDoc == [configs |-> Configs,
              allcfgs |-> [k \in 1..Len(Configs) |-> k],
              nodescripts |-> NodeScripts,
              cfgs    |-> SetToSeq(ScriptCfgs),
              scripts |-> SetToSeq(LifeScripts) \o SetToSeq(FamScripts) \o SetToSeq(FlipScripts)]

VARIABLE x
Init == x = 0
Next == UNCHANGED x
ASSUME JsonSerialize(IOEnv.KEYS_OUT, IF What = "explore" THEN ExploreDoc ELSE ScriptDoc)
=============================================================================
