-------------------------- MODULE PaymentsAlphabet --------------------------
(* Prints a request alphabet / case matrix of Payments.tla (configuration     *)
(* IOEnv.PM_CFG) as JSON: the harness explores the real node with exactly the  *)
(* channels, hashes and requests the specification names, under the policy     *)
(* (payment velocity limit vlim) the configuration names.                      *)
EXTENDS Payments, Json, IOUtils, SequencesExt

Cfg == Config(IOEnv.PM_CFG)
VARIABLE x
Init == x = 0
Next == UNCHANGED x
ASSUME Cfg.reqs # {}
ASSUME JsonSerialize(IOEnv.PM_OUT, [chans |-> SetToSeq(Cfg.chans), hashes |-> SetToSeq(Cfg.hashes),
                                    reqs |-> SetToSeq(Cfg.reqs), vlim |-> Cfg.vlim])
=============================================================================
