-------------------------- MODULE TraceAuthClient ---------------------------
(***************************************************************************)
(* Leg C for the client side of the read exchange: validates sessions that  *)
(* the harness (`authcli run|walk`) ran through the REAL                    *)
(* lightning_storage_server::client::PrivClient over gRPC against an honest *)
(* endpoint behind a recording / replaying intermediary.  One record per    *)
(* step:  [seq, step, req, resp = [ok, err, nonce, recs]]  where nonce is   *)
(* what the real client put on the wire for that get.                       *)
(*                                                                         *)
(* Classic trace specification: the behaviour walks through the steps       *)
(* carrying the model's session state c (every step is compared with        *)
(* Auth!CStep: conformance, reported, not an alarm) and the ghost state of   *)
(* the monitors (C17d freshness of the nonces, C17b refusal of replayed      *)
(* replies).  The invariants are evaluated on the final state; Done writes   *)
(* the report there.                                                         *)
(***************************************************************************)
EXTENDS Auth, Json, IOUtils, SequencesExt

Steps == ndJsonDeserialize(IOEnv.AUTH_STEPS)
K     == [W |-> 8, framed |-> IOEnv.AUTH_FRAMED = "true"]

VARIABLES l, c, g, acc
\* acc: what the report needs [div: diverging lines (first 20), ndiv, viol: key -> [count, line], gets, accepted]

Obs(e) == [len |-> Len(e.resp.nonce), id |-> e.resp.nonce]

Init == /\ l = 1 /\ c = InitC /\ g = InitCG
        /\ acc = [div |-> <<>>, ndiv |-> 0, viol |-> {}, gets |-> 0, accepted |-> 0, refused_replays |-> 0, maxn |-> 0]

Bump(viol, ks, line) ==
  {[v EXCEPT !.count = @ + 1] : v \in {x \in viol : x.key \in ks}}
  \cup {x \in viol : x.key \notin ks}
  \cup {[key |-> k, count |-> 1, line |-> line] : k \in {kk \in ks : \A x \in viol : x.key # kk}}

Next == /\ l <= Len(Steps)
        /\ LET e  == Steps[l]
               c0 == IF e.step = 0 THEN InitC ELSE c
               g0 == IF e.step = 0 THEN InitCG ELSE g
               o  == CStep(c0, e.req, K)
               conf == /\ o.resp.ok = e.resp.ok
                       /\ AsSet(o.resp.recs) = AsSet(e.resp.recs) /\ Len(o.resp.recs) = Len(e.resp.recs)
               ks == CKeys(g0, e.req, e.resp.ok, Obs(e))
               isget == e.req.op # "Put"
           IN /\ c' = o.c
              /\ g' = CGhost(g0, e.req, e.resp.ok, Obs(e))
              /\ acc' = [div  |-> IF ~conf /\ Len(acc.div) < 20
                                  THEN Append(acc.div, [line |-> l, seq |-> e.seq, step |-> e.step, req |-> e.req,
                                                        resp |-> e.resp, expected |-> o.resp])
                                  ELSE acc.div,
                         ndiv |-> acc.ndiv + (IF conf THEN 0 ELSE 1),
                         viol |-> Bump(acc.viol, ks, l),
                         gets |-> acc.gets + (IF isget THEN 1 ELSE 0),
                         accepted |-> acc.accepted + (IF isget /\ e.resp.ok THEN 1 ELSE 0),
                         refused_replays |-> acc.refused_replays + (IF e.req.op = "GetReplay" /\ ~e.resp.ok THEN 1 ELSE 0),
                         maxn |-> IF o.c.n > acc.maxn THEN o.c.n ELSE acc.maxn]
        /\ l' = l + 1
Spec == Init /\ [][Next]_<<l, c, g, acc>>

AtEnd == l > Len(Steps)
Report == [ steps |-> Len(Steps), gets |-> acc.gets, accepted_gets |-> acc.accepted,
            refused_replays |-> acc.refused_replays, max_gets_in_session |-> acc.maxn,
            divergence_count |-> acc.ndiv, divergences |-> acc.div,
            violations |-> SetToSeq({[key |-> v.key, count |-> v.count, line |-> v.line,
                                      example |-> [seq |-> Steps[v.line].seq, step |-> Steps[v.line].step,
                                                   req |-> Steps[v.line].req, resp |-> Steps[v.line].resp]] :
                                     v \in acc.viol}) ]
\* listed FIRST among the invariants: writes the report when the last step has been judged
Done == AtEnd => JsonSerialize(IOEnv.AUTH_REPORT, Report)

\* the monitors, over everything observed
C17b == AtEnd => \A v \in acc.viol : v.key[1] # "C17b"
C17d == AtEnd => \A v \in acc.viol : v.key[1] # "C17d"
=============================================================================
