---------------------------- MODULE KVVAlphabet ----------------------------
(* Prints the request alphabets of KVV.tla as JSON: the harness explores the  *)
(* real stores with exactly the requests the specification names.             *)
(* KVV_JOBS names a JSON file: a list of [kind, nkeys, maxver, out]            *)
(*   kind   "pair" (memory + redb in lockstep) or "cloud"                      *)
(*   nkeys  2 -> {k, kk}   3 -> {k, kk, l}                                     *)
(*   maxver versions 0..maxver in put_with_version / put_batch                 *)
(* Each output file is [keys: the key universe in store order, reqs: ...].     *)
EXTENDS KVV, Json, IOUtils, SequencesExt

Jobs == JsonDeserialize(IOEnv.KVV_JOBS)
Xs == {"a", "b", ""}
KeysOf(n) == IF n = 3 THEN {"k", "kk", "l"} ELSE {"k", "kk"}
PsOf(n)   == IF n = 3 THEN {"", "k", "kk", "ka", "l"} ELSE {"", "k", "kk", "ka"}

Reqs(j) == IF j.kind = "pair"
           THEN PairRequests(KeysOf(j.nkeys), j.maxver, Xs, {"a", "b"}, PsOf(j.nkeys))
           \* cloud batches are put_with_version in a loop: a few are enough
           ELSE CloudRequests(KeysOf(j.nkeys), j.maxver, Xs, KeysOf(j.nkeys), {0, j.maxver}, {"a"}, {"", "k"})

VARIABLE x
Init == x = 0
Next == UNCHANGED x
ASSUME \A i \in DOMAIN Jobs :
         JsonSerialize(Jobs[i].out, [keys |-> KeyOrder, reqs |-> SetToSeq(Reqs(Jobs[i]))])
=============================================================================
