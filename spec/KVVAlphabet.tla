---------------------------- MODULE KVVAlphabet ----------------------------
(* Prints the request alphabets of KVV.tla as JSON: the harness explores the  *)
(* real stores with exactly the requests the specification names.             *)
(*   KVV_KIND   "pair" (memory + redb in lockstep) or "cloud"                 *)
(*   KVV_NKEYS  2 -> {k, kk}   3 -> {k, kk, l}                                *)
(*   KVV_MAXVER versions 0..MAXVER in put_with_version / put_batch            *)
EXTENDS KVV, Json, IOUtils, SequencesExt

Num(s) == CHOOSE n \in 0..16 : ToString(n) = s
MaxVer == Num(IOEnv.KVV_MAXVER)
Ks == IF IOEnv.KVV_NKEYS = "3" THEN {"k", "kk", "l"} ELSE {"k", "kk"}
Ps == IF IOEnv.KVV_NKEYS = "3" THEN {"", "k", "kk", "ka", "l"} ELSE {"", "k", "kk", "ka"}
Xs == {"a", "b", ""}

Reqs == IF IOEnv.KVV_KIND = "pair"
        THEN PairRequests(Ks, MaxVer, Xs, {"a", "b"}, Ps)
        \* cloud batches are put_with_version in a loop: a few pairs are enough
        ELSE CloudRequests(Ks, MaxVer, Xs, Ks, {0, MaxVer}, {"a"}, {"", "k"})

VARIABLE x
Init == x = 0
Next == UNCHANGED x
ASSUME JsonSerialize(IOEnv.KVV_OUT, [keys |-> KeyOrder, reqs |-> SetToSeq(Reqs)])
=============================================================================
