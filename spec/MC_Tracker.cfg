SPECIFICATION Spec
CONSTANTS
  Interval = 4
  MaxReorg = 2
  Trusted = {"o1", "o2"}
  NL = 1
  H0 = 2
  HMax = 5
  MaxDev = 1
  Deep = FALSE
  PopFirst = FALSE
  KeepDecode = FALSE
CONSTRAINT Bound
VIEW View
INVARIANTS C13a C13b C13c TypeOK WindowLinked
CHECK_DEADLOCK FALSE
