SPECIFICATION Spec
CONSTANTS
  Kind = "pair"
  NKeys = 2
  MaxVer = 2
  MaxW = 2
  BatchSequential = FALSE
  CloudChecksStaged = FALSE
  Ignore = {"diff:results:BatchDup:mem=ok,redb=vm"}
CONSTRAINT Bound
VIEW View
INVARIANTS C16 TypeOK
CHECK_DEADLOCK FALSE
