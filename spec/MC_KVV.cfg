\* Leg A by hand:  tlc -workers 8 -config MC_KVV.cfg MC_KVV.tla      (a few seconds)
\* tools/kvv.py writes its own copies of this file (Kind = "pair" / "cloud", the switches of
\* spec/kvv_switches.json, Ignore = the violation classes already reported in that run).
\* With Ignore = {} TLC stops at the first class of violation the MODEL exhibits; at the pinned
\* commit those are the two below (both reproduced on the real stores by leg B).
SPECIFICATION Spec
CONSTANTS
  Kind = "pair"
  NKeys = 2
  MaxVer = 2
  MaxW = 1
  BatchSequential = FALSE
  CloudChecksStaged = FALSE
  Ignore = {"diff:results:BatchDup:mem=ok,redb=vm", "cloud:readable-version-lowered"}
CONSTRAINT Bound
VIEW View
INVARIANTS C16 TypeOK
CHECK_DEADLOCK FALSE
