------------------------------- MODULE MC_Auth -------------------------------
(***************************************************************************)
(* Leg A: TLC explores the Auth model itself (design level), with a small   *)
(* byte alphabet and a narrow version field.  One monitor at a time:        *)
(*                                                                         *)
(*  Mon = "C17c"  the signer wrote the record list w (every list of the     *)
(*                universe is an initial state); the adversary answers a    *)
(*                read with ANY list of the universe and the genuine tag    *)
(*  Mon = "C17a"  the signer sealed the record w[1]; the adversary presents *)
(*                ANY key / version / value of the universe with that tag   *)
(*                (or a modified tag, or a blob shorter than a tag)         *)
(*  Mon = "C17b"  a session drawing up to MaxN nonces; the adversary shows  *)
(*                tags made in every context it can obtain (roles, the zero *)
(*                nonce, earlier nonces, contexts absorbing record bytes)   *)
(*                to every kind of check                                    *)
(*                                                                         *)
(*  Mon = "C17d"  the client side of the read exchange (PrivClient): w is the *)
(*                session state [n, store, replies]; puts of next versions, *)
(*                honest gets and gets answered with ANY earlier recorded    *)
(*                reply; freshness of the nonces (C17d) and refusal of       *)
(*                replayed replies (C17b)                                    *)
(*                                                                         *)
(* Framed = FALSE is the code at HEAD; a violated invariant is then a       *)
(* HYPOTHESIS about the code which leg B must reproduce on the real crates. *)
(* Framed = TRUE  is the proposed repair; the invariants must hold.         *)
(***************************************************************************)
EXTENDS Auth

CONSTANTS Letters,      \* byte values used in keys, versions and values
          W,            \* width of the version field
          MaxKey, MaxVal, MaxRecs,
          MaxN,         \* nonces drawn in a session (C17b)
          Framed, Mon

VARIABLES s, w, g, last

K == [W |-> W, framed |-> Framed]

Strings(n) == UNION {[1..m -> Letters] : m \in 0..n}
Versions   == [1..W -> Letters]
Records    == {Rec(k, v, x) : k \in Strings(MaxKey), v \in Versions, x \in Strings(MaxVal)}
Lists      == UNION {[1..m -> Records] : m \in 0..MaxRecs}

\* C17b: a few lists, every context
SmallLists == LET a == CHOOSE l \in Letters : TRUE
                  r1 == Rec(<<a>>, [i \in 1..W |-> a], <<a>>)
                  r2 == Rec(<<>>, [i \in 1..W |-> a], <<>>) IN
              {<<>>, <<r1>>, <<r2>>, <<r1, r2>>}
PlainCtxs == {RoleCtx(1), RoleCtx(2), ZeroCtx} \cup {NonceCtx(d) : d \in 0..MaxN}
Ops       == {"CheckGet", "CheckPutAck", "ServerCheckClient"}
TagEdits  == {NoEdit, [t |-> "flip", n |-> 0], [t |-> "trunc", n |-> 31]}

ReqsB(st) ==
       {Req(op, "lss", c, l, ed, "core", l2, "ctx") :
          op \in Ops, c \in PlainCtxs, l \in SmallLists, l2 \in SmallLists, ed \in TagEdits}
  \cup UNION { {Req(op, "lss", m.ctx, m.l, NoEdit, "core", l2, "absorb") :
                  m \in Absorbs(ExpectedCtx([op |-> op]), l2, 2, W)} : op \in Ops, l2 \in SmallLists }

Init == /\ last = [op |-> "init", ok |-> TRUE]
        /\ g = IF Mon = "C17d" THEN InitCG ELSE InitGhost
        /\ CASE Mon = "C17c" -> s = [n |-> 1] /\ w \in Lists
             [] Mon = "C17a" -> s = [n |-> 0] /\ w \in {<<r>> : r \in Records}
             [] Mon = "C17b" -> s = InitS /\ w = <<>>
             [] Mon = "C17d" -> s = InitS /\ w = InitC

Apply(r) == LET o == Step(s, r, K) IN
            /\ Applicable(s, r)
            /\ s' = o.s
            /\ g' = Ghost(g, s, r, o.resp, K)
            /\ last' = [op |-> r.op, ok |-> o.resp.ok, r |-> r]
            /\ UNCHANGED w

\* client session: the model's get number i goes out with the fresh nonce symbol of that get
CKeysMC == {<<107>>, <<107, 50>>}
CPrefixes == {<<>>, <<107, 50>>}
ApplyC(r) == LET o == CStep(w, r, K) IN
             /\ w' = o.c
             /\ g' = CGhost(g, r, o.resp.ok, ModelNonce(o.c.n))
             /\ last' = [op |-> r.op, ok |-> o.resp.ok, r |-> r]
             /\ UNCHANGED s

Next == CASE Mon = "C17d" -> \E r \in CReqs(w, CKeysMC, CPrefixes, MaxN, MaxN + 1) : ApplyC(r)
          [] Mon = "C17c" ->
               \E l2 \in Lists : Apply(Req("CheckGet", "lss", NonceCtx(0), w, NoEdit, "core", l2, "any"))
          [] Mon = "C17a" ->
               \E r2 \in Records, ed \in TagEdits \cup {[t |-> "short", n |-> 31]} :
                  Apply(Req("Open", "lss", RoleCtx(0), w, ed, "lss", <<r2>>, "any"))
          [] Mon = "C17b" ->
               \/ s.n < MaxN /\ Apply(NewNonceReq)
               \/ \E r \in ReqsB(s) : Apply(r)

Spec == Init /\ [][Next]_<<s, w, g, last>>
View == <<s, w, g>>

C17a == Inv_C17a(g)
C17b == Inv_C17b(g)
C17c == Inv_C17c(g)
C17d == Inv_C17d(g)

\* vacuity guards: acceptance and refusal both occur (checked as properties expected to FAIL when
\* listed as invariants; the check lists them in a separate run)
NeverAccepts == last.op \in {"init", "NewNonce"} \/ ~last.ok
NeverRefuses == last.ok

\* design-level sanity of the generator: every list with the same unframed bytes is found by Parses
ParsesComplete ==
  Mon = "C17c" =>
    {l \in Lists : EncList(l, U(K)) = EncList(w, U(K))} = ParsesUpTo(EncList(w, U(K)), MaxRecs, W) \cap Lists
=============================================================================
