----------------------------- MODULE ImplChannel -----------------------------
(***************************************************************************)
(* Leg B: the state graph EXTRACTED FROM THE REAL IMPLEMENTATION (harness   *)
(* `chan explore`: every request of the alphabet applied to every reachable *)
(* concrete state) is loaded here and                                       *)
(*   1. every implementation edge is compared with Channel!Step            *)
(*      (conformance; divergences are written to CH_REPORT),                *)
(*   2. TLC explores the product  implementation graph x ghost monitor and  *)
(*      checks the listed properties on it (invariants C01 C02 C03),        *)
(*   3. the frame (C10) and restart (C11) observations recorded on every    *)
(*      edge are evaluated.                                                 *)
(*                                                                         *)
(* Nodes[i+1] = [id, pre, x, e] is the implementation state with id i: pre  *)
(* its projection onto Channel's variables, x whether it was expanded, e    *)
(* r0 whether a signer restored from the store equals the running one, e    *)
(* its outgoing edges, each a tuple                                         *)
(*   <<to, request index, ok, sec, pt, flag, changed mask, restart equal>>  *)
(* (changed mask: 1 enforcement state, 2 node state, 4 store).              *)
(***************************************************************************)
EXTENDS Channel, Json, IOUtils, SequencesExt

Nodes    == ndJsonDeserialize(IOEnv.CH_NODES)
Alphabet == JsonDeserialize(IOEnv.CH_ALPHABET)
K == [revokeChecksClosed |-> IOEnv.CH_REVOKE_CHECKS_CLOSED = "true",
      atomicRevocation   |-> IOEnv.CH_ATOMIC_REVOCATION = "true"]

RespOf(e) == [ok |-> e[3] = 1, sec |-> e[4], pt |-> e[5], flag |-> e[6]]

VARIABLES node, g, last

Base == CHOOSE n \in 0..100000 : ToString(n) = IOEnv.CH_BASE
Init == /\ node = 0
        /\ g = PrefixGhost(Base)
        /\ last = [op |-> "init"]

Next == \E j \in DOMAIN Nodes[node + 1].e :
          LET nd == Nodes[node + 1]
              e == nd.e[j] IN
          /\ e[1] >= 0
          /\ node' = e[1]
          /\ g' = Ghost(g, Alphabet[e[2]], RespOf(e), nd.pre.phase, nd.pre.nh, IOEnv.CH_MON)
          /\ last' = [from |-> node, req |-> Alphabet[e[2]], ok |-> e[3] = 1, sec |-> e[4]]

Spec == Init /\ [][Next]_<<node, g, last>>
View == <<node, g>>

C01 == Inv_C01(g)
C02 == Inv_C02(g)
C03 == Inv_C03(g)

---------------------------------------------------------------------------
\* (no set of ALL edges is ever built: the graph has several 10^5 edges)
BadAt(i, Bad(_, _)) == {<<i, j>> : j \in {k \in DOMAIN Nodes[i].e : Bad(Nodes[i], Nodes[i].e[k])}}
EdgesWhere(Bad(_, _)) == UNION {BadAt(i, Bad) : i \in DOMAIN Nodes}

\* 1. conformance of every implementation edge with the specification
Conforms(pre, e) ==
  LET o == Step(pre, Alphabet[e[2]], K) IN
  /\ o.resp.ok = (e[3] = 1)
  /\ o.resp.sec = e[4]
  /\ o.resp.pt = e[5]
  /\ o.resp.flag = e[6]
  /\ e[1] >= 0 => o.s = Nodes[e[1] + 1].pre

Divergent == EdgesWhere(LAMBDA nd, e : ~Conforms(nd.pre, e))

\* 2b. reply labelling (C18): a secret the signer returns is the BOLT-3 tree element of the commitment number the
\* request names - Step says which number that is; e[4] is the index of the returned secret as the harness
\* recomputed it from the channel seed (-1: no secret in the reply, -2: no element of the tree at all)
SecMislabel == EdgesWhere(LAMBDA nd, e : e[3] = 1 /\ e[4] # -1 /\
                 LET o == Step(nd.pre, Alphabet[e[2]], K) IN o.resp.ok /\ o.resp.sec # -1 /\ o.resp.sec # e[4])

\* 3. frame (C10) and restart (C11) observations
FrameBad   == EdgesWhere(LAMBDA nd, e : e[3] = 0 /\ e[7] # 0)
\* an edge is charged with a restart inequality only if its source state was restart-equal (r0)
RestartBad == EdgesWhere(LAMBDA nd, e : nd.r0 = 1 /\ e[8] = 0)
Tainted    == {i \in DOMAIN Nodes : Nodes[i].r0 = 0}
\* handler-level graphs carry two more observations per edge: e[9] = number of mutations the
\* transactional store reported for the request, e[10] = a signer restored from the pre-commit
\* local store plus those mutations (crash between prepare and commit) equals the running one
MutsBad    == EdgesWhere(LAMBDA nd, e : Len(e) >= 9 /\ e[3] = 0 /\ e[9] # 0)
CrashBad   == EdgesWhere(LAMBDA nd, e : Len(e) >= 10 /\ e[10] = 0)
NEdges     == FoldLeft(LAMBDA acc, nd : acc + Len(nd.e), 0, Nodes)

Describe(p) == LET nd == Nodes[p[1]] e == nd.e[p[2]] IN
  [node |-> nd.id, ri |-> e[2], pre |-> nd.pre, req |-> Alphabet[e[2]], resp |-> RespOf(e),
   post |-> IF e[1] >= 0 THEN Nodes[e[1] + 1].pre ELSE nd.pre, mask |-> e[7],
   expected |-> LET o == Step(nd.pre, Alphabet[e[2]], K) IN [resp |-> o.resp, post |-> o.s]]

Report ==
  [ nodes       |-> Len(Nodes),
    expanded    |-> Cardinality({i \in DOMAIN Nodes : Nodes[i].x}),
    edges       |-> NEdges,
    divergences |-> SetToSeq({Describe(p) : p \in Divergent}),
    sec_mislabel |-> SetToSeq({Describe(p) : p \in SecMislabel}),
    frame_bad   |-> SetToSeq({Describe(p) : p \in FrameBad}),
    restart_bad |-> SetToSeq({Describe(p) : p \in RestartBad}),
    muts_bad    |-> SetToSeq({Describe(p) : p \in MutsBad}),
    crash_bad   |-> SetToSeq({Describe(p) : p \in CrashBad}),
    tainted_states |-> Cardinality(Tainted) ]

ASSUME JsonSerialize(IOEnv.CH_REPORT, Report)
=============================================================================
