INIT Init
NEXT Next
