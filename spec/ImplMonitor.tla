---------------------------- MODULE ImplMonitor ----------------------------
(***************************************************************************)
(* Leg B: the state graph EXTRACTED FROM THE REAL IMPLEMENTATION (harness   *)
(* `monitor explore`: every enabled block of the alphabet connected to, and  *)
(* the tip block disconnected from, every reachable concrete state of the    *)
(* real ChainMonitor + ChainTracker listener slot) is loaded here and        *)
(*   1. every implementation edge is compared with Monitor!Step, every       *)
(*      fresh-replay observation with Monitor!Replay (conformance;           *)
(*      divergences go to MON_REPORT, they are not alarms);                  *)
(*   2. TLC explores the implementation graph and checks the property on     *)
(*      it: C14_View  - the real view of every reachable state equals the    *)
(*                      view the harness observed on a FRESH real monitor    *)
(*                      that was shown only the blocks of the surviving      *)
(*                      chain (both sides are observations of real code),    *)
(*                      C14_NoAbort - no request panicked.                   *)
(*                                                                         *)
(* Views[i+1]  distinct projected views, referenced by index                 *)
(* Nodes[i+1] = [id, c, v, f, e]: c the chain as block indexes into          *)
(* Cases.blocks, v the real view, f the fresh-replay view, e the edges       *)
(* <<to, request (0 = disconnect, i = connect block i), 1 ok | 0 refused |   *)
(* 2 panic>>; to = -1 when there is no post-state.                           *)
(***************************************************************************)
EXTENDS Monitor, Json, IOUtils

Nodes == ndJsonDeserialize(IOEnv.MON_NODES)
ViewsJ == ndJsonDeserialize(IOEnv.MON_VIEWS)
Cases == JsonDeserialize(IOEnv.MON_CASES)
Mode  == IOEnv.MON_MODE          \* delivery of connected blocks
DMode == IOEnv.MON_DMODE         \* delivery of disconnected blocks
K == MkKS(Cases.cat, Cases.variant, IOEnv.MON_REV = "true", IOEnv.MON_MIR = "true", IOEnv.MON_STALE = "true")
\* late: the channel was set up in the middle of the streamed first block of every chain (Monitor!InitStLate);
\* the reference is then a monitor set up before that block, compared depth-wise (Monitor!Cmp)
Late == IOEnv.MON_LATE = "true"
NB == Len(Cases.blocks)

IsView(j) == "h" \in DOMAIN j
V(i) == LET j == ViewsJ[i + 1] IN
        IF IsView(j) THEN [h |-> j.h, fh |-> j.fh, fo |-> j.fo, dsh |-> j.dsh, mch |-> j.mch, uch |-> j.uch,
                           ct |-> j.ct, cour |-> j.cour, cos |-> j.cos, cho |-> j.cho, chs |-> j.chs, csl |-> j.csl,
                           csh |-> j.csh, oosh |-> j.oosh, w |-> SeqToSet(j.w), sn |-> SeqToSet(j.sn),
                           sb |-> j.sb, pd |-> <<>>]
        ELSE j
ChainOf(nd) == [i \in DOMAIN nd.c |-> Cases.blocks[nd.c[i]]]
\* Mode = "mixed": request i connects block i compact, request NB + i connects it streamed
ReqOf(ri) == IF ri = 0 THEN ReqD(DMode)
             ELSE IF Mode # "mixed" THEN ReqC(Cases.blocks[ri], Mode)
             ELSE IF ri <= NB THEN ReqC(Cases.blocks[ri], "compact") ELSE ReqC(Cases.blocks[ri - NB], "streamed")
RespOf(rc) == CASE rc = 1 -> "ok" [] rc = 2 -> "panic" [] OTHER -> "refused"

VARIABLES node, last

Init == node = 0 /\ last = [op |-> "init"]
Next == /\ node >= 0
        /\ \E j \in DOMAIN Nodes[node + 1].e :
             LET e == Nodes[node + 1].e[j] IN
             /\ e[1] # -2
             /\ node' = IF e[3] = 1 THEN e[1] ELSE -1 - e[3]
             /\ last' = [from |-> node, req |-> ReqOf(e[2]), ri |-> e[2], rc |-> e[3]]
Spec == Init /\ [][Next]_<<node, last>>
View == node

Good(nd) == \/ nd.v = nd.f
            \/ /\ IsView(ViewsJ[nd.v + 1]) /\ IsView(ViewsJ[nd.f + 1])
               /\ Cmp(Late, V(nd.v)) = Cmp(Late, V(nd.f))
C14_NoAbort == node # -3
C14_View    == node >= 0 => Good(Nodes[node + 1])
C14 == C14_NoAbort /\ C14_View

---------------------------------------------------------------------------
\* (no set of ALL edges is ever built)
BadAt(i, Bad(_, _)) == {<<i, j>> : j \in {k \in DOMAIN Nodes[i].e : Bad(Nodes[i], Nodes[i].e[k])}}
EdgesWhere(Bad(_, _)) == UNION {BadAt(i, Bad) : i \in DOMAIN Nodes}

\* 1. conformance
StOf(nd) == [chain |-> ChainOf(nd), s |-> V(nd.v)]
Conforms(nd, e) ==
  LET st == StOf(nd)
      o  == Step(K, st, ReqOf(e[2])) IN
  /\ Enabled(K, st, ReqOf(e[2]))
  /\ (Late /\ e[2] = 0 => Len(st.chain) > 1)
  /\ o.resp = RespOf(e[3])
  /\ e[1] >= 0 => [o.st EXCEPT !.s.pd = <<>>] = StOf(Nodes[e[1] + 1])   \* (the decode state is not observable)
\* (a refused request - the tracker returned an error, e.g. a compact-filter false positive on removal
\*  that a front end cannot deliver - is listed under `refused`, not as a divergence)
Divergent == EdgesWhere(LAMBDA nd, e : IsView(ViewsJ[nd.v + 1]) /\ e[1] # -2 /\ e[3] # 0 /\ ~Conforms(nd, e))
FreshDivergent == {i \in DOMAIN Nodes :
                     LET r == ReplayM(K, ChainOf(Nodes[i]), Nodes[i].cm) IN
                     ~(ValidChain(K, ChainOf(Nodes[i])) /\ r.ok /\ IsView(ViewsJ[Nodes[i].f + 1]) /\ r.s = V(Nodes[i].f))}
RootOk == IF Late THEN Len(Nodes[1].c) = 1 /\ V(Nodes[1].v) = [InitStLate(K, ChainOf(Nodes[1])[1]).s EXCEPT !.pd = <<>>]
          ELSE Nodes[1].c = <<>> /\ V(Nodes[1].v) = InitView(K)

\* 2. the property, edge by edge: the first step that leaves the set of good states
FirstBad == EdgesWhere(LAMBDA nd, e : Good(nd) /\ (e[3] = 2 \/ (e[3] = 1 /\ e[1] >= 0 /\ ~Good(Nodes[e[1] + 1]))))
LaterAbort == EdgesWhere(LAMBDA nd, e : ~Good(nd) /\ e[3] = 2)
Refused == EdgesWhere(LAMBDA nd, e : e[3] = 0)
BadNodes == {i \in DOMAIN Nodes : ~Good(Nodes[i])}
NEdges == FoldLeft(LAMBDA acc, nd : acc + Len(nd.e), 0, Nodes)
Chains == {Nodes[i].c : i \in DOMAIN Nodes}

\* compact: the Python side reconstructs chain and request from the node file
Describe(p) == LET nd == Nodes[p[1]] e == nd.e[p[2]] IN
  [node |-> nd.id, ri |-> e[2], rc |-> e[3], to |-> e[1],
   diff |-> IF e[1] < 0 THEN <<>>
            ELSE IF IsView(ViewsJ[Nodes[e[1] + 1].f + 1])
            THEN DiffFields(Cmp(Late, V(Nodes[e[1] + 1].v)), Cmp(Late, V(Nodes[e[1] + 1].f)))
            ELSE <<"fresh-replay-aborted">>]
DescribeDiv(p) == LET nd == Nodes[p[1]] e == nd.e[p[2]] o == Step(K, StOf(nd), ReqOf(e[2])) IN
  [node |-> nd.id, ri |-> e[2], rc |-> e[3], to |-> e[1],
   expected_resp |-> o.resp, why |-> o.why,
   diff |-> IF e[1] >= 0 /\ o.resp = "ok" THEN DiffFields(o.st.s, V(Nodes[e[1] + 1].v)) ELSE <<>>]

Report ==
  [ nodes       |-> Len(Nodes),
    edges       |-> NEdges,
    chains      |-> Cardinality(Chains),
    views       |-> Len(ViewsJ),
    root_ok     |-> RootOk,
    first_bad   |-> SetToSeq({Describe(p) : p \in FirstBad}),
    later_aborts |-> Cardinality(LaterAbort),
    refused     |-> SetToSeq({Describe(p) : p \in Refused}),
    bad_nodes   |-> Cardinality(BadNodes),
    divergences |-> SetToSeq({DescribeDiv(p) : p \in Divergent}),
    n_divergences |-> Cardinality(Divergent),
    fresh_divergences |-> Cardinality(FreshDivergent) ]

ASSUME JsonSerialize(IOEnv.MON_REPORT, Report)
=============================================================================
