---------------------------- MODULE MutualClose ----------------------------
(***************************************************************************)
(* C07 - mutual (cooperative) close validation of the validating signer.    *)
(*                                                                         *)
(* The component is a (mostly) stateless validator, so this module is       *)
(*   1. a REFERENCE PREDICATE  MustRefuse(w, req)  transcribed from the     *)
(*      documented policy rules (docs/policy-controls.md, "Mutual Closing   *)
(*      Transaction") and the text of property C07 - NOT from the code -    *)
(*      with one separately named conjunct per rule (the Rule_ operators),  *)
(*   2. an implementation-shaped operator  ImplStep(w, req)  that mirrors   *)
(*      the code's order of checks (channel.rs sign_mutual_close_tx[_phase2]*)
(*      simple_validator.rs decode_and_validate_mutual_close_tx /           *)
(*      validate_mutual_close_tx, including the code's u64/u32 arithmetic)  *)
(*      and returns the verdict and error class the code is expected to     *)
(*      give (used for conformance: divergences are reported, no alarm),    *)
(*   3. the abstract CASE MATRIX: abstract channel states (direction,       *)
(*      policy, magnitude, history of commitment updates, balances, skew    *)
(*      between the two commitments, pending HTLCs, upfront script) and     *)
(*      abstract close requests (entry point, allowlist at signing time,    *)
(*      value/fee/script/path/order/format edge classes), and their         *)
(*      CONCRETISATION to satoshi amounts, done here so that the model is   *)
(*      the single source of truth for what is explored.                    *)
(*                                                                         *)
(* Satoshi amounts may exceed TLC's 32-bit integers (the interesting fee    *)
(* classes are the ones whose true rate is >= 2^32 per kw), so amounts are  *)
(* unbounded naturals represented as base-10^4 limb sequences ("Big").      *)
(*                                                                         *)
(* Used by  MC_MutualClose (leg A: TLC explores the model),                 *)
(*          MutualCloseCases (prints the case matrix for the harness),      *)
(*          ImplMutualClose (leg B: re-judges every case the harness ran    *)
(*          against the REAL crates from the logged concrete values).       *)
(***************************************************************************)
EXTENDS Integers, Sequences, FiniteSets, TLC

---------------------------------------------------------------------------
(***************************************************************************)
(* Big: unbounded naturals, base 10^4, least significant limb first,        *)
(* normalised (no most-significant zero limb; zero is <<>>).                *)
(***************************************************************************)
BASE == 10000
Limb(a, i) == IF i <= Len(a) THEN a[i] ELSE 0

RECURSIVE BNorm(_)
BNorm(a) == IF Len(a) > 0 /\ a[Len(a)] = 0 THEN BNorm(SubSeq(a, 1, Len(a) - 1)) ELSE a

RECURSIVE B(_)
B(n) == IF n = 0 THEN <<>> ELSE <<n % BASE>> \o B(n \div BASE)      \* 0 <= n < 2^31

RECURSIVE AddC(_, _, _, _)
AddC(a, b, i, c) ==
  IF i > Len(a) /\ i > Len(b) THEN (IF c = 0 THEN <<>> ELSE <<c>>)
  ELSE LET s == Limb(a, i) + Limb(b, i) + c IN <<s % BASE>> \o AddC(a, b, i + 1, s \div BASE)
BAdd(a, b) == AddC(a, b, 1, 0)

RECURSIVE CmpFrom(_, _, _)
CmpFrom(a, b, i) == IF i = 0 THEN 0
                    ELSE IF a[i] < b[i] THEN -1
                    ELSE IF a[i] > b[i] THEN 1
                    ELSE CmpFrom(a, b, i - 1)
BCmp(a, b) == IF Len(a) < Len(b) THEN -1
              ELSE IF Len(a) > Len(b) THEN 1
              ELSE CmpFrom(a, b, Len(a))
BLt(a, b)  == BCmp(a, b) < 0
BLeq(a, b) == BCmp(a, b) <= 0
BZero(a)   == a = <<>>

RECURSIVE SubB(_, _, _, _)
SubB(a, b, i, br) ==
  IF i > Len(a) THEN <<>>
  ELSE LET d == a[i] - Limb(b, i) - br IN
       IF d < 0 THEN <<d + BASE>> \o SubB(a, b, i + 1, 1) ELSE <<d>> \o SubB(a, b, i + 1, 0)
BSub(a, b) == BNorm(SubB(a, b, 1, 0))                    \* requires b <= a
BAbsDiff(a, b) == IF BLeq(a, b) THEN BSub(b, a) ELSE BSub(a, b)

RECURSIVE MulS(_, _, _, _)
MulS(a, k, i, c) == IF i > Len(a) THEN B(c)
                    ELSE LET s == a[i] * k + c IN <<s % BASE>> \o MulS(a, k, i + 1, s \div BASE)
BMulSmall(a, k) == IF k = 0 \/ a = <<>> THEN <<>> ELSE MulS(a, k, 1, 0)    \* 0 <= k <= 200000
Shift(a, n) == IF a = <<>> THEN <<>> ELSE [i \in 1..n |-> 0] \o a
RECURSIVE MulAcc(_, _, _)
MulAcc(a, b, j) == IF j > Len(b) THEN <<>>
                   ELSE BAdd(Shift(BMulSmall(a, b[j]), j - 1), MulAcc(a, b, j + 1))
BMul(a, b) == MulAcc(a, b, 1)

\* division by a small number 1 <= d <= 200000
RECURSIVE DivR(_, _, _, _)
DivR(a, d, i, r) == IF i = 0 THEN [q |-> <<>>, r |-> r]
                    ELSE LET cur == r * BASE + a[i]
                             rest == DivR(a, d, i - 1, cur % d) IN
                         [q |-> rest.q \o <<cur \div d>>, r |-> rest.r]
BDivSmall(a, d) == BNorm(DivR(a, d, Len(a), 0).q)
BCeilDivSmall(a, d) == BDivSmall(BAdd(a, B(d - 1)), d)

Two16 == 65536
\* written out (TLC re-evaluates non-trivial constant definitions at every use):
\* 2^32 = 4294967296, 2^64 = 18446744073709551616; ASSUME below checks them
Two32 == <<7296, 9496, 42>>
Two64 == <<1616, 955, 737, 6744, 1844>>
U64Max == <<1615, 955, 737, 6744, 1844>>
ASSUME Two32 = BMul(B(Two16), B(Two16)) /\ Two64 = BMul(Two32, Two32) /\ U64Max = BSub(Two64, B(1))
BMod32(a) == IF BLt(a, Two32) THEN a
             ELSE BSub(a, BMul(BDivSmall(BDivSmall(a, Two16), Two16), Two32))
BMod64(a) == IF BLt(a, Two64) THEN a
             ELSE BSub(a, BMul(BDivSmall(BDivSmall(BDivSmall(BDivSmall(a, Two16), Two16), Two16), Two16), Two64))

---------------------------------------------------------------------------
(***************************************************************************)
(* Scripts.  A script is known by what the harness CONSTRUCTED it to be:    *)
(*   id   a name, equal ids = equal scripts                                 *)
(*   len  length of the scriptPubKey in bytes                               *)
(*   cls  "wallet"  derived from the node's own account key at path `path`  *)
(*        "S1"      the address that the allowlist entry named S1 names     *)
(*        "X"       derived at `path` from the external xpub that the       *)
(*                  allowlist entry named X names                           *)
(*        "foreign" none of these                                           *)
(* The allowlist at signing time is the set of entry names the operator     *)
(* has configured (add/remove through the public API) at that moment.       *)
(***************************************************************************)
NoScr == [id |-> "none", len |-> 0, cls |-> "none", path |-> "m"]
Scr(id) ==
  CASE id = "W7n" -> [id |-> id, len |-> 22, cls |-> "wallet",  path |-> "p7"]   \* p2wpkh
    [] id = "W7w" -> [id |-> id, len |-> 23, cls |-> "wallet",  path |-> "p7"]   \* p2sh-p2wpkh
    [] id = "W7t" -> [id |-> id, len |-> 34, cls |-> "wallet",  path |-> "p7"]   \* p2tr
    [] id = "S1"  -> [id |-> id, len |-> 22, cls |-> "S1",      path |-> "m"]
    [] id = "X5"  -> [id |-> id, len |-> 22, cls |-> "X",       path |-> "p5"]
    [] id = "F"   -> [id |-> id, len |-> 22, cls |-> "foreign", path |-> "m"]
    [] id = "Fs"  -> [id |-> id, len |-> 34, cls |-> "foreign", path |-> "m"]    \* p2wsh
    [] id = "C1"  -> [id |-> id, len |-> 22, cls |-> "foreign", path |-> "m"]    \* the counterparty's
    [] OTHER      -> NoScr

\* REFERENCE: the destination is the holder's own wallet or an allowlisted one
Allowed(s, allow) == s.cls = "wallet" \/ s.cls \in allow

(***************************************************************************)
(* Weight of a closing transaction (BOLT-3): one input spending the 2-of-2  *)
(* funding output, the outputs with non-zero value.  Signatures are 71..73  *)
(* bytes, so the weight is known up to +-2; the reference uses the bound    *)
(* that favours acceptance, the code uses 72.                               *)
(***************************************************************************)
RECURSIVE SumLens(_)
SumLens(ss) == IF ss = <<>> THEN 0 ELSE 9 + Head(ss).len + SumLens(Tail(ss))
Weight(ss, sig) == 4 * (4 + 1 + 41 + 1 + SumLens(ss) + 4) + (2 + 1 + 4 + 2 * sig + 71)

---------------------------------------------------------------------------
(***************************************************************************)
(* The world of one close request (everything the verdict may depend on):   *)
(*  w = [out    is the holder the funder (pays the closing fee)             *)
(*       chv    channel value (Big)                                         *)
(*       upfront id of the upfront shutdown script fixed at open, or "none" *)
(*       eps, minr, maxr   policy: epsilon (sat), fee-rate range (sat/kw)   *)
(*       hc, cc  current holder / counterparty commitment                   *)
(*               [p present, h to holder, c to counterparty, n #HTLCs]      *)
(*       allow   names of the allowlist entries present at signing time]    *)
(* a = [vh, vc  value to holder / counterparty (Big),                       *)
(*      sh, sc  their scripts (NoScr = absent), hint  wallet path hint]     *)
(***************************************************************************)
PresentScripts(a) == (IF BZero(a.vh) THEN <<>> ELSE <<a.sh>>) \o (IF BZero(a.vc) THEN <<>> ELSE <<a.sc>>)
Sum(a)  == BAdd(a.vh, a.vc)
Fee(w, a) == BSub(w.chv, Sum(a))                          \* only when Sum(a) <= chv

\* terms shared by the rules (computed once per assignment): x = [funds, f1000, ps]
\*   funds  the outputs exceed the funding output;  f1000 = fee * 1000;  ps = scripts of the outputs
Terms(w, a) == LET sum == Sum(a)
                   funds == BLt(w.chv, sum) IN
               [funds |-> funds,
                f1000 |-> IF funds THEN <<>> ELSE BMulSmall(BSub(w.chv, sum), 1000),
                ps |-> PresentScripts(a)]

RuleNames == {"commitments", "shape", "htlcs", "funds", "fee_low", "fee_high", "value", "dest", "upfront"}

\* both latest commitments must exist (there is no balance to compare with otherwise)
Rule_commitments(w, a, x) == ~w.hc.p \/ ~w.cc.p
\* an output with a value needs a script
Rule_shape(w, a, x) == (~BZero(a.vh) /\ a.sh = NoScr) \/ (~BZero(a.vc) /\ a.sc = NoScr)
\* no HTLC is pending in either current commitment
Rule_htlcs(w, a, x) == (w.hc.p /\ w.hc.n > 0) \/ (w.cc.p /\ w.cc.n > 0)
\* the outputs cannot exceed the funding output (the fee would be negative)
Rule_funds(w, a, x) == x.funds
\* fee within the policy range; the one-unit / +-1-byte-signature tolerance favours acceptance
Rule_fee_low(w, a, x) == /\ ~x.funds
                         /\ w.minr # <<>>
                         /\ BLt(BAdd(x.f1000, <<999>>), BMulSmall(BSub(w.minr, <<1>>), Weight(x.ps, 71)))
Rule_fee_high(w, a, x) == /\ ~x.funds
                          /\ BLeq(BMulSmall(BAdd(w.maxr, <<1>>), Weight(x.ps, 73)), x.f1000)
\* the side that does not pay the fee gets its balance of BOTH latest commitments, within epsilon
Outside(v, b, eps) == BLt(eps, BAbsDiff(v, b))
Rule_value(w, a, x) == /\ w.hc.p /\ w.cc.p
                       /\ IF w.out THEN Outside(a.vc, w.cc.c, w.eps) \/ Outside(a.vc, w.hc.c, w.eps)
                                   ELSE Outside(a.vh, w.hc.h, w.eps) \/ Outside(a.vh, w.cc.h, w.eps)
\* any holder output goes to a wallet-derivable or allowlisted script ...
Rule_dest(w, a, x) == ~BZero(a.vh) /\ a.sh # NoScr /\ ~Allowed(a.sh, w.allow)
\* ... which must be the upfront shutdown script if one was fixed
Rule_upfront(w, a, x) == ~BZero(a.vh) /\ w.upfront # "none" /\ a.sh.id # w.upfront

Rule(r, w, a, x) == CASE r = "commitments" -> Rule_commitments(w, a, x)
                      [] r = "shape"       -> Rule_shape(w, a, x)
                      [] r = "htlcs"       -> Rule_htlcs(w, a, x)
                      [] r = "funds"       -> Rule_funds(w, a, x)
                      [] r = "fee_low"     -> Rule_fee_low(w, a, x)
                      [] r = "fee_high"    -> Rule_fee_high(w, a, x)
                      [] r = "value"       -> Rule_value(w, a, x)
                      [] r = "dest"        -> Rule_dest(w, a, x)
                      [] r = "upfront"     -> Rule_upfront(w, a, x)
Failing(w, a) == LET x == Terms(w, a) IN {r \in RuleNames : Rule(r, w, a, x)}

(***************************************************************************)
(* A request is  [entry |-> "p2", a |-> a]  (sign_mutual_close_tx_phase2:   *)
(* the roles are given) or  [entry |-> "p1", outs |-> <<[v, s, hint]>>,     *)
(* npaths, canon] (sign_mutual_close_tx: a transaction with per-output      *)
(* wallet path hints; which output is the holder's is NOT given).  For p1   *)
(* the signer may sign iff SOME assignment of the outputs to the roles      *)
(* (at most one output each, every output assigned) satisfies every rule.   *)
(***************************************************************************)
Asg(hv, cv, hs, cs, hint) == [vh |-> hv, vc |-> cv, sh |-> hs, sc |-> cs, hint |-> hint]
Assignments(req) ==
  IF req.entry = "p2" THEN {req.a}
  ELSE LET o == req.outs IN
       CASE Len(o) = 0 -> {Asg(<<>>, <<>>, NoScr, NoScr, "m")}
         [] Len(o) = 1 -> {Asg(o[1].v, <<>>, o[1].s, NoScr, o[1].hint),
                           Asg(<<>>, o[1].v, NoScr, o[1].s, "m")}
         [] Len(o) = 2 -> {Asg(o[1].v, o[2].v, o[1].s, o[2].s, o[1].hint),
                           Asg(o[2].v, o[1].v, o[2].s, o[1].s, o[2].hint)}
         [] OTHER      -> {}
FailSets(w, req) == {Failing(w, a) : a \in Assignments(req)}
MustRefuseF(fs) == {} \notin fs
MustRefuse(w, req) == MustRefuseF(FailSets(w, req))
\* the rules that are, alone, the reason for the refusal (coverage / finding key)
SoleRulesF(fs) == IF ~MustRefuseF(fs) THEN {} ELSE {r \in RuleNames : {r} \in fs}
SoleRules(w, req) == SoleRulesF(FailSets(w, req))
\* smallest set of failed rules over the assignments (named in the finding key)
\* (an assignment whose VALUES fit is preferred to one whose values do not: that is the reading under which
\* the close could have been meant, and its remaining failed rule is the informative one)
FailRank(f) == Cardinality(f) + (IF "value" \in f THEN 100 ELSE 0)
MinFailF(fs) == IF fs = {} THEN {"shape"}
                ELSE CHOOSE f \in fs : \A x \in fs : FailRank(f) <= FailRank(x)
MinFail(w, req) == MinFailF(FailSets(w, req))
\* arithmetic extreme of the fee (part of the finding key): the true fee rate does not fit 32 bits /
\* fee * 1000 does not fit 64 bits
FeeNoteA(w, a) == LET x == Terms(w, a) IN
                  IF x.funds THEN ""
                  ELSE IF BLeq(Two64, x.f1000) THEN "fee*1000>=2^64"
                  ELSE IF BLeq(BMulSmall(Two32, Weight(x.ps, 71)), x.f1000) THEN "rate>=2^32"
                  ELSE ""
FeeNote(w, req) == LET ns == {FeeNoteA(w, a) : a \in Assignments(req)} IN
                   IF "fee*1000>=2^64" \in ns THEN "fee*1000>=2^64"
                   ELSE IF "rate>=2^32" \in ns THEN "rate>=2^32" ELSE ""

---------------------------------------------------------------------------
(***************************************************************************)
(* ImplStep: what the CODE does, in the code's order (conformance only).    *)
(* Result [ok, tag]; tag names the check that refuses.                      *)
(***************************************************************************)
Ok  == [ok |-> TRUE, tag |-> "ok"]
Err(t) == [ok |-> FALSE, tag |-> t]

\* Node::can_spend / allowlist_contains (key derivation style "native": paths have one element)
HintErr(hint) == hint = "bad2"
CanSpend(hint, s) == hint \notin {"m", "bad2"} /\ s.cls = "wallet" /\ s.path = hint
AllowPanics(s, hint, allow) == ~(s.cls = "S1" /\ "S1" \in allow) /\ hint = "h7" /\ "X" \in allow
AllowContains(s, hint, allow) == \/ s.cls \in {"S1"} /\ s.cls \in allow
                                 \/ hint # "m" /\ "X" \in allow /\ s.cls = "X" /\ s.path = hint

\* estimate_feerate_per_kw.  Behaviour switch K.saturate (what the code does at HEAD is recorded in
\* spec/MutualClose.switches.json):
\*   FALSE  (((fee * 1000) + 999) / weight) as u32 : u64 arithmetic without overflow checks, truncating cast
\*   TRUE   the same quotient computed without overflow and saturated at 2^32 - 1
U32Max == <<7295, 9496, 42>>
CodeRate(fee, weight, K) ==
  IF K.saturate
  THEN LET q == BDivSmall(BAdd(BMulSmall(fee, 1000), <<999>>), weight) IN IF BLt(U32Max, q) THEN U32Max ELSE q
  ELSE BMod32(BDivSmall(BMod64(BAdd(BMod64(BMulSmall(fee, 1000)), <<999>>)), weight))

\* simple_validator.rs validate_mutual_close_tx
ImplValidate(w, a, K) ==
  LET sum == Sum(a) IN
  IF ~w.hc.p \/ ~w.cc.p THEN Err("no_commitment")
  ELSE IF ~BZero(a.vh) /\ a.sh = NoScr THEN Err("missing_script")
  ELSE IF ~BZero(a.vc) /\ a.sc = NoScr THEN Err("missing_script")
  ELSE IF w.upfront # "none" /\ ~BZero(a.vh) /\ a.sh.id # w.upfront THEN Err("upfront")
  ELSE IF w.hc.n > 0 \/ w.cc.n > 0 THEN Err("htlcs")
  ELSE IF BLt(U64Max, sum) THEN Err("overflow")
  ELSE IF BLt(w.chv, sum) THEN Err("fee_underflow")
  ELSE LET rate == CodeRate(BSub(w.chv, sum), Weight(PresentScripts(a), 72), K) IN
  IF BLt(rate, w.minr) THEN Err("fee_low")
  ELSE IF BLt(w.maxr, rate) THEN Err("fee_high")
  ELSE IF (IF w.out THEN Outside(a.vc, w.cc.c, w.eps) \/ Outside(a.vc, w.hc.c, w.eps)
                    ELSE Outside(a.vh, w.hc.h, w.eps) \/ Outside(a.vh, w.cc.h, w.eps)) THEN Err("value")
  ELSE IF a.sh = NoScr THEN Ok
  ELSE IF HintErr(a.hint) THEN Err("can_spend_err")
  ELSE IF CanSpend(a.hint, a.sh) THEN Ok
  ELSE IF AllowPanics(a.sh, a.hint, w.allow) THEN Err("panic")
  ELSE IF AllowContains(a.sh, a.hint, w.allow) THEN Ok
  ELSE Err("dest")

\* EnforcementState::minimum_to_{holder,counterparty}_value as an Option
MinWithin(x, y, eps) == IF BLeq(BAbsDiff(x, y), eps) THEN [some |-> TRUE, v |-> IF BLeq(x, y) THEN x ELSE y]
                        ELSE [some |-> FALSE, v |-> <<>>]
OptGt(p, q) == IF ~p.some THEN FALSE ELSE IF ~q.some THEN TRUE ELSE BLt(q.v, p.v)

\* channel.rs sign_mutual_close_tx + simple_validator.rs decode_and_validate_mutual_close_tx
ImplDecode(w, req, K) ==
  LET o == req.outs IN
  IF req.npaths # Len(o) THEN Err("opath_len")
  ELSE IF Len(o) > 2 THEN Err("outputs")
  ELSE IF ~w.hc.p \/ ~w.cc.p THEN Err("no_commitment")
  ELSE IF Len(o) = 0 THEN Err("panic")
  ELSE
    LET hl == OptGt(MinWithin(w.hc.h, w.cc.h, w.eps), MinWithin(w.hc.c, w.cc.c, w.eps))
        pair == IF Len(o) = 1
                THEN LET ho == Asg(o[1].v, <<>>, o[1].s, NoScr, o[1].hint)
                         co == Asg(<<>>, o[1].v, NoScr, o[1].s, "m") IN
                     IF hl THEN <<ho, co>> ELSE <<co, ho>>
                ELSE LET hf == Asg(o[1].v, o[2].v, o[1].s, o[2].s, o[1].hint)
                         cf == Asg(o[2].v, o[1].v, o[2].s, o[1].s, o[2].hint) IN
                     IF hl THEN <<cf, hf>> ELSE <<hf, cf>>
        \* first the likely assignment, then - only if that one is refused - the unlikely one; each attempt
        \* validates ITS OWN values, scripts and path hint; the error reported is the likely attempt's
        likely == ImplValidate(w, pair[1], K)
        unlikely == ImplValidate(w, pair[2], K)
        fin == IF req.canon THEN Ok ELSE Err("recomposed") IN
    IF likely.ok THEN [ok |-> fin.ok, tag |-> fin.tag, attempt |-> "likely", utag |-> "-"]
    ELSE IF unlikely.ok THEN [ok |-> fin.ok, tag |-> fin.tag, attempt |-> "unlikely", utag |-> "ok"]
    \* (a panic inside the fallback attempt is what the caller sees)
    ELSE [ok |-> FALSE, tag |-> IF likely.tag # "panic" /\ unlikely.tag = "panic" THEN "panic" ELSE likely.tag,
          attempt |-> "both_failed", utag |-> unlikely.tag]

\* [ok, tag] as the code answers; for phase 1 also which decoding attempt decided (attempt: "likely",
\* "unlikely" = the fallback, "both_failed", "-" refused before decoding) and the fallback's own verdict
ImplStep(w, req, K) ==
  LET r == IF req.entry = "p2" THEN ImplValidate(w, req.a, K) ELSE ImplDecode(w, req, K) IN
  IF "attempt" \in DOMAIN r THEN r ELSE [ok |-> r.ok, tag |-> r.tag, attempt |-> "-", utag |-> "-"]

---------------------------------------------------------------------------
(***************************************************************************)
(* The property on one observed execution.  obs = [ok, sig, closed,         *)
(* closedr]: the real verdict; which transaction the returned signature     *)
(* verifies against ("canon" = the independently assembled canonical        *)
(* closing transaction spending the funding outpoint, "given" = the         *)
(* transaction handed to phase 1 when it differs from the canonical one,    *)
(* "none"); channel_closed read back; and read back from a signer restored  *)
(* from a copy of the store.                                                *)
(***************************************************************************)
VerdictF(must, obs) ==
  IF ~obs.ok THEN "refused"
  ELSE IF must THEN "signed_must_refuse"
  ELSE IF obs.sig # "canon" THEN "bad_signature_target"
  ELSE IF ~obs.closed THEN "not_marked_closed"
  ELSE IF ~obs.closedr THEN "closed_not_durable"
  ELSE "signed_ok"
Verdict(w, req, obs) == VerdictF(obs.ok /\ MustRefuse(w, req), obs)
IsViolation(v) == v \in {"signed_must_refuse", "bad_signature_target", "not_marked_closed", "closed_not_durable"}

---------------------------------------------------------------------------
(***************************************************************************)
(* Abstract case matrix.                                                   *)
(* Abstract state  s = [dir, pol, mag, hist, nb, skew, pskew, htlc, upfront, *)
(*                      pre]                                                *)
(*  dir   "out" the holder funds the channel (pays the fee) / "in"          *)
(*  pol   policy index                                                     *)
(*  mag   "n" 0.03 BTC channel, "g" 60 BTC (fees with a true rate >= 2^32   *)
(*        per kw fit), "a" 4*10^16 sat (fee*1000 wraps u64; above all the   *)
(*        money there is: arithmetic extreme only)                         *)
(*  hist  how far the channel got: "fresh" no commitment, "noC" only the    *)
(*        holder's initial commitment, "noH" only the counterparty's,       *)
(*        "init" both initial commitments, "upd" one update on each side    *)
(*        (the initial contents differ from the current ones), "updp" the   *)
(*        same but the counterparty has not yet revoked its initial         *)
(*        commitment (the signer still holds it as the previous one)        *)
(*  nb    balance of the non-fee-paying side in the holder's commitment:    *)
(*        "typ", "small" (within epsilon of nothing, or just above dust if  *)
(*        epsilon is below dust), "zero", "half" (both sides own the same)  *)
(*  skew  (its balance in the counterparty's commitment) - (in the holder's)*)
(*        in units: 0, "e" = eps, "-e", "2e", "2e1" = 2 eps + 1             *)
(*  pskew (the FEE PAYER's balance in the counterparty's commitment) - (in  *)
(*        the holder's), the two commitments carrying different fees as in  *)
(*        the middle of a fee update: "0", "e", "-e", "e1" = eps + 1,       *)
(*        "-e1", "big" (the counterparty's commitment pays the highest fee  *)
(*        the policy allows).  The non-payer's balance is not affected.     *)
(*  htlc  where an HTLC is pending: "none", "H", "C", "both"                *)
(*  upfront  "none", "W7n", "S1" (allowlisted when the channel was opened)  *)
(*  pre   "none" / "closed": a correct close was already signed before      *)
(***************************************************************************)
Pol(p) == CASE p = 1 -> [eps |-> 1000, minr |-> 253, maxr |-> 25000, typ |-> 2000]
            [] p = 2 -> [eps |-> 0,    minr |-> 0,   maxr |-> 1000,  typ |-> 500]
Chv(mag) == CASE mag = "n" -> B(3000000)
              [] mag = "g" -> <<0, 0, 60>>              \* 6 * 10^9
              [] mag = "a" -> <<0, 0, 0, 0, 4>>         \* 4 * 10^16
DUST == 354
HTLCV == 10000
CommitWeight(n) == 724 + 172 * n
CeilDiv(x, d) == (x + d - 1) \div d
CommitFee(p, n) == CeilDiv(Pol(p).typ * CommitWeight(n), 1000)

NbH(s) == CASE s.nb = "typ" -> 1000000
            [] s.nb = "zero" -> 0
            [] s.nb = "half" -> (3000000 - CommitFee(s.pol, 0)) \div 2
            [] s.nb = "small" -> IF Pol(s.pol).eps >= DUST THEN Pol(s.pol).eps \div 2 + DUST \div 2 ELSE DUST
\* non-payer balance in the initial commitments: different from the current one, except that in "updp"
\* histories the counterparty's stale initial commitment agrees with the holder's CURRENT commitment
\* (so that using the stale one instead of the latest one would make a difference when the two differ)
NB0(s) == IF s.hist = "updp" THEN NbH(s) ELSE 900000
SkewOf(s) == LET e == Pol(s.pol).eps IN
             CASE s.skew = "0" -> 0 [] s.skew = "e" -> e [] s.skew = "-e" -> 0 - e
               [] s.skew = "2e" -> 2 * e [] s.skew = "2e1" -> 2 * e + 1
NbC(s) == NbH(s) + SkewOf(s)
MaxCommitFee(p) == (Pol(p).maxr * CommitWeight(0)) \div 1000 - 1
PSkewOf(s) == LET e == Pol(s.pol).eps IN
              CASE s.pskew = "0" -> 0 [] s.pskew = "e" -> e [] s.pskew = "-e" -> 0 - e
                [] s.pskew = "e1" -> e + 1 [] s.pskew = "-e1" -> 0 - e - 1
                [] s.pskew = "big" -> 0 - (MaxCommitFee(s.pol) - CommitFee(s.pol, 0))
HtlcsIn(s, side) == IF s.htlc = "both" \/ s.htlc = side THEN 1 ELSE 0
HasBoth(s) == s.hist \in {"init", "upd", "updp"}

\* content of a commitment: [h to holder, c to counterparty, n #HTLCs] (Big amounts)
\* (adj: the fee payer gets adj more, i.e. this commitment's fee is adj lower than the typical one)
Content(s, nb, n, adj) ==
  LET payer == BSub(Chv(s.mag), B(nb + HTLCV * n + CommitFee(s.pol, n) - adj)) IN
  IF s.dir = "out" THEN [h |-> payer, c |-> B(nb), n |-> n] ELSE [h |-> B(nb), c |-> payer, n |-> n]
Content0(s) == Content(s, NB0(s), 0, 0)
ContentH(s) == Content(s, NbH(s), HtlcsIn(s, "H"), 0)
ContentC(s) == Content(s, NbC(s), HtlcsIn(s, "C"), PSkewOf(s))

ValidAmount(x) == x = 0 \/ x >= DUST
ValidState(s) ==
  /\ (s.hist \in {"fresh", "noC", "noH"} => s.nb = "typ" /\ s.skew = "0" /\ s.htlc = "none")
  /\ (s.hist = "init" => s.htlc = "none")
  /\ ValidAmount(NbH(s)) /\ ValidAmount(NbC(s))
  /\ (s.pre = "closed" => HasBoth(s) /\ s.htlc = "none" /\ s.skew = "0" /\ s.pskew = "0")
  /\ (s.mag # "n" => s.pol = 1 /\ s.nb # "half")
  /\ (s.pskew # "0" => HasBoth(s))
  /\ (s.pskew \in {"e", "-e"} => Pol(s.pol).eps > 0)

GoodState(dir, pol) == [dir |-> dir, pol |-> pol, mag |-> "n", hist |-> "upd", nb |-> "typ", skew |-> "0",
                        pskew |-> "0", htlc |-> "none", upfront |-> "none", pre |-> "none"]
StateDom(f) == CASE f = "mag" -> {"n", "g", "a"}
                 [] f = "hist" -> {"fresh", "noC", "noH", "init", "upd", "updp"}
                 [] f = "nb" -> {"typ", "small", "zero", "half"}
                 [] f = "skew" -> {"0", "e", "-e", "2e", "2e1"}
                 [] f = "pskew" -> {"0", "e", "-e", "e1", "-e1", "big"}
                 [] f = "htlc" -> {"none", "H", "C", "both"}
                 [] f = "upfront" -> {"none", "W7n", "S1"}
                 [] f = "pre" -> {"none", "closed"}
StateFields == {"mag", "hist", "nb", "skew", "pskew", "htlc", "upfront", "pre"}
Dev1States(S) == S \cup UNION {{[s EXCEPT ![f] = v] : v \in StateDom(f)} : s \in S, f \in StateFields}
RECURSIVE StatesWithin(_, _)
StatesWithin(S, k) == IF k = 0 THEN S ELSE StatesWithin(Dev1States(S), k - 1)
\* mags: which magnitudes are explored
AbsStates(k, mags) == {s \in StatesWithin({GoodState(d, p) : d \in {"out", "in"}, p \in {1, 2}}, k) :
                         ValidState(s) /\ s.mag \in mags}

\* what the harness must bring about: the world of a state (allowlist filled in per request)
WorldOf(s, allow) ==
  LET P == Pol(s.pol)
      none == [p |-> FALSE, h |-> <<>>, c |-> <<>>, n |-> 0]
      mk(c) == [p |-> TRUE, h |-> c.h, c |-> c.c, n |-> c.n] IN
  [out |-> s.dir = "out", chv |-> Chv(s.mag), upfront |-> s.upfront,
   eps |-> B(P.eps), minr |-> B(P.minr), maxr |-> B(P.maxr),
   hc |-> CASE s.hist \in {"fresh", "noH"} -> none [] s.hist = "noC" -> mk(Content0(s))
            [] OTHER -> mk(ContentH(s)),
   cc |-> CASE s.hist \in {"fresh", "noC"} -> none [] s.hist = "noH" -> mk(Content0(s))
            [] OTHER -> mk(ContentC(s)),
   allow |-> allow]

(***************************************************************************)
(* Abstract request  r = [entry, allow, d, fee, hscr, hint, cscr,           *)
(*                        order, hintpos, form, hopt, copt]                 *)
(*  allow  allowlist entry names present when the close is signed           *)
(*  d      value of the non-fee-paying side = its balance in the holder's   *)
(*         commitment + d:  "0", "e", "e1" (eps+1), "-e", "-e1", "mid"      *)
(*         (half the skew), "absent" (no output), "stale" (its balance in   *)
(*         the INITIAL commitments instead)                                 *)
(*  fee    "typ"; "zero"; "lo_must" largest fee the reference must refuse   *)
(*         as too low; "lo_rej"/"lo_ok" the code's own lower edge;          *)
(*         "hi_ok"/"hi_rej" the code's upper edge; "hi_must" smallest fee   *)
(*         the reference must refuse as too high; "half" half the channel;  *)
(*         "all" the fee payer gets no output; "neg1" outputs exceed the    *)
(*         funding by 1; "top" payer value 2^64-1 (u64 overflow of the sum);*)
(*         "wrap32" true rate 2^32 + typ (needs mag g/a); "wrap64" fee*1000 *)
(*         = 2^64 + typ*weight (needs mag a)                                *)
(*  hscr, cscr  script ids of the holder's / counterparty's output          *)
(*  hint   wallet path hint for the holder's output: "m" none, "p7", "p8",  *)
(*         "p5", "bad2" two elements, "h7" hardened                         *)
(*  p1 only: order "canon"/"swap"; hintpos which output carries the hint    *)
(*         ("h" holder's, "c" the other one, "both"); form "ok", "txid",    *)
(*         "vout", "version", "locktime", "sequence", "out3", "in2",        *)
(*         "noout", "pathshort"                                             *)
(*  p2 only: hopt / copt  "some" / "none" (script argument absent)          *)
(***************************************************************************)
GoodReq(s, entry) ==
  [entry |-> entry,
   allow |-> IF s.upfront = "S1" THEN {"S1"} ELSE {},
   d |-> "0", fee |-> "typ",
   hscr |-> IF s.upfront = "S1" THEN "S1" ELSE "W7n",
   hint |-> IF s.upfront = "S1" THEN "m" ELSE "p7",
   cscr |-> "C1", order |-> "canon", hintpos |-> "h", form |-> "ok", hopt |-> "some", copt |-> "some"]
ReqDom(f, entry) ==
  CASE f = "allow" -> SUBSET {"S1", "X"}
    [] f = "d" -> {"0", "e", "e1", "-e", "-e1", "mid", "absent", "stale"}
    [] f = "fee" -> {"typ", "zero", "lo_must", "lo_rej", "lo_ok", "hi_ok", "hi_rej", "hi_must", "half", "all",
                     "neg1", "top", "wrap32", "wrap64"}
    [] f = "hscr" -> {"W7n", "W7w", "W7t", "S1", "X5", "F", "Fs"}
    [] f = "hint" -> {"m", "p7", "p8", "p5", "bad2", "h7"}
    [] f = "cscr" -> {"C1", "W7n", "S1"}
    [] f = "order" -> IF entry = "p1" THEN {"canon", "swap"} ELSE {"canon"}
    [] f = "hintpos" -> IF entry = "p1" THEN {"h", "c", "both"} ELSE {"h"}
    [] f = "form" -> IF entry = "p1" THEN {"ok", "txid", "vout", "version", "locktime", "sequence", "out3",
                                            "in2", "noout", "pathshort"} ELSE {"ok"}
    [] f = "hopt" -> IF entry = "p2" THEN {"some", "none"} ELSE {"some"}
    [] f = "copt" -> IF entry = "p2" THEN {"some", "none"} ELSE {"some"}
ReqFields == {"allow", "d", "fee", "hscr", "hint", "cscr", "order", "hintpos", "form", "hopt", "copt"}
Dev1Reqs(R) == R \cup UNION {{[r EXCEPT ![f] = v] : v \in ReqDom(f, r.entry)} : r \in R, f \in ReqFields}
RECURSIVE ReqsWithin(_, _)
ReqsWithin(R, k) == IF k = 0 THEN R ELSE ReqsWithin(Dev1Reqs(R), k - 1)

\* ---- concretisation of a request in a state
DOf(s, r) == LET e == Pol(s.pol).eps IN
             CASE r.d = "0" -> 0 [] r.d = "e" -> e [] r.d = "e1" -> e + 1 [] r.d = "-e" -> 0 - e
               [] r.d = "-e1" -> 0 - e - 1 [] r.d = "mid" -> SkewOf(s) \div 2 [] r.d = "absent" -> 0 - NbH(s)
               [] r.d = "stale" -> NB0(s) - NbH(s)
\* the balance the request is built around (there is none before both commitments exist)
NbBase(s) == IF HasBoth(s) THEN NbH(s) ELSE NB0(s)
NvOf(s, r) == IF r.d = "absent" THEN 0 ELSE NbBase(s) + DOf(s, r)        \* small integer, may be < 0: invalid

\* scripts of the outputs with a value; the fee payer's output is absent for fee class "all"
HolderPays(s) == s.dir = "out"
ScriptsFor(s, r, nv) ==
  LET payerPresent == r.fee # "all"
      npPresent == nv > 0
      hPresent == IF HolderPays(s) THEN payerPresent ELSE npPresent
      cPresent == IF HolderPays(s) THEN npPresent ELSE payerPresent IN
  (IF hPresent THEN <<Scr(r.hscr)>> ELSE <<>>) \o (IF cPresent THEN <<Scr(r.cscr)>> ELSE <<>>)

\* the fee of a class, as [ok, fee]; ok = FALSE: the class does not exist here
FeeOf(s, r, nv) ==
  LET P == Pol(s.pol)
      ss == ScriptsFor(s, r, nv)
      w71 == Weight(ss, 71) w72 == Weight(ss, 72) w73 == Weight(ss, 73)
      rest == BSub(Chv(s.mag), B(nv))
      some(f) == [ok |-> BLeq(f, rest), fee |-> f]
      no == [ok |-> FALSE, fee |-> <<>>] IN
  CASE r.fee = "typ" -> some(B(CeilDiv(P.typ * w72, 1000)))
    [] r.fee = "zero" -> some(<<>>)
    [] r.fee = "lo_must" -> IF (P.minr - 1) * w71 >= 1000 THEN some(B(((P.minr - 1) * w71 - 1000) \div 1000)) ELSE no
    [] r.fee = "lo_ok" -> IF P.minr * w72 > 999 THEN some(B(CeilDiv(P.minr * w72 - 999, 1000))) ELSE no
    [] r.fee = "lo_rej" -> IF P.minr * w72 > 1999 THEN some(B(CeilDiv(P.minr * w72 - 999, 1000) - 1)) ELSE no
    [] r.fee = "hi_ok" -> some(B(((P.maxr + 1) * w72 - 1000) \div 1000))
    [] r.fee = "hi_rej" -> some(B(((P.maxr + 1) * w72 - 1000) \div 1000 + 1))
    [] r.fee = "hi_must" -> some(B(CeilDiv((P.maxr + 1) * w73, 1000)))
    [] r.fee = "half" -> some(BDivSmall(Chv(s.mag), 2))
    [] r.fee = "all" -> some(rest)
    [] r.fee = "wrap32" -> some(BCeilDivSmall(BMulSmall(BAdd(Two32, B(P.typ)), w72), 1000))
    [] r.fee = "wrap64" -> some(BCeilDivSmall(BAdd(Two64, B(P.typ * w72)), 1000))
    [] OTHER -> no

\* values [ok, np (non-payer), pay (payer)]
ValuesOf(s, r) ==
  LET nv == NvOf(s, r) IN
  IF nv < 0 THEN [ok |-> FALSE, np |-> <<>>, pay |-> <<>>]
  ELSE IF r.fee = "neg1" THEN [ok |-> TRUE, np |-> B(nv), pay |-> BAdd(BSub(Chv(s.mag), B(nv)), B(1))]
  ELSE IF r.fee = "top" THEN [ok |-> nv > 0, np |-> B(nv), pay |-> U64Max]
  ELSE LET f == FeeOf(s, r, nv) IN
       IF ~f.ok THEN [ok |-> FALSE, np |-> <<>>, pay |-> <<>>]
       ELSE [ok |-> TRUE, np |-> B(nv), pay |-> BSub(BSub(Chv(s.mag), B(nv)), f.fee)]

\* the concrete request [entry, allow, a (roles as intended), order, hintpos, form]; for p1 the harness
\* builds the transaction from a: outputs with a value, in canonical or swapped order
ConcReq(s, r) ==
  LET v == ValuesOf(s, r)
      vh == IF HolderPays(s) THEN v.pay ELSE v.np
      vc == IF HolderPays(s) THEN v.np ELSE v.pay
      sh == IF r.hopt = "none" THEN NoScr ELSE Scr(r.hscr)
      sc == IF r.copt = "none" THEN NoScr ELSE Scr(r.cscr) IN
  [ok |-> v.ok, entry |-> r.entry, allow |-> r.allow, a |-> Asg(vh, vc, sh, sc, r.hint),
   order |-> r.order, hintpos |-> r.hintpos, form |-> r.form]

\* cheap part of the validity of an abstract request (the expensive part is ConcReq(s, r).ok)
PlausibleReq(s, r) ==
  /\ (r.fee = "wrap32" => s.mag \in {"g", "a"})
  /\ (r.fee = "wrap64" => s.mag = "a")
  /\ (r.d = "mid" => SkewOf(s) # 0)
  /\ (r.d = "stale" => s.hist \in {"upd", "updp"})
  /\ (r.entry = "p1" /\ r.order = "swap" => r.form = "ok")
  /\ NvOf(s, r) >= 0
ValidReq(s, r) == PlausibleReq(s, r) /\ ValuesOf(s, r).ok

(***************************************************************************)
(* The "guess" block of the matrix (phase 1 only, every tier).  Phase 1 has *)
(* to find out which output is the holder's: the code guesses an assignment *)
(* from the two commitments and falls back to the other one.  Which guess   *)
(* is made, and whether it survives, depends on how the two current         *)
(* commitments DISAGREE: on the non-payer's balance (skew) or on the fee    *)
(* payer's (pskew), by less than, exactly, and more than epsilon, in both   *)
(* directions, and on balances being equal (nb = "half").  In all these     *)
(* states: both output orders, holder script owned / allowlist candidate /  *)
(* foreign, counterparty script foreign / allowlist candidate / a wallet    *)
(* script, the allowlist with and without that candidate, the path hint on  *)
(* the holder's output / both (wide: / on the counterparty's only), with    *)
(* and without an upfront script fixed to the allowlist candidate.          *)
(***************************************************************************)
GuessStates ==
  {s \in UNION {{[GoodState(d, p) EXCEPT !.pskew = k, !.upfront = u] : k \in {"e", "-e", "e1", "-e1", "big"}}
                 \cup {[GoodState(d, p) EXCEPT !.skew = k, !.upfront = u] : k \in {"e", "-e", "2e", "2e1"}}
                 \cup {[GoodState(d, p) EXCEPT !.nb = "half", !.upfront = u]}
                  : d \in {"out", "in"}, p \in {1, 2}, u \in {"none", "S1"}} : ValidState(s)}
GuessReqs(s, wide) ==
  {r \in {[GoodReq(s, "p1") EXCEPT !.order = o, !.hscr = h, !.cscr = c, !.allow = a, !.hintpos = hp,
                                   !.hint = "p7", !.d = dd] :
            o \in {"canon", "swap"}, h \in {"W7n", "F", "S1"}, c \in {"C1", "S1", "W7n"}, a \in {{}, {"S1"}},
            hp \in IF wide THEN {"h", "c", "both"} ELSE {"h", "both"},
            dd \in IF wide THEN {"0", "e", "-e", "mid"} ELSE {"0"}} : PlausibleReq(s, r)}
GuessReqsOf(s, wide) == IF s \in GuessStates THEN GuessReqs(s, wide) ELSE {}

PlausibleReqs(s, k) == {r \in ReqsWithin({GoodReq(s, "p1"), GoodReq(s, "p2")}, k) : PlausibleReq(s, r)}
AbsReqs(s, k) == {r \in PlausibleReqs(s, k) : ValuesOf(s, r).ok}

(***************************************************************************)
(* The judged form of a concrete request (what ImplMutualClose rebuilds     *)
(* from the harness log, and what leg A evaluates directly): for p1 the     *)
(* outputs as the harness lays them out.  An output exists iff its value is *)
(* non-zero; the canonical order is by value (equal values are ordered by   *)
(* script bytes, which the model does not know: the holder's first there),  *)
(* "swap" reverses it.                                                      *)
(***************************************************************************)
HintAt(c, pos) == IF c.hintpos = "both" \/ c.hintpos = pos THEN c.a.hint ELSE "m"
JudgedReq(c) ==
  IF c.entry = "p2" THEN [entry |-> "p2", a |-> c.a]
  ELSE LET ho == IF BZero(c.a.vh) THEN <<>> ELSE <<[v |-> c.a.vh, s |-> c.a.sh, hint |-> HintAt(c, "h")]>>
           co == IF BZero(c.a.vc) THEN <<>> ELSE <<[v |-> c.a.vc, s |-> c.a.sc, hint |-> HintAt(c, "c")]>>
           \* canonical (BIP69) order: smaller value first; "swap" reverses it
           sorted == IF ho # <<>> /\ co # <<>> /\ BLt(c.a.vc, c.a.vh) THEN co \o ho ELSE ho \o co
           base == IF c.order = "swap" /\ Len(sorted) = 2 THEN <<sorted[2], sorted[1]>> ELSE sorted
           extra == [v |-> B(1000), s |-> Scr("F"), hint |-> "m"]
           outs == CASE c.form = "out3" -> base \o <<extra>>
                     [] c.form = "noout" -> <<>>
                     [] OTHER -> base IN
       [entry |-> "p1", outs |-> outs,
        npaths |-> IF c.form = "pathshort" THEN Len(outs) - 1 ELSE Len(outs),
        canon |-> c.form \in {"ok", "out3", "noout", "pathshort"} /\ (c.order = "canon" \/ Len(sorted) < 2)]
=============================================================================
