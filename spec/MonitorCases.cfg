INIT Init
NEXT Next
