INIT Init
NEXT Next
