------------------------------ MODULE SimSweep ------------------------------
(* Leg C (spec -> impl): random behaviours of the model - blocks, allowlist   *)
(* changes and signing requests INTERLEAVED on one node - printed as          *)
(* operation sequences that the harness replays through the real crates; the  *)
(* recorded observations are then judged by ImplSweep exactly like leg B.     *)
(* Run with  tlc -simulate num=K -depth D+2.  Environment operations are      *)
(* weighted so that the state actually changes between requests.              *)
EXTENDS Sweep, Json, IOUtils

CONSTANTS HMax, Tier, Depth
VARIABLES env, hist, w

EnvOps(e) == {[op |-> "allow_add", t |-> t] : t \in {"S", "X"}} \cup {[op |-> "allow_rm", t |-> t] : t \in {"S", "X"}}
               \cup (IF e.h < HMax THEN {[op |-> "block"]} ELSE {})
\* requests that read the state the environment operations change
Sensitive(r) == r.fam = "sweep" /\ (r.outs # <<GoodOut>> \/ r.lt \notin {Big(0), Big(EXPIRY)})

\* the matrix per height, evaluated once
ReqsAt  == [h \in 0..HMax |-> Requests(h, Tier)]
SensAt  == [h \in 0..HMax |-> {r \in ReqsAt[h] : Sensitive(r)}]
Init == env = InitEnv /\ hist = <<>> /\ w = 0
\* (generating every request as a successor at every step is wasteful: a few are drawn at random,
\* TLC's simulator then picks among those and the environment operations; reproducible with -seed)
Next == /\ Len(hist) < Depth
        /\ LET R  == ReqsAt[env.h]
               RS == SensAt[env.h] IN
           \/ \E o \in EnvOps(env) :
                env' = EnvStep(env, o) /\ hist' = Append(hist, o) /\ w' = 0
           \/ \E k \in 1..8 :
                LET r == RandomElement(IF k <= 5 THEN RS ELSE R) IN
                env' = env /\ hist' = Append(hist, [op |-> "sign", r |-> r]) /\ w' = k
Spec == Init /\ [][Next]_<<env, hist, w>>

Emit == Len(hist) = Depth => PrintT(<<"SIM", ToJson(hist)>>)
=============================================================================
