SPECIFICATION Spec
CONSTANTS
  Tier = "quick"
  WrapArith = FALSE
  FlatWitness = FALSE
  MaxSteps = 3
INVARIANTS Inv_C08 TypeOK
CHECK_DEADLOCK FALSE
