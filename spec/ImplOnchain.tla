----------------------------- MODULE ImplOnchain -----------------------------
(***************************************************************************)
(* Leg B of C08: every session the harness ran against the REAL crates is  *)
(* re-judged here.  The harness logged, per step, the concrete facts it     *)
(* read back from the real transaction / previous outputs / channels /      *)
(* allowlist / velocity control and the real verdicts of                    *)
(*     e1 = Node::check_onchain_tx                                          *)
(*     e2 = Approve::handle_proposed_onchain (recording approver).          *)
(* TLC evaluates on the LOGGED CONCRETE VALUES                              *)
(*  (i)   conformance: verdict and velocity after = Onchain!Step (a         *)
(*        difference is a spec divergence, reported, not an alarm);         *)
(*  (ii)  the property monitors: Judge / JudgeApprove = the named rules of  *)
(*        the reference predicate that a real `Ok` (or an incomplete        *)
(*        unknown-destination report) violates -> violations;               *)
(*  (iii) bookkeeping: implementation stricter than the reference, every    *)
(*        rule the SOLE reason of a real refusal (vacuity guard),           *)
(*        concretisation = what the model expected (Facts).                 *)
(* The ghost `acc` (exact msat total of accepted losses in the velocity     *)
(* window) is folded along each session.                                    *)
(* IOEnv: OC_RECS (harness records), OC_CASES (the abstract sessions),      *)
(* OC_REPORT, OC_WRAP ("true": the code's arithmetic wraps), OC_FLAT ("true":*)
(* every signable input is charged a P2WPKH witness) - the switches of       *)
(* Onchain!Step, only conformance depends on them, never a violation.        *)
(* For the steps the harness also had SIGNED by the real node (group G10)    *)
(* the measured weight of the finalised transaction must lie between the     *)
(* smallest and largest Onchain!FinalWeight: the BIP-141 formula the         *)
(* reference's fee bound rests on is validated against real transactions     *)
(* (a failure is a concretisation mismatch = the run's self-test fails).     *)
(***************************************************************************)
EXTENDS Onchain, Json, IOUtils, SequencesExt

Recs  == ndJsonDeserialize(IOEnv.OC_RECS)
Cases == ndJsonDeserialize(IOEnv.OC_CASES)
Sws   == Sw(IOEnv.OC_WRAP = "true", IOEnv.OC_FLAT = "true")

\* logged concrete case -> the shape Onchain works on (drops log-only fields)
Conc(st) ==
  [ pol |-> st.c.pol, ver |-> st.c.ver, base |-> st.c.base, txw |-> st.c.txw, fw |-> st.c.fw, ins |-> st.c.ins,
    outs |-> st.c.outs,
    chans |-> [j \in DOMAIN st.c.chans |->
                 [val |-> st.c.chans[j].val, outbound |-> st.c.chans[j].outbound, push |-> st.c.chans[j].push,
                  nh |-> st.c.chans[j].nh, hasnext |-> st.c.chans[j].hasnext]] ]
V1(st) == V(st.e1.t, st.e1.tag, st.e1.ix)
A2(st) == [res |-> st.e2.res, asked |-> st.e2.asked, ix |-> st.e2.ix]

\* the harness built what the model meant
SameConc(x, y) ==
  /\ x.pol.maxfr = y.pol.maxfr /\ x.pol.unl = y.pol.unl /\ BEq(x.pol.limit, y.pol.limit)
  /\ x.ver = y.ver /\ x.base = y.base /\ x.txw = y.txw
  /\ Len(x.ins) = Len(y.ins) /\ Len(x.outs) = Len(y.outs) /\ Len(x.chans) = Len(y.chans)
  /\ \A i \in DOMAIN x.ins : /\ BEq(x.ins[i].v, y.ins[i].v) /\ x.ins[i].sw = y.ins[i].sw
                             /\ x.ins[i].st = y.ins[i].st /\ x.ins[i].uck = y.ins[i].uck
                             /\ x.ins[i].ss = y.ins[i].ss
  /\ \A k \in DOMAIN x.outs : LET a == x.outs[k] b == y.outs[k] IN
        /\ BEq(a.v, b.v) /\ a.path = b.path /\ a.own = b.own /\ a.st = b.st /\ a.inlist = b.inlist
        /\ a.xin = b.xin /\ a.ch = b.ch /\ (a.ch # 0 => a.fs = b.fs)
  /\ \A j \in DOMAIN x.chans : LET a == x.chans[j] b == y.chans[j] IN
        /\ BEq(a.val, b.val) /\ a.outbound = b.outbound /\ BEq(a.push, b.push) /\ a.nh = b.nh
        /\ a.hasnext = b.hasnext

\* outputs the case asked to carry one script really do, and the others differ
EffSlot(ab, i) == IF ab.outs[i].slot > 0 THEN ab.outs[i].slot ELSE i
SameScripts(ab, st) ==
  \A i, j \in DOMAIN ab.outs :
     (i < j /\ ab.outs[i].kind = ab.outs[j].kind) =>
        IF ab.outs[i].slot > 0 /\ ab.outs[i].slot = ab.outs[j].slot
        THEN st.c.outs[i].spk = st.c.outs[j].spk
        ELSE (ab.outs[i].kind \notin FundKinds /\ EffSlot(ab, i) # EffSlot(ab, j))
               => st.c.outs[i].spk # st.c.outs[j].spk

\* one step, given the ghost before it
JStep(id, k, ab, st, acc) ==
  LET c    == Conc(st)
      acc0 == IF ab.jump THEN Big0 ELSE acc
      velb == st.velb                       \* window total as of the time of the request
      v1   == V1(st)
      a2   == A2(st)
      exp  == Step(c, velb, Sws)
      exp2 == StepApprove(c, velb, Sws, ab.approve)
      rules == Rules(c, acc0)
      prim  == PrimaryRules(c, acc0)
      vio1 == Judge(c, acc0, v1)
      vio2 == JudgeApprove(c, acc0, a2)
      conf1 == /\ exp.v.t = v1.t /\ exp.v.tag = v1.tag /\ exp.v.ix = v1.ix
               /\ (v1.t = "ok" => BEq(exp.vel, st.vela))
               /\ (v1.t # "ok" => BEq(st.vela, st.velb))
      conf2 == exp2.res = a2.res /\ exp2.asked = a2.asked /\ exp2.ix = a2.ix
      refused == v1.t \in {"err", "unknown"}
  IN [ id |-> id, step |-> k, grp |-> ab.grp, fee |-> ab.fee, fam |-> ab.fam,
       skipped |-> st.skipped,
       e1 |-> v1, e2 |-> a2, exp1 |-> exp.v, exp2 |-> exp2,
       vio1 |-> SetToSeq(vio1), vio2 |-> SetToSeq(vio2),
       kinds |-> [j \in DOMAIN ab.outs |-> ab.outs[j].kind],
       ins |-> [j \in DOMAIN ab.ins |-> ab.ins[j].kind],
       signed |-> c.fw >= 0,
       nonben |-> SetToSeq({j - 1 : j \in NonBen(c)}),
       conf |-> st.skipped \/ (conf1 /\ (a2.res = "skipped" \/ conf2)),
       same |-> SameConc(Facts(ab), c) /\ SameScripts(ab, st) /\ FinalWeightOK(c) /\ (ab.sign => c.fw >= 0 \/ st.skipped),
       panic |-> v1.t = "panic" \/ a2.res = "panic",
       stricter |-> refused /\ rules = {},
       \* the rule that alone makes the case must-refuse (see PrimaryRules) and whether the real code refused
       sole |-> IF Cardinality(prim) = 1 THEN CHOOSE r \in prim : TRUE ELSE "",
       soleref |-> refused /\ Cardinality(prim) = 1,
       nrules |-> Cardinality(rules),
       \* observation: UnknownDestinations (/ an approval) although fee or velocity would be excessive
       unkx |-> v1.t = "unknown" /\ UnknownPathExcess(c, acc0, v1.ix) # {},
       apprx |-> a2.res = "true" /\ a2.asked /\ UnknownPathExcess(c, acc0, a2.ix) # {},
       \* a violating acceptance is reported where it happens and does not count into the window
       \* (otherwise every later step of the session would be flagged as a consequence)
       acc |-> IF st.skipped \/ vio1 # {} THEN acc0 ELSE AccAfter(c, acc0, v1) ]

JSess(r) ==
  LET a == Cases[r.id]
      f[k \in 0..Len(r.steps)] ==
        IF k = 0 THEN <<>>
        ELSE Append(f[k - 1], JStep(r.id, k, a[k], r.steps[k], IF k = 1 THEN Big0 ELSE f[k - 1][k - 1].acc))
  IN f[Len(r.steps)]

\* all judged steps, flattened
J == FoldLeft(LAMBDA acc, r : acc \o JSess(r), <<>>, Recs)

Count(P(_)) == FoldLeft(LAMBDA n, j : IF P(j) THEN n + 1 ELSE n, 0, J)
Pick(P(_), lim) == LET s == SelectSeq(J, P) IN SubSeq(s, 1, IF Len(s) < lim THEN Len(s) ELSE lim)
Brief(j) == [id |-> j.id, step |-> j.step, grp |-> j.grp, fee |-> j.fee, fam |-> j.fam, e1 |-> j.e1, e2 |-> j.e2,
             exp1 |-> j.exp1, exp2 |-> j.exp2, vio1 |-> j.vio1, vio2 |-> j.vio2, kinds |-> j.kinds,
             nonben |-> j.nonben, same |-> j.same, ins |-> j.ins]
Briefs(s) == [i \in DOMAIN s |-> Brief(s[i])]

IsVio(j) == Len(j.vio1) > 0 \/ Len(j.vio2) > 0
RuleList == SetToSeq(AllRules)

Report ==
  [ sessions    |-> Len(Recs),
    steps       |-> Len(J),
    skipped     |-> Count(LAMBDA j : j.skipped),
    ok          |-> Count(LAMBDA j : j.e1.t = "ok"),
    unknown     |-> Count(LAMBDA j : j.e1.t = "unknown"),
    refused     |-> Count(LAMBDA j : j.e1.t = "err"),
    panics      |-> Count(LAMBDA j : j.panic),
    approved    |-> Count(LAMBDA j : j.e2.res = "true" /\ j.e2.asked),
    nviolations |-> Count(IsVio),
    violations  |-> Briefs(Pick(IsVio, 300)),
    ndivergent  |-> Count(LAMBDA j : ~j.conf),
    divergences |-> Briefs(Pick(LAMBDA j : ~j.conf, 40)),
    nmismatch   |-> Count(LAMBDA j : ~j.same),
    nsigned     |-> Count(LAMBDA j : j.signed),
    mismatches  |-> Briefs(Pick(LAMBDA j : ~j.same, 20)),
    stricter    |-> Count(LAMBDA j : j.stricter),
    unknown_excess  |-> Count(LAMBDA j : j.unkx),
    approved_excess |-> Count(LAMBDA j : j.apprx),
    mustrefuse  |-> Count(LAMBDA j : j.nrules > 0),
    sole        |-> [i \in DOMAIN RuleList |->
                      [rule |-> RuleList[i], n |-> Count(LAMBDA j : j.sole = RuleList[i]),
                       refused |-> Count(LAMBDA j : j.sole = RuleList[i] /\ j.soleref)]],
    samples     |-> Briefs(Pick(LAMBDA j : j.e1.t = "ok" /\ j.step = 1 /\ Len(j.kinds) > 1, 2)
                           \o Pick(LAMBDA j : j.nrules > 0 /\ j.e1.t # "ok", 2)) ]

VARIABLE x
Init == x = 0
Next == UNCHANGED x
ASSUME JsonSerialize(IOEnv.OC_REPORT, Report)
=============================================================================
