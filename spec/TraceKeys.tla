------------------------------ MODULE TraceKeys ------------------------------
(***************************************************************************)
(* Leg C: validates steps recorded from the real implementation (`keys      *)
(* run`: the TLC-generated case matrix of creation orders / set-up subsets  *)
(* / restart points, the id-separation families, TLC-simulated behaviours,  *)
(* replay files).  One record per step:                                     *)
(*   [seq, step, g, fam, nids, nmax, cid, pre, req, resp [ok, v, msg], post] *)
(* Every step is compared with Keys!Step (conformance, reported); the ghost *)
(* of Keys.tla runs along ALL sequences of one configuration - it is reset  *)
(* only when the configuration number g changes - so that keys are compared *)
(* across histories, not only within one (invariants C18a C18b C18c).       *)
(***************************************************************************)
EXTENDS Keys, Json, IOUtils, SequencesExt

Steps   == ndJsonDeserialize(IOEnv.KEYS_STEPS)
Configs == JsonDeserialize(IOEnv.KEYS_CONFIGS)     \* sequence of [style, seed, net]

KOf(e) == [style |-> Configs[e.g].style, nids |-> e.nids, nmax |-> e.nmax, oid |-> OidOf(e.fam)]

VARIABLES l, g, tree
\* l: next line; g: ghost of Keys.tla; tree: lines whose step broke the tree property

NewObs(e) == ObsOf(ToString(e.g), LAMBDA i : e.cid[i], e.req, e.resp.ok, e.resp.v)
             \cup NodeObsOf(Configs[e.g], e.req, e.resp.ok, e.resp.v)
\* a new configuration: the channel part of the ghost starts afresh, the node-level part (whose
\* slots are names shared between configurations) stays
Carry(gh) == [ obs   |-> {p \in gh.obs : IsNodeSlot(p[1])},
               slots |-> {sl \in gh.slots : IsNodeSlot(sl)},
               kinds |-> {},
               clash |-> gh.clash, coll |-> gh.coll ]

\* C18c on one step, judged with the observations made so far (including this step's)
TreeBadStep(e, obs) ==
  /\ e.req.op \in {"Provide", "Get"}
  /\ LET sl == e.pre.st[e.req.to]
         Own(v, n) == <<<<ToString(e.g), e.cid[e.req.to], "sec", n>>, v>> \in obs IN
     \/ (e.req.op = "Provide" /\
         TreeRefused(sl, Own, e.req, e.resp.ok, Len(e.resp.v) = 1))
     \/ TreeWrong(sl, Own, e.req, e.resp.v)

Init == l = 1 /\ g = InitGhost /\ tree = {}
Next == /\ l <= Len(Steps)
        /\ LET e == Steps[l]
               g0 == IF l > 1 /\ Steps[l - 1].g # e.g THEN Carry(g) ELSE g
               g1 == Ghost(g0, NewObs(e)) IN
           /\ g' = g1
           /\ tree' = IF TreeBadStep(e, g1.obs) THEN tree \cup {l} ELSE tree
        /\ l' = l + 1
Spec == Init /\ [][Next]_<<l, g, tree>>

C18a == Inv_Stable(g)
C18b == Inv_Distinct(g)
C18c == tree = {}
C18d == Inv_Node(g)

\* error traces show the line and the findings, not the whole ghost (it holds every key seen)
TraceAlias == [l |-> l, clash |-> g.clash, coll |-> g.coll, tree |-> tree]

---------------------------------------------------------------------------
\* conformance of every step with the specification (global pass, reported)
AllObs == UNION {NewObs(Steps[i]) : i \in DOMAIN Steps}
TreeName(e, v, n) ==
  LET js == {j \in 1..Len(e.cid) : <<<<ToString(e.g), e.cid[j], "sec", n>>, v>> \in AllObs} IN
  IF js = {} THEN "?" ELSE IdName(CHOOSE j \in js : TRUE)
AbsSlots(e, sl) == [k \in 1..Len(sl) |-> [t |-> TreeName(e, sl[k][1], sl[k][2]), n |-> sl[k][2]]]
ModelState(e, p) ==
  [ ch  |-> [i \in 1..Len(p.ch) |->
               [ph |-> p.ch[i][1], nh |-> p.ch[i][2], al |-> p.ch[i][3], v |-> p.ch[i][4],
                src |-> IF p.ch[i][1] = "none" THEN "-" ELSE IdName(i)]],
    hwm |-> p.hwm, rs |-> p.rs, ctr |-> 0,
    st  |-> [i \in 1..Len(p.st) |-> AbsSlots(e, p.st[i])] ]
SameVisible(a, b) ==
  /\ a.hwm = b.hwm /\ a.rs = b.rs
  /\ DOMAIN a.ch = DOMAIN b.ch
  /\ \A i \in DOMAIN a.ch : /\ a.ch[i].ph = b.ch[i].ph /\ a.ch[i].nh = b.ch[i].nh
                            /\ a.ch[i].al = b.ch[i].al /\ a.ch[i].v = b.ch[i].v
  /\ \A i \in DOMAIN a.st : /\ Len(a.st[i]) = Len(b.st[i])
                            /\ \A k \in 1..Len(a.st[i]) : a.st[i][k] = b.st[i][k]
ValOf(e, a) ==
  LET js == {j \in 1..Len(e.cid) : IdName(j) = a[2]} IN
  IF js = {} THEN {} ELSE
  {p[2] : p \in {q \in AllObs : q[1] = <<ToString(e.g), e.cid[CHOOSE j \in js : TRUE], a[1], a[3]>>}}

Conforms(e) ==
  LET o == Step(ModelState(e, e.pre), e.req, KOf(e)) IN
  /\ o.resp.ok = e.resp.ok
  /\ SameVisible(o.s, ModelState(e, e.post))
  /\ Len(e.resp.v) = Len(o.resp.a)
  /\ (e.req.op = "Get" /\ Len(e.resp.v) = 1 => e.resp.v[1] \in ValOf(e, o.resp.a[1]))
  /\ (e.req.op = "Secret" /\ e.resp.ok /\ Len(e.resp.v) = 2
        => \A v \in ValOf(e, <<"pt", IdName(e.req.id), e.req.n>>) : v = e.resp.v[2])

Idx == DOMAIN Steps
Divergent == {i \in Idx : ~Conforms(Steps[i])}
Broken    == {i \in Idx : i > 1 /\ Steps[i].step > 0 /\ Steps[i].pre # Steps[i - 1].post}

Describe(i) == LET e == Steps[i] IN
  [line |-> i, seq |-> e.seq, step |-> e.step, g |-> e.g, fam |-> e.fam, pre |-> e.pre, req |-> e.req,
   resp |-> e.resp, post |-> e.post,
   expected |-> LET o == Step(ModelState(e, e.pre), e.req, KOf(e)) IN [ok |-> o.resp.ok, a |-> o.resp.a]]

Report == [ steps        |-> Len(Steps),
            sequences    |-> Cardinality({Steps[i].seq : i \in Idx}),
            slots        |-> Cardinality({p[1] : p \in AllObs}),
            observations |-> Cardinality(AllObs),
            obs_steps    |-> Cardinality({i \in Idx : NewObs(Steps[i]) # {}}),
            divergences  |-> SetToSeq({Describe(i) : i \in Divergent}),
            broken       |-> SetToSeq({Describe(i) : i \in Broken}) ]
ASSUME JsonSerialize(IOEnv.KEYS_REPORT, Report)
=============================================================================
