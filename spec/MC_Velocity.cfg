SPECIFICATION Spec
CONSTANTS
  Group = "sound"
  Size = "small"
  KeepAtHead = FALSE
  PersistFeeAtHead = FALSE
VIEW View
CONSTRAINT Bound
INVARIANTS C12 C12_windows TypeOK Covers
PROPERTIES Frame
CHECK_DEADLOCK FALSE
