INIT Init
NEXT Next
