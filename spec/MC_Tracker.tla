----------------------------- MODULE MC_Tracker -----------------------------
(* Leg A: TLC explores the Tracker model itself (design level).              *)
EXTENDS Tracker

CONSTANTS Interval,          \* retarget interval (2016 in the code)
          MaxReorg,          \* ChainTracker::MAX_REORG_SIZE (100 in the code)
          Trusted,           \* set of trusted oracles
          NL,                \* number of listeners (channels)
          H0, HMax,          \* initial height, height bound
          MaxDev,            \* requests deviate from a correct one in at most MaxDev dimensions
          Deep,              \* allow_deep_reorgs; TRUE: the tracker may also start with nothing remembered
          PopFirst, KeepDecode   \* behaviour switches (see Tracker.tla)

VARIABLES s, g, last
vars == <<s, g, last>>

K == [interval |-> Interval, maxReorg |-> MaxReorg, trusted |-> Trusted, deep |-> Deep,
      popFirst |-> PopFirst, keepDecode |-> KeepDecode]
Contents == IF NL = 2 THEN {"e", "f1", "d1", "f2", "d2"} ELSE {"e", "f1", "d1"}
Reqs == Requests(MaxDev, Contents, {0, 2, 3, -1, -2})
Probes == {r \in Reqs : r.probe = 1}

Hdr(i, fh) == [id |-> "A" \o ToString(i), p |-> IF i = 0 THEN "?" ELSE "A" \o ToString(i - 1),
               c |-> "b", lvl |-> 0, fh |-> fh]
Listener(k) == [w |-> {NameI(k)}, s |-> {}, tw |-> 1,
                m |-> [h |-> H0, fund |-> -1, ds |-> -1, fo |-> "-", sb |-> FALSE, other |-> FALSE]]
InitState(fh) == [h |-> H0, tip |-> Hdr(2, fh), win |-> <<Hdr(1, "ok")>>, anc |-> <<Hdr(0, "ok")>>,
                  ls |-> [k \in 1..NL |-> Listener(k)], tds |-> FALSE, mds |-> FALSE]
\* started from a checkpoint: nothing remembered below the tip
InitEmpty == [InitState("ok") EXCEPT !.win = <<>>, !.anc = <<Hdr(1, "ok"), Hdr(0, "ok")>>]

Init == /\ s \in {InitState("ok"), InitState("zero")} \cup (IF Deep THEN {InitEmpty} ELSE {})
        /\ g = InitGhost
        /\ last = [op |-> "init"]

\* did the persistent state change across the add_block / remove_block call itself?
Chg(pre, r, post) == IF Obs(IF r.kind \in StreamKinds THEN SawBlock(pre) ELSE pre) = Obs(post) THEN 0 ELSE 1

\* "a later correct request still succeeds", on the model: after any refused request every
\* probe request that the state accepts is still accepted
LaterOK(st) == \A q \in Reqs : \A r \in Probes :
   LET oq == Step(st, q, K) IN
   (Enabled(st, q) /\ Enabled(st, r) /\ oq.resp.ok = 0 /\ Step(st, r, K).resp.ok = 1)
      => Step(oq.s, r, K).resp.ok = 1

Next == \E r \in Reqs :
          LET o == Step(s, r, K) IN
          /\ Enabled(s, r)
          /\ o.resp.ok # 2                 \* a panic ends the life of the tracker object
          /\ s' = o.s
          /\ g' = Ghost(g, K, Obs(s), r, o.resp, Chg(s, r, o.s), Obs(o.s))
          /\ last' = [r |-> r, ok |-> o.resp.ok, err |-> o.resp.err]

Spec == Init /\ [][Next]_vars
Bound == s.h <= HMax
View == <<s, g>>

C13a == Inv_C13a(g)
C13b == Inv_C13b(g)
C13c == LaterOK(s)            \* evaluated once per distinct state

\* structural invariants (extra): heights of tracker and monitors agree, window bounded,
\* watched and seen outpoints are disjoint, no decode state survives an accepted request
TypeOK == /\ Len(s.win) <= MaxReorg
          /\ \A k \in DOMAIN s.ls : s.ls[k].m.h = s.h /\ s.ls[k].w \cap s.ls[k].s = {}
          /\ s.tip.lvl >= 0
          /\ ~s.tds \/ KeepDecode
\* the remembered headers form a chain ending at the tip (fails at HEAD: popFirst)
WindowLinked == /\ s.win # <<>> => s.win[1].id = s.tip.p
                /\ \A i \in 1..(Len(s.win) - 1) : s.win[i + 1].id = s.win[i].p
                \* ... and the node's chain continues below them
                /\ s.anc # <<>> => s.anc[1].id = (IF s.win # <<>> THEN s.win[Len(s.win)].p ELSE s.tip.p)
=============================================================================
