--------------------------- MODULE TracePayments ---------------------------
(***************************************************************************)
(* Leg C (impl -> spec): validates steps recorded from the real node        *)
(* (`payments run`: TLC-simulated behaviours over the large alphabet, replay *)
(* files), each sequence on a fresh node with real restarts.  One record per *)
(* step: [seq, step, pre, req, resp, post].  Every step is compared with     *)
(* Payments!Step; the ghost ledger runs along each sequence (C06a, C06b).    *)
(* Exclude = "stale-revoke": once a sequence has taken a step of the known   *)
(* class (see ImplPayments) the rest of that sequence is not judged.         *)
(***************************************************************************)
EXTENDS Payments, Json, IOUtils, SequencesExt

Steps == ndJsonDeserialize(IOEnv.PM_STEPS)
ToNat(str) == CHOOSE n \in 0..200 : ToString(n) = str
K == [fee |-> ToNat(IOEnv.PM_FEE), pct |-> ToNat(IOEnv.PM_PCT),
      revokeValidates |-> IOEnv.PM_REVOKE_VALIDATES = "true",
      vlim |-> ToNat(IOEnv.PM_VLIM)]   \* payment velocity limit of the node the steps were recorded from
KFix == [K EXCEPT !.revokeValidates = TRUE]
Mon == IOEnv.PM_MON
Exclude == IOEnv.PM_EXCLUDE
RespOf(e) == [ok |-> e.resp.ok, flag |-> e.resp.flag]
StaleStep(e) == e.req.op = "Revoke" /\ e.resp.ok /\ ~Step(e.pre, e.req, KFix).resp.ok

VARIABLES l, g, skip, st
Init == l = 1 /\ g = InitGhost({}, {}) /\ skip = FALSE /\ st = FALSE
Next == /\ l <= Len(Steps)
        /\ LET e == Steps[l]
               first == e.step = 0
               g0 == IF first THEN InitGhost(DOMAIN e.pre.ch, DOMAIN e.pre.inv) ELSE g IN
           /\ g' = Ghost(g0, e.req, RespOf(e), e.pre, e.post, Mon)
           /\ skip' = ((~first /\ skip) \/ (Exclude = "stale-revoke" /\ StaleStep(e)))
           /\ st' = StaleStep(e)
        /\ l' = l + 1
Spec == Init /\ [][Next]_<<l, g, skip, st>>

C06a == skip \/ Inv_C06a(g, K)
C06b == skip \/ Inv_C06b(g)
C06aStale == st => Inv_C06a(g, K)

Conforms(e) == LET o == Step(e.pre, e.req, K) IN o.resp = RespOf(e) /\ o.s = e.post
Idx == DOMAIN Steps
Divergent == {i \in Idx : ~Conforms(Steps[i])}
Broken    == {i \in Idx : i > 1 /\ Steps[i].step > 0 /\ Steps[i].pre # Steps[i - 1].post}
Describe(i) == LET e == Steps[i] IN
  [line |-> i, seq |-> e.seq, step |-> e.step, pre |-> e.pre, req |-> e.req, resp |-> e.resp, post |-> e.post,
   expected |-> LET o == Step(e.pre, e.req, K) IN [resp |-> o.resp, post |-> o.s]]
SelfG(p) == [H |-> [c \in DOMAIN p.ch |-> p.ch[c].curH.htlcs], C |-> [c \in DOMAIN p.ch |-> p.ch[c].curC.htlcs]]
InFlight(p) == \E h \in DOMAIN p.inv : p.inv[h].amt >= 0 /\ GOut(SelfG(p), h) > 0
FirstN(S, n) == LET q == SetToSeq(S) IN SubSeq(q, 1, Min(n, Len(q)))
\* which sequences violate a clause (one pass; used to minimise a violating history in batches)
JudgeAll ==
  FoldLeft(LAMBDA acc, e :
             LET g0 == IF e.step = 0 THEN InitGhost(DOMAIN e.pre.ch, DOMAIN e.pre.inv) ELSE acc.g
                 g1 == Ghost(g0, e.req, RespOf(e), e.pre, e.post, "ab")
                 sk == (e.step # 0 /\ acc.skip) \/ (Exclude = "stale-revoke" /\ StaleStep(e))
                 viol == IF IOEnv.PM_JUDGE = "stale" THEN StaleStep(e) /\ ~Inv_C06a(g1, K)
                         ELSE ~sk /\ ~(Inv_C06a(g1, K) /\ Inv_C06b(g1)) IN
             [g |-> g1, skip |-> sk, bad |-> IF viol THEN acc.bad \cup {e.seq} ELSE acc.bad],
           [g |-> InitGhost({}, {}), skip |-> FALSE, bad |-> {}], Steps).bad
DivSample == FirstN(Divergent, 12)
Report == [ steps |-> Len(Steps),
            bad_seqs |-> IF IOEnv.PM_JUDGE = "" THEN <<>> ELSE SetToSeq(JudgeAll),
            accepted |-> Cardinality({i \in Idx : Steps[i].resp.ok}),
            changed |-> Cardinality({i \in Idx : Steps[i].pre # Steps[i].post}),
            in_flight_steps |-> Cardinality({i \in Idx : InFlight(Steps[i].post)}),
            stale_steps |-> Cardinality({i \in Idx : StaleStep(Steps[i])}),
            ndivergent |-> Cardinality(Divergent),
            divergences |-> LET q == DivSample IN [i \in DOMAIN q |-> Describe(q[i])],
            broken |-> Cardinality(Broken) ]
ASSUME JsonSerialize(IOEnv.PM_REPORT, Report)
=============================================================================
