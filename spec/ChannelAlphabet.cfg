INIT Init
NEXT Next
