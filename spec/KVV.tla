--------------------------------- MODULE KVV ---------------------------------
(***************************************************************************)
(* Key-version-value stores of vls-persist:                                 *)
(*   MemoryKVVStore          vls-persist/src/kvv/memory.rs                  *)
(*   RedbKVVStore            vls-persist/src/kvv/redb.rs   (table + versions *)
(*                           cache loaded at open, transactional put_batch)  *)
(*   CloudKVVStore<Memory>   vls-persist/src/kvv/cloud.rs  (commit log:      *)
(*                           enter / prepare / commit over a local store)    *)
(*                                                                         *)
(* Written "to be bound" (see Channel.tla): each backend is a pure operator *)
(*   XStep(s, r, K) -> [resp, s]                                            *)
(* with one CASE arm per KVVStore entry point, the refusals in the order    *)
(* the code performs them.  The property C16 is a set of monitor clauses    *)
(* over OBSERVATIONS only (request, response, the get_prefix("") dump and   *)
(* the per-key get / get_version results before and after the call); a      *)
(* failed clause adds a class name to the ghost variable `flags`, and the   *)
(* invariant is  flags \subseteq Ignore.                                    *)
(*                                                                         *)
(* The same operators are used by                                           *)
(*   MC_KVV.tla    TLC explores the model itself                 (leg A)    *)
(*   ImplKVV.tla   TLC explores the state graphs extracted from the real    *)
(*                 stores, checks each edge against XStep and runs the      *)
(*                 monitors on the product                        (leg B)    *)
(*   TraceKVV.tla  TLC validates recorded step sequences          (leg C)    *)
(*                                                                         *)
(* K = [batchSequential, cloudChecksStaged] : behaviour switches saying     *)
(* what the code does (spec/kvv_switches.json); both FALSE at the pinned    *)
(* commit.                                                                  *)
(***************************************************************************)
EXTENDS Naturals, Integers, Sequences, FiniteSets, TLC

(***************************************************************************)
(* Abstract values.  Keys are strings from a small universe, listed in the  *)
(* byte order the stores iterate in; "k" is a prefix of "kk".  Values are    *)
(* strings: "a", "b", "" (the tombstone written by delete) and "S" (the      *)
(* signer id stored in the cloud store's last-writer record).               *)
(***************************************************************************)
KeyOrder  == <<"_WRITER", "k", "kk", "l">>
AllKeys   == {KeyOrder[i] : i \in DOMAIN KeyOrder}
WriterKey == "_WRITER"
UserKeys  == AllKeys \ {WriterKey}
SignerVal == "S"

Absent     == [v |-> -1, x |-> "none"]       \* key not in the store
Ent(v, x)  == [v |-> v, x |-> x]
Present(e) == e.v >= 0
EmptyTab   == [k \in AllKeys |-> Absent]
NoVers     == [k \in AllKeys |-> -1]
VersOf(t)  == [k \in AllKeys |-> t[k].v]

StartsWith(k, p) == CASE p = ""   -> TRUE
                      [] p = "k"  -> k \in {"k", "kk"}
                      [] p = "kk" -> k = "kk"
                      [] p = "l"  -> k = "l"
                      [] OTHER    -> FALSE        \* "ka", "j", ...: no key of the universe

\* get_prefix: the entries whose key starts with p, in key order, as <<key, version, value>>
RECURSIVE PrefixFrom(_, _, _)
PrefixFrom(t, p, i) ==
  IF i > Len(KeyOrder) THEN <<>>
  ELSE LET k == KeyOrder[i] IN
       IF Present(t[k]) /\ StartsWith(k, p)
       THEN <<<<k, t[k].v, t[k].x>>>> \o PrefixFrom(t, p, i + 1)
       ELSE PrefixFrom(t, p, i + 1)
Dump(t) == PrefixFrom(t, "", 1)

\* responses: [c, e]  c = "ok" | "vm" (Error::VersionMismatch) | "panic" ; e = returned entries
R(c, e)  == [c |-> c, e |-> e]
ROk      == R("ok", <<>>)
RVm      == R("vm", <<>>)
RPanic   == R("panic", <<>>)
RGet(k, e)  == R("ok", IF Present(e) THEN <<<<k, e.v, e.x>>>> ELSE <<>>)
RVer(k, v)  == R("ok", IF v >= 0 THEN <<<<k, v, "?">>>> ELSE <<>>)
Out(resp, s) == [resp |-> resp, s |-> s]

MaxOf(S) == CHOOSE m \in S : \A j \in S : j <= m
BatchKeys(es)  == {es[i].k : i \in DOMAIN es}
LastFor(es, k) == es[MaxOf({i \in DOMAIN es : es[i].k = k})]
HasDup(es)     == \E i, j \in DOMAIN es : i < j /\ es[i].k = es[j].k

(***************************************************************************)
(* put_with_version on a table (memory.rs:42): [c, t]                       *)
(***************************************************************************)
TabPutV(t, k, v, x) ==
  LET e == t[k] IN
  IF Present(e) /\ v < e.v THEN [c |-> "vm", t |-> t]                 \* version cannot go backwards
  ELSE IF Present(e) /\ v = e.v
       THEN (IF e.x # x THEN [c |-> "vm", t |-> t]                    \* same version: same content
                        ELSE [c |-> "ok", t |-> t])
  ELSE [c |-> "ok", t |-> [t EXCEPT ![k] = Ent(v, x)]]

RECURSIVE SeqPutV(_, _, _)
SeqPutV(t, es, i) ==
  IF i > Len(es) THEN [c |-> "ok", t |-> t]
  ELSE LET o == TabPutV(t, es[i].k, es[i].v, es[i].x) IN
       IF o.c # "ok" THEN o ELSE SeqPutV(o.t, es, i + 1)

\* put_batch on a table (memory.rs:63): every entry is checked against the PRE-state, then all
\* are inserted in order (the last entry of a key wins)
TabBatch(t, es, K) ==
  IF K.batchSequential
  THEN LET o == SeqPutV(t, es, 1) IN IF o.c = "ok" THEN o ELSE [c |-> o.c, t |-> t]
  ELSE IF \E i \in DOMAIN es :
             LET e == t[es[i].k] IN
             Present(e) /\ (es[i].v < e.v \/ (es[i].v = e.v /\ e.x # es[i].x))
       THEN [c |-> "vm", t |-> t]
       ELSE [c |-> "ok",
             t |-> [k \in AllKeys |-> IF k \in BatchKeys(es)
                                      THEN Ent(LastFor(es, k).v, LastFor(es, k).x) ELSE t[k]]]

(***************************************************************************)
(* MemoryKVVStore.   state [t]                                              *)
(***************************************************************************)
MemInit == [t |-> EmptyTab]

MemStep(s, r, K) ==
  CASE r.op = "Put"    -> LET o == TabPutV(s.t, r.k, s.t[r.k].v + 1, r.x) IN Out(R(o.c, <<>>), [t |-> o.t])
    [] r.op = "Delete" -> LET o == TabPutV(s.t, r.k, s.t[r.k].v + 1, "") IN Out(R(o.c, <<>>), [t |-> o.t])
    [] r.op = "PutV"   -> LET o == TabPutV(s.t, r.k, r.v, r.x) IN Out(R(o.c, <<>>), [t |-> o.t])
    [] r.op = "Batch"  -> LET o == TabBatch(s.t, r.es, K) IN Out(R(o.c, <<>>), [t |-> o.t])
    [] r.op = "Get"        -> Out(RGet(r.k, s.t[r.k]), s)
    [] r.op = "GetVersion" -> Out(RVer(r.k, s.t[r.k].v), s)
    [] r.op = "GetPrefix"  -> Out(R("ok", PrefixFrom(s.t, r.p, 1)), s)
    [] r.op \in {"Reopen", "Crash"} -> Out(ROk, s)        \* nothing to reopen
    [] OTHER -> Out(ROk, s)                               \* enter / prepare / commit: trait defaults

(***************************************************************************)
(* RedbKVVStore.   state [t, c] : the table and the versions cache          *)
(***************************************************************************)
RedbInit == [t |-> EmptyTab, c |-> NoVers]

\* put_with_version (redb.rs:265)
RedbPutV(s, k, v, x) ==
  IF s.c[k] >= 0 /\ v < s.c[k] THEN Out(RVm, s)
  ELSE IF s.c[k] >= 0 /\ v = s.c[k]
       THEN (IF s.t[k] # Ent(v, x) THEN Out(RVm, s) ELSE Out(ROk, s))   \* compares the encoded (version, value)
  ELSE Out(ROk, [t |-> [s.t EXCEPT ![k] = Ent(v, x)], c |-> [s.c EXCEPT ![k] = v]])

\* put_batch (redb.rs:298): one write transaction; version comparisons use the cache (= the
\* pre-state), the equal-version comparison reads the table INSIDE the transaction (it sees the
\* earlier entries of the same batch) and skips the insert; a mismatch aborts.
RECURSIVE RedbLoop(_, _, _, _, _)
RedbLoop(acc, c, es, i, K) ==
  IF i > Len(es) THEN acc
  ELSE LET e   == es[i]
           cv  == IF K.batchSequential /\ acc.sv[e.k] >= 0 THEN acc.sv[e.k] ELSE c[e.k]
           ins == [acc EXCEPT !.w[e.k] = Ent(e.v, e.x), !.sv[e.k] = e.v]
       IN IF cv >= 0 /\ e.v < cv THEN RedbLoop([ins EXCEPT !.mism = TRUE], c, es, i + 1, K)
          ELSE IF cv >= 0 /\ e.v = cv
               THEN RedbLoop([acc EXCEPT !.mism = @ \/ (acc.w[e.k] # Ent(e.v, e.x))], c, es, i + 1, K)
          ELSE RedbLoop(ins, c, es, i + 1, K)

RedbBatch(s, es, K) ==
  LET a == RedbLoop([w |-> s.t, sv |-> NoVers, mism |-> FALSE], s.c, es, 1, K) IN
  IF a.mism THEN Out(RVm, s)
  ELSE Out(ROk, [t |-> a.w, c |-> [k \in AllKeys |-> IF a.sv[k] >= 0 THEN a.sv[k] ELSE s.c[k]]])

RedbStep(s, r, K) ==
  CASE r.op = "Put"    -> RedbPutV(s, r.k, s.c[r.k] + 1, r.x)
    [] r.op = "Delete" -> RedbPutV(s, r.k, s.c[r.k] + 1, "")
    [] r.op = "PutV"   -> RedbPutV(s, r.k, r.v, r.x)
    [] r.op = "Batch"  -> RedbBatch(s, r.es, K)
    [] r.op = "Get"        -> Out(RGet(r.k, s.t[r.k]), s)          \* reads the table
    [] r.op = "GetVersion" -> Out(RVer(r.k, s.c[r.k]), s)          \* reads the cache
    [] r.op = "GetPrefix"  -> Out(R("ok", PrefixFrom(s.t, r.p, 1)), s)
    \* reopen (cleanly closed, or "Crash": from a copy of the file taken while the store was open,
    \* every put / put_batch having committed durably before it returned): cache rebuilt from the table
    [] r.op \in {"Reopen", "Crash"} -> Out(ROk, [t |-> s.t, c |-> VersOf(s.t)])
    [] OTHER -> Out(ROk, s)

\* design-level invariant of the disk store: the cache is the version column of the table
CacheCoherent(s) == s.c = VersOf(s.t)

(***************************************************************************)
(* CloudKVVStore over a MemoryKVVStore.                                     *)
(* state [loc, ph, log]: local table, "closed" | "open" | "dead", commit    *)
(* log (Absent = key not in the log).  A call outside the protocol panics   *)
(* while the commit-log mutex is held, which poisons it: "dead" (every call *)
(* but get_prefix panics from then on).                                     *)
(***************************************************************************)
CloudInit == [loc |-> EmptyTab, ph |-> "closed", log |-> EmptyTab]
Dead(s) == Out(RPanic, [s EXCEPT !.ph = "dead", !.log = EmptyTab])
LogKeys(s) == {k \in AllKeys : Present(s.log[k])}
CloudRead(s, k) == IF Present(s.log[k]) THEN s.log[k] ELSE s.loc[k]

\* put_with_version (cloud.rs:98) inside a transaction: [c, log]
CloudPutV(s, log, k, v, x, K) ==
  LET le == s.loc[k] IN
  IF K.cloudChecksStaged /\ Present(log[k]) /\ v < log[k].v THEN [c |-> "vm", log |-> log]
  ELSE IF Present(le) /\ v < le.v THEN [c |-> "vm", log |-> log]    \* compares with the LOCAL version only
  ELSE IF Present(le) /\ v = le.v
       THEN (IF le.x # x THEN [c |-> "vm", log |-> log] ELSE [c |-> "ok", log |-> log])
  ELSE [c |-> "ok", log |-> [log EXCEPT ![k] = Ent(v, x)]]

\* put (cloud.rs:93): the version is the LOCAL version + 1 (with cloudChecksStaged: never below
\* a version already staged for the key)
CloudPutVersion(s, k, K) ==
  IF K.cloudChecksStaged /\ Present(s.log[k]) /\ s.log[k].v > s.loc[k].v + 1
  THEN s.log[k].v ELSE s.loc[k].v + 1

\* put_batch (cloud.rs:121): put_with_version one by one, stops at the first refusal
RECURSIVE CloudSeq(_, _, _, _, _)
CloudSeq(s, log, es, i, K) ==
  IF i > Len(es) THEN [c |-> "ok", log |-> log]
  ELSE LET o == CloudPutV(s, log, es[i].k, es[i].v, es[i].x, K) IN
       IF o.c # "ok" THEN o ELSE CloudSeq(s, o.log, es, i + 1, K)

CloudStep(s, r, K) ==
  IF r.op = "GetPrefix" THEN Out(R("ok", PrefixFrom(s.loc, r.p, 1)), s)    \* local only, no lock
  ELSE IF s.ph = "dead" THEN Dead(s)
  ELSE IF r.op = "Enter"
       THEN IF s.ph = "open" THEN Dead(s)                                 \* cannot enter twice
            ELSE Out(ROk, [s EXCEPT !.ph = "open",
                                    !.log = [EmptyTab EXCEPT ![WriterKey] =
                                               Ent(s.loc[WriterKey].v + 1, SignerVal)]])
  ELSE IF s.ph # "open" THEN Dead(s)                                      \* "not in transaction"
  ELSE CASE r.op = "Put"    -> LET o == CloudPutV(s, s.log, r.k, CloudPutVersion(s, r.k, K), r.x, K) IN
                               Out(R(o.c, <<>>), [s EXCEPT !.log = o.log])
         [] r.op = "Delete" -> LET o == CloudPutV(s, s.log, r.k, CloudPutVersion(s, r.k, K), "", K) IN
                               Out(R(o.c, <<>>), [s EXCEPT !.log = o.log])
         [] r.op = "PutV"   -> LET o == CloudPutV(s, s.log, r.k, r.v, r.x, K) IN
                               Out(R(o.c, <<>>), [s EXCEPT !.log = o.log])
         [] r.op = "Batch"  -> LET o == CloudSeq(s, s.log, r.es, 1, K) IN
                               Out(R(o.c, <<>>), [s EXCEPT !.log = o.log])
         [] r.op = "Get"        -> Out(RGet(r.k, CloudRead(s, r.k)), s)
         [] r.op = "GetVersion" -> Out(RVer(r.k, CloudRead(s, r.k).v), s)
         [] r.op = "Prepare" ->
              IF Cardinality(LogKeys(s)) = 1
              THEN IF LogKeys(s) = {WriterKey}
                   THEN Out(R("ok", <<>>), [s EXCEPT !.log = EmptyTab])    \* effectively empty: cleared
                   ELSE Dead(s)                                           \* assert_eq!(.., LAST_WRITER_KEY)
              ELSE Out(R("ok", Dump(s.log)), s)
         [] r.op = "Commit" ->
              LET d  == Dump(s.log)
                  es == [i \in 1..Len(d) |-> [k |-> d[i][1], v |-> d[i][2], x |-> d[i][3]]]
                  o  == TabBatch(s.loc, es, K)
              IN Out(R(o.c, <<>>), [loc |-> o.t, ph |-> "closed", log |-> EmptyTab])
         [] OTHER -> Out(ROk, s)

(***************************************************************************)
(* C16 as monitor clauses over observations.                                *)
(*                                                                         *)
(* Observation of a memory / disk store: [t, c]  t = the get_prefix("")     *)
(* dump as a table, c = get_version of every key of the universe.           *)
(* Each operator returns the set of violated clause names.                  *)
(***************************************************************************)
IsWrite(r) == r.op \in {"Put", "Delete", "PutV", "Batch"}
IsRead(r)  == r.op \in {"Get", "GetVersion", "GetPrefix"}
WKeys(r) == CASE r.op \in {"Put", "Delete", "PutV"} -> {r.k}
              [] r.op = "Batch" -> BatchKeys(r.es)
              [] OTHER -> {}
OpLabel(r) == IF r.op = "Batch" /\ HasDup(r.es) THEN "BatchDup" ELSE r.op

\* a write at the current version with different content
SameVerOtherContent(r, t) ==
  CASE r.op = "PutV"  -> Present(t[r.k]) /\ t[r.k].v = r.v /\ t[r.k].x # r.x
    [] r.op = "Batch" -> \E i \in DOMAIN r.es :
                           LET e == t[r.es[i].k] IN Present(e) /\ e.v = r.es[i].v /\ e.x # r.es[i].x
    [] OTHER -> FALSE

\* reads return the last accepted write
WriteVisible(r, t) ==
  CASE r.op = "Put"    -> t[r.k].x = r.x
    [] r.op = "Delete" -> t[r.k].x = ""
    [] r.op = "PutV"   -> t[r.k] = Ent(r.v, r.x)
    [] r.op = "Batch"  -> \A k \in BatchKeys(r.es) : t[k] = Ent(LastFor(r.es, k).v, LastFor(r.es, k).x)
    [] OTHER -> TRUE

ReadCorrect(r, resp, t) ==
  CASE r.op = "Get"        -> resp = RGet(r.k, t[r.k])
    [] r.op = "GetVersion" -> resp = RVer(r.k, t[r.k].v)
    [] r.op = "GetPrefix"  -> resp = R("ok", PrefixFrom(t, r.p, 1))
    [] OTHER -> TRUE

Clause(b, name) == IF b THEN {name} ELSE {}

StoreViol(r, resp, pre, post) ==
  LET ok == resp.c = "ok" IN
  \* a key's version never decreases (as stored, and as reported by get_version)
        Clause(\E k \in AllKeys : post.t[k].v < pre.t[k].v, "version-decreased")
  \cup  Clause(\E k \in AllKeys : post.c[k] < pre.c[k], "get_version-decreased")
  \* content never changes under an unchanged version
  \cup  Clause(\E k \in AllKeys : post.t[k].v = pre.t[k].v /\ post.t[k] # pre.t[k], "content-changed-at-same-version")
  \cup  Clause(ok /\ SameVerOtherContent(r, pre.t), "same-version-other-content-accepted")
  \* refused writes (batches: none of it) change nothing; accepted ones are what is read (batches: all of it)
  \cup  Clause(IsWrite(r) /\ ~ok /\ post # pre, "refused-write-changed-store")
  \cup  Clause(IsWrite(r) /\ ok /\ ~WriteVisible(r, post.t), "accepted-write-not-read-back")
  \cup  Clause(IsWrite(r) /\ \E k \in AllKeys \ WKeys(r) : post.t[k] # pre.t[k], "write-changed-other-key")
  \cup  Clause(\E k \in AllKeys : post.c[k] # post.t[k].v, "get_version-differs-from-contents")
  \cup  Clause(IsRead(r) /\ (~ReadCorrect(r, resp, pre.t) \/ post # pre), "read-not-last-accepted-write")
  \* the on-disk backend returns the same contents after being reopened
  \cup  Clause(r.op \in {"Reopen", "Crash"} /\ (~ok \/ post.t # pre.t \/ post.c # VersOf(pre.t)),
               "reopen-changed-contents")

\* memory and disk store give identical results for identical request sequences
\* (contents: charged to the request after which the two stores first differ)
DiffViol(r, respM, respR, preM, preR, postM, postR) ==
        Clause(respM # respR, "results:" \o OpLabel(r) \o ":mem=" \o respM.c \o ",redb=" \o respR.c)
  \cup  Clause(postM # postR /\ preM = preR, "contents:" \o OpLabel(r))

\* violation classes: "<backend>:<clause>"  (the differential clauses also name the entry point)
Tag(tag, S) == {tag \o ":" \o c : c \in S}

(***************************************************************************)
(* Cloud-staged backend.  Observation [loc, ph, view]: the local dump as a  *)
(* table, whether a transaction is open, and get(k) of every key inside the *)
(* transaction.  Ghost: rep = the mutations reported by the last prepare of *)
(* this transaction, valid while no write was accepted since.               *)
(***************************************************************************)
CloudGhostInit == [valid |-> FALSE, m |-> <<>>]

\* what the transaction (or, outside one, the local store) lets a caller read
Readable(o) == IF o.ph = "open" THEN o.view ELSE o.loc

OwnWriteReadable(r, view) ==
  CASE r.op = "Put"    -> view[r.k].x = r.x
    [] r.op = "Delete" -> view[r.k].x = ""
    \* (an older version than the one already readable may be ignored, never resurrected)
    [] r.op = "PutV"   -> view[r.k].v > r.v \/ view[r.k] = Ent(r.v, r.x)
    [] r.op = "Batch"  -> \A k \in BatchKeys(r.es) :
                             LET e == LastFor(r.es, k) IN view[k].v > e.v \/ view[k] = Ent(e.v, e.x)
    [] OTHER -> TRUE

RepTab(m) == [k \in AllKeys |-> IF \E i \in DOMAIN m : m[i][1] = k
                                THEN LET i == CHOOSE i \in DOMAIN m : m[i][1] = k IN Ent(m[i][2], m[i][3])
                                ELSE Absent]

CloudViol(g, r, resp, pre, post) ==
  LET ok   == resp.c = "ok"
      rt   == RepTab(g.m)          \* the mutations reported by the last prepare
      rnow == RepTab(resp.e)       \* (for prepare) the mutations reported now
      rdPre  == Readable(pre)
      rdPost == Readable(post)
  IN
  \* never lowers a version: in the local store, and in what the transaction reads (user keys)
        Clause(\E k \in AllKeys : post.loc[k].v < pre.loc[k].v, "local-version-decreased")
  \cup  Clause(\E k \in AllKeys : post.loc[k].v = pre.loc[k].v /\ post.loc[k] # pre.loc[k],
               "local-content-changed-at-same-version")
  \cup  Clause(pre.ph # "dead" /\ post.ph # "dead"
               /\ \E k \in UserKeys : rdPost[k].v < rdPre[k].v, "readable-version-lowered")
  \* a transaction reads its own writes by key
  \cup  Clause(IsWrite(r) /\ ok /\ post.ph = "open" /\ ~OwnWriteReadable(r, post.view), "own-write-not-readable")
  \cup  Clause(IsRead(r) /\ r.op # "GetPrefix" /\ ok /\ pre.ph = "open"
               /\ ~ReadCorrect(r, resp, pre.view), "read-differs-from-transaction-view")
  \* the local store changes only by commit ...
  \cup  Clause(r.op # "Commit" /\ post.loc # pre.loc, "local-changed-without-commit")
  \* ... and exactly by the mutations reported (when the report is still current)
  \cup  Clause(r.op = "Commit" /\ ok /\ g.valid
               /\ \E k \in AllKeys : post.loc[k] # (IF Present(rt[k]) THEN rt[k] ELSE pre.loc[k]),
               "commit-differs-from-reported-mutations")
  \cup  Clause(r.op = "Commit" /\ ok /\ ~g.valid /\ pre.ph = "open"
               /\ \E k \in AllKeys : post.loc[k] # pre.view[k], "commit-differs-from-transaction-writes")
  \cup  Clause(r.op = "Commit" /\ ~ok /\ post.loc # pre.loc, "refused-commit-changed-local")
  \* the report is the transaction's writes
  \cup  Clause(r.op = "Prepare" /\ ok /\ post.ph = "open"
               /\ \E k \in AllKeys : post.view[k] # (IF Present(rnow[k]) THEN rnow[k] ELSE post.loc[k]),
               "report-differs-from-transaction-writes")

CloudGhost(g, r, resp) ==
  IF r.op = "Prepare" /\ resp.c = "ok" THEN [valid |-> TRUE, m |-> resp.e]
  ELSE IF r.op \in {"Enter", "Commit"} \/ resp.c = "panic" THEN CloudGhostInit
  ELSE IF IsWrite(r) THEN CloudGhostInit                  \* (a refused batch may have staged a prefix)
  ELSE g

(***************************************************************************)
(* Request alphabets.                                                       *)
(***************************************************************************)
Entries(Ks, Vs, Xs) == {[k |-> k, v |-> v, x |-> x] : k \in Ks, v \in Vs, x \in Xs}

StoreRequests(Ks, MaxVer, Xs, BXs, Ps) ==
       {[op |-> "Put", k |-> k, x |-> x] : k \in Ks, x \in Xs \ {""}}
  \cup {[op |-> "Delete", k |-> k] : k \in Ks}
  \cup {[op |-> "PutV", k |-> k, v |-> v, x |-> x] : k \in Ks, v \in 0..MaxVer, x \in Xs}
  \cup {[op |-> "Batch", es |-> <<>>]}
  \cup {[op |-> "Batch", es |-> <<e>>] : e \in Entries(Ks, 0..MaxVer, BXs)}
  \cup {[op |-> "Batch", es |-> <<e, f>>] : e, f \in Entries(Ks, 0..MaxVer, BXs)}
  \cup {[op |-> "Get", k |-> k] : k \in Ks}
  \cup {[op |-> "GetVersion", k |-> k] : k \in Ks}
  \cup {[op |-> "GetPrefix", p |-> p] : p \in Ps}

PairRequests(Ks, MaxVer, Xs, BXs, Ps) ==
  StoreRequests(Ks, MaxVer, Xs, BXs, Ps) \cup {[op |-> "Reopen"], [op |-> "Crash"]}

CloudRequests(Ks, MaxVer, Xs, BKs, BVs, BXs, Ps) ==
       {[op |-> "Enter"], [op |-> "Prepare"], [op |-> "Commit"]}
  \cup {[op |-> "Put", k |-> k, x |-> x] : k \in Ks, x \in Xs \ {""}}
  \cup {[op |-> "Delete", k |-> k] : k \in Ks}
  \cup {[op |-> "PutV", k |-> k, v |-> v, x |-> x] : k \in Ks, v \in 0..MaxVer, x \in Xs}
  \cup {[op |-> "Batch", es |-> <<e>>] : e \in Entries(BKs, BVs, BXs)}
  \cup {[op |-> "Batch", es |-> <<e, f>>] : e, f \in Entries(BKs, BVs, BXs)}
  \cup {[op |-> "Get", k |-> k] : k \in Ks \cup {WriterKey}}
  \cup {[op |-> "GetVersion", k |-> k] : k \in Ks}
  \cup {[op |-> "GetPrefix", p |-> p] : p \in Ps}
=============================================================================
