---------------------------- MODULE CommitPolicy ----------------------------
(***************************************************************************)
(* C05 - accepted commitments satisfy every mandatory policy bound.         *)
(*                                                                         *)
(* The component under study (SimpleValidator / OnchainValidator behind      *)
(* Node::setup_channel, Channel::sign_counterparty_commitment_tx_phase2 and *)
(* Channel::validate_holder_commitment_tx_phase2) is a validator without    *)
(* history of its own, so this specification is                             *)
(*                                                                         *)
(*  1. a REFERENCE PREDICATE  MustRefuse  written from docs/policy-          *)
(*     controls.md, BOLT-3 and the text of property C05 - NOT from the      *)
(*     code.  Every rule is a separately named conjunct (Violated* return   *)
(*     the set of rule names a case breaks), a rule is mandatory unless the *)
(*     policy filter EXPLICITLY downgrades its tag;                         *)
(*  2. a code-shaped model  Step*  that lists the refusals in the order of  *)
(*     the implementation, with its machine arithmetic (u64 checked sums,   *)
(*     the fee-rate estimate and its cast to u32), used for conformance     *)
(*     (divergences are reported, never an alarm) and for the design-level  *)
(*     check "the code-shaped model satisfies the property" (leg A);        *)
(*  3. the tiny life cycle of one case                                       *)
(*        stub -setup-> ready -open-> opened -chain-> chained -request-> done*)
(*     or, with a commitment PENDING while the chain changes,               *)
(*        .. chained -request1-> pending -chain2-> chained2 -request-> done *)
(*     or, with TWO SUCCESSIVE commitments of one side (the first becomes    *)
(*     current, the chain may move, the next number follows),                *)
(*        .. pending -advance-> advanced -chain2-> chained2 -request-> done  *)
(*     with the ghost `acc` (what was ACCEPTED, together with the rules it  *)
(*     breaks) and the property as the invariant Inv_C05 over the ghost.    *)
(*                                                                         *)
(* Used by  MC_CommitPolicy    TLC enumerates the case matrix, runs the     *)
(*                             life cycle on the model, prints the cases    *)
(*          ImplCommitPolicy   TLC re-runs the life cycle on what the        *)
(*                             harness OBSERVED from the real crates and     *)
(*                             re-judges every logged concrete case          *)
(*                                                                         *)
(* Numbers.  Satoshi / millisatoshi amounts, fee rates and CLTV values are  *)
(* BigNat numbers (JSON arrays of base-10000 limbs), so u64 / u32 extremes  *)
(* are ordinary values here and the arithmetic oracle is this text.         *)
(* Small structural numbers (delays, counts, block numbers) are integers.   *)
(*                                                                         *)
(* A case c:                                                                 *)
(*  pol   [vk "simple"|"onchain", min_delay, max_delay, max_chan, max_htlcs, *)
(*         max_inflight, use_chain, min_fr, max_fr,                         *)
(*         filter << [tag <<segments>>, prefix, warn] .. >>]                *)
(*  setup [ctype "legacy"|"static"|"anchors"|"zerofee", outbound, value,    *)
(*         push_msat, hdelay (holder selected), cdelay (counterparty sel.)] *)
(*  chain [h0 height at setup, blocks fed after the open, fund_at, close_at *)
(*         (number of the block holding the funding / a closing tx, 0 none)]*)
(*  side  "holder" (validate_holder_commitment) | "cp" (sign counterparty)  *)
(*  n     commitment number of the request (0 initial, 1 first update)      *)
(*  pre   the initial commitments of the open step (used when n = 1)        *)
(*  req   [feerate, to_b, to_c, off << [v, cltv, h] >>, rcv]  in BROADCASTER *)
(*         terms (holder commitment: broadcaster = holder); h is the        *)
(*         IDENTITY OF THE PAYMENT HASH of the HTLC within its direction    *)
(*         (a small number, the harness derives the 32 bytes from it and    *)
(*         the direction): several HTLCs of one commitment may share it     *)
(*         (parts of one payment), and an HTLC of the next commitment may   *)
(*         have a hash that already occurs in the current one (the same     *)
(*         HTLC carried over, or another part added).  No rule of the       *)
(*         REFERENCE depends on h: every HTLC of an accepted commitment     *)
(*         must satisfy every bound, however familiar its hash is.          *)
(***************************************************************************)
EXTENDS BigNat, FiniteSets, TLC

\* ---- constants of the rules (BOLT-3 / bitcoin relay policy / policy-controls.md)
CHAN_DUST   == 354          \* smallest dust limit a channel may negotiate (any segwit output)
HTLC_DUST   == 330          \* p2wsh dust limit: base of the HTLC trim threshold
ANCHOR_SAT  == 330
MAX_CLTV    == 500000000    \* BOLT-2: cltv_expiry must be a block height
MIN_FUNDING_DEPTH == 1      \* "enough depth" of the on-chain validator

SafeTypes     == {"static", "zerofee"}
IsAnchors(t)  == t \in {"anchors", "zerofee"}
Weight(t, k)  == (IF IsAnchors(t) THEN 1124 ELSE 724) + 172 * k     \* BOLT-3 expected weight
TimeoutW(t)   == IF IsAnchors(t) THEN 666 ELSE 663
SuccessW(t)   == IF IsAnchors(t) THEN 706 ELSE 703
\* BOLT-3 trimming: an HTLC output below dust limit + fee of its second-level transaction
\* (no such fee with zero-fee anchors) must not appear
HtlcDust(t, dir, feerate) ==
  IF t = "zerofee" THEN N(CHAN_DUST)
  ELSE Add(N(HTLC_DUST), Div(MulInt(feerate, IF dir = "off" THEN TimeoutW(t) ELSE SuccessW(t)), 1000))

\* ---- rule names and their policy tags
SetupRules  == {"safe_type", "delay_holder", "delay_cp"}
CommitRules == {"chan_size", "unburied", "closed", "dust_b", "dust_c", "count", "cltv_abs", "cltv_low",
                "cltv_high", "dust_off", "dust_rcv", "inflight", "overflow", "underflow", "fee_low",
                "fee_high", "first_htlcs", "first_value"}
Tag(r) ==
  CASE r = "safe_type"    -> <<"policy", "channel", "safe", "type">>
    [] r = "delay_holder" -> <<"policy", "channel", "contest", "delay", "range", "holder">>
    [] r = "delay_cp"     -> <<"policy", "channel", "contest", "delay", "range", "counterparty">>
    [] r = "chan_size"    -> <<"policy", "funding", "max">>
    [] r \in {"unburied", "closed"} -> <<"policy", "commitment", "spends", "active", "utxo">>
    [] r \in {"dust_b", "dust_c", "dust_off", "dust_rcv"} -> <<"policy", "commitment", "outputs", "trimmed">>
    [] r = "count"        -> <<"policy", "commitment", "htlc", "count", "limit">>
    [] r \in {"cltv_abs", "cltv_low", "cltv_high"} -> <<"policy", "commitment", "htlc", "cltv", "range">>
    [] r = "inflight"     -> <<"policy", "commitment", "htlc", "inflight", "limit">>
    [] r \in {"fee_low", "fee_high", "underflow"} -> <<"policy", "commitment", "fee", "range">>
    [] r = "overflow"     -> <<"policy", "commitment", "payment", "velocity">>
    [] r = "first_htlcs"  -> <<"policy", "commitment", "first", "no", "htlcs">>
    [] r = "first_value"  -> <<"policy", "commitment", "initial", "funding", "value">>
\* outputs that do not add up are not a matter of policy: no filter can make them acceptable
Downgradable(r) == r \notin {"overflow", "underflow", "state"}

\* ---- the policy filter: the first matching rule decides, no match = error.
\* A tag is the sequence of its '-'-separated words.  A prefix rule stands for the string of
\* its words each followed by '-' (<< >> is the empty prefix, which matches every tag), so it
\* matches exactly the tags that properly extend it.
SegPrefix(p, t) == Len(p) < Len(t) /\ \A i \in 1..Len(p) : p[i] = t[i]
Matches(fr, tag) == IF fr.prefix THEN SegPrefix(fr.tag, tag) ELSE fr.tag = tag
RECURSIVE WarnFrom(_, _, _)
WarnFrom(f, tag, i) == IF i > Len(f) THEN FALSE
                       ELSE IF Matches(f[i], tag) THEN f[i].warn ELSE WarnFrom(f, tag, i + 1)
Downgraded(f, r) == Downgradable(r) /\ WarnFrom(f, Tag(r), 1)
Permissive(f) == Len(f) > 0 /\ f[1].prefix /\ f[1].tag = << >> /\ f[1].warn

\* ---- chain view implied by the blocks that were fed
Height(ch)     == ch.h0 + ch.blocks
FundDepth(ch)  == IF ch.fund_at = 0 THEN 0 ELSE ch.blocks - ch.fund_at + 1
CloseDepth(ch) == IF ch.close_at = 0 THEN 0 ELSE ch.blocks - ch.close_at + 1

\* ---- arithmetic of a commitment
RECURSIVE SumV(_, _)
SumV(hs, i) == IF i > Len(hs) THEN Z ELSE Add(hs[i].v, SumV(hs, i + 1))
HtlcSum(r)  == Add(SumV(r.off, 1), SumV(r.rcv, 1))
Outputs(r)  == Add(Add(r.to_b, r.to_c), HtlcSum(r))
NHtlc(r)    == Len(r.off) + Len(r.rcv)
\* anchors exist for a side that has a main output, and for both when there is any HTLC
AnchorSum(t, r) ==
  IF ~IsAnchors(t) THEN Z
  ELSE N(ANCHOR_SAT * ((IF ~IsZero(r.to_b) \/ NHtlc(r) > 0 THEN 1 ELSE 0)
                     + (IF ~IsZero(r.to_c) \/ NHtlc(r) > 0 THEN 1 ELSE 0)))
\* the fee rates that can have produced `fee` at weight w form an interval: LDK computes
\* fee = rate * w / 1000 rounded down, so  RateLo <= rate <= RateHi
RateLo(fee, w) == Div(MulInt(fee, 1000), w)
RateHi(fee, w) == Div(Add(MulInt(fee, 1000), N(999)), w)

(***************************************************************************)
(* 1. THE REFERENCE                                                         *)
(***************************************************************************)
ViolatedSetup(pol, s) ==
     (IF s.ctype \notin SafeTypes THEN {"safe_type"} ELSE {})
  \cup (IF s.cdelay < pol.min_delay \/ s.cdelay > pol.max_delay THEN {"delay_holder"} ELSE {})
  \cup (IF s.hdelay < pol.min_delay \/ s.hdelay > pol.max_delay THEN {"delay_cp"} ELSE {})

\* the commitment r with number n on side `side`, judged ON ITS OWN CONTENTS at the chain view ch
\* of the moment of the request (every HTLC, carried over or added, known hash or not, must be
\* within the expiry range THEN); fresh: it is NEW, i.e. this very commitment
\* (side, number, contents) was not accepted before - a commitment with different contents for
\* a number that was already validated / signed IS new
ViolatedCommit(pol, s, ch, side, n, r, fresh) ==
  LET k     == NHtlc(r)
      hsum  == HtlcSum(r)
      outs  == Add(Add(r.to_b, r.to_c), hsum)
      ovf   == ~FitsU64(outs)
      und   == ~ovf /\ Gt(outs, s.value)
      fee   == IF ovf \/ und THEN Z ELSE Sub(s.value, outs)
      w     == Weight(s.ctype, k)
      cpv   == IF side = "cp" THEN r.to_b ELSE r.to_c        \* what the counterparty gets
      h     == Height(ch)
      doff  == HtlcDust(s.ctype, "off", r.feerate)
      drcv  == HtlcDust(s.ctype, "rcv", r.feerate)
      All   == {r.off[i] : i \in 1..Len(r.off)} \cup {r.rcv[i] : i \in 1..Len(r.rcv)}
  IN
     (IF side = "cp" /\ Gt(s.value, pol.max_chan) THEN {"chan_size"} ELSE {})
  \cup (IF pol.vk = "onchain" /\ n > 0 /\ fresh /\ FundDepth(ch) < MIN_FUNDING_DEPTH THEN {"unburied"} ELSE {})
  \cup (IF pol.vk = "onchain" /\ n > 0 /\ fresh /\ CloseDepth(ch) > 0 THEN {"closed"} ELSE {})
  \cup (IF ~IsZero(r.to_b) /\ Lt(r.to_b, N(CHAN_DUST)) THEN {"dust_b"} ELSE {})
  \cup (IF ~IsZero(r.to_c) /\ Lt(r.to_c, N(CHAN_DUST)) THEN {"dust_c"} ELSE {})
  \cup (IF k > pol.max_htlcs THEN {"count"} ELSE {})
  \cup (IF \E x \in All : Ge(x.cltv, N(MAX_CLTV)) THEN {"cltv_abs"} ELSE {})
  \cup (IF pol.use_chain /\ \E x \in All : Lt(x.cltv, N(h + pol.min_delay)) THEN {"cltv_low"} ELSE {})
  \cup (IF pol.use_chain /\ \E x \in All : Gt(x.cltv, N(h + pol.max_delay)) THEN {"cltv_high"} ELSE {})
  \cup (IF \E i \in 1..Len(r.off) : Lt(r.off[i].v, doff) THEN {"dust_off"} ELSE {})
  \cup (IF \E i \in 1..Len(r.rcv) : Lt(r.rcv[i].v, drcv) THEN {"dust_rcv"} ELSE {})
  \cup (IF Gt(hsum, pol.max_inflight) THEN {"inflight"} ELSE {})
  \cup (IF ovf THEN {"overflow"} ELSE {})
  \cup (IF und THEN {"underflow"} ELSE {})
     \* every fee rate that explains the implied fee is below the minimum
  \cup (IF ~ovf /\ ~und /\ Lt(RateHi(fee, w), pol.min_fr) THEN {"fee_low"} ELSE {})
     \* even without the anchors every such rate is above the maximum (a maximum of u32::MAX,
     \* the largest value the policy field can hold, means "no upper bound")
  \cup (IF ~ovf /\ ~und /\ pol.max_fr # U32MAX /\ Gt(RateLo(Monus(fee, AnchorSum(s.ctype, r)), w), pol.max_fr)
          THEN {"fee_high"} ELSE {})
  \cup (IF n = 0 /\ k > 0 THEN {"first_htlcs"} ELSE {})
  \cup (IF n = 0 /\ s.outbound /\ Gt(cpv, Div(s.push_msat, 1000)) THEN {"first_value"} ELSE {})

Binding(pol, rules) == {r \in rules : ~Downgraded(pol.filter, r)}      \* the rules that bind
MustRefuse(pol, rules) == Binding(pol, rules) # {}

\* advisory (NOT part of C05): the fee rate CLAIMED in the request (it prices the second-level
\* HTLC transactions) is outside the policy range; reported as an observation only
ClaimedFeerateOutside(pol, s, r) ==
  NHtlc(r) > 0 /\ s.ctype # "zerofee" /\ (Lt(r.feerate, pol.min_fr) \/ Gt(r.feerate, pol.max_fr))

(***************************************************************************)
(* 2. THE CODE-SHAPED MODEL (order of checks and machine arithmetic of      *)
(*    vls-core/src/policy/simple_validator.rs, onchain_validator.rs)        *)
(*    Sw = [wrapFeerate |-> does estimate_feerate_per_kw wrap / truncate?]  *)
(***************************************************************************)
\* estimate_feerate_per_kw: (((fee * 1000) + 999) / weight) as u32
CodeRate(fee, w, Sw) ==
  IF Sw.wrapFeerate
    THEN ModPow2(Div(ModPow2(Add(MulInt(fee, 1000), N(999)), 64), w), 32)
    ELSE LET x == RateHi(fee, w) IN IF FitsU32(x) THEN x ELSE U32MAX

\* the first refusal of a list of triggered rules: a downgraded one only logs
RECURSIVE FirstBinding(_, _, _)
FirstBinding(f, rs, i) ==
  IF i > Len(rs) THEN "none"
  ELSE IF Downgraded(f, rs[i]) THEN FirstBinding(f, rs, i + 1) ELSE rs[i]
Opt(cond, r) == IF cond THEN << r >> ELSE << >>
Resp(rule) == [ok |-> rule = "none", rule |-> rule]

StepSetup(pol, s) ==
  Resp(FirstBinding(pol.filter,
         Opt(s.ctype \notin SafeTypes, "safe_type")
      \o Opt(s.cdelay < pol.min_delay \/ s.cdelay > pol.max_delay, "delay_holder")
      \o Opt(s.hdelay < pol.min_delay \/ s.hdelay > pol.max_delay, "delay_cp"), 1))

\* per HTLC, in the order of the loop body: expiry checks, running sum, trim check.
\* validate_expiry is applied to every HTLC every time it is encountered (the code's TODO(512)
\* "one check when the HTLC is introduced, another every time" is not implemented): the model
\* has no dependence on the current commitment's contents or on the payment hash here
RECURSIVE HtlcLoop(_, _, _, _, _, _, _)
HtlcLoop(hs, i, acc, dust, dustRule, pol, h) ==
  IF i > Len(hs) THEN [trig |-> << >>, sum |-> acc]
  ELSE LET x    == hs[i]
           acc2 == Add(acc, x.v) IN
       IF ~FitsU64(acc2)
         THEN [trig |-> Opt(Ge(x.cltv, N(MAX_CLTV)), "cltv_abs")
                     \o Opt(pol.use_chain /\ Lt(x.cltv, N(h + pol.min_delay)), "cltv_low")
                     \o Opt(pol.use_chain /\ Gt(x.cltv, N(h + pol.max_delay)), "cltv_high")
                     \o << "overflow" >>, sum |-> acc2]
         ELSE LET rest == HtlcLoop(hs, i + 1, acc2, dust, dustRule, pol, h) IN
              [trig |-> Opt(Ge(x.cltv, N(MAX_CLTV)), "cltv_abs")
                     \o Opt(pol.use_chain /\ Lt(x.cltv, N(h + pol.min_delay)), "cltv_low")
                     \o Opt(pol.use_chain /\ Gt(x.cltv, N(h + pol.max_delay)), "cltv_high")
                     \o Opt(Lt(x.v, dust), dustRule) \o rest.trig, sum |-> rest.sum]

\* validate_commitment_tx
TriggeredCommon(pol, s, ch, side, n, r, Sw) ==
  LET k    == NHtlc(r)
      h    == Height(ch)
      lo   == HtlcLoop(r.off, 1, Z, HtlcDust(s.ctype, "off", r.feerate), "dust_off", pol, h)
      lr   == IF FitsU64(lo.sum)
                THEN HtlcLoop(r.rcv, 1, lo.sum, HtlcDust(s.ctype, "rcv", r.feerate), "dust_rcv", pol, h)
                ELSE [trig |-> << >>, sum |-> lo.sum]
      hsum == lr.sum
      bc   == Add(r.to_b, r.to_c)
      outs == Add(bc, hsum)
      sumOK == FitsU64(hsum) /\ FitsU64(bc) /\ FitsU64(outs)
      und  == sumOK /\ Gt(outs, s.value)
      fee  == IF sumOK /\ ~und THEN Sub(s.value, outs) ELSE Z
      rate == CodeRate(fee, Weight(s.ctype, k), Sw)
      cpv  == IF side = "cp" THEN r.to_b ELSE r.to_c
  IN   Opt(~IsZero(r.to_b) /\ Lt(r.to_b, N(CHAN_DUST)), "dust_b")
    \o Opt(~IsZero(r.to_c) /\ Lt(r.to_c, N(CHAN_DUST)), "dust_c")
    \o Opt(k > pol.max_htlcs, "count")
    \o lo.trig \o lr.trig
    \o (IF ~FitsU64(hsum) THEN << >>
        ELSE Opt(Gt(hsum, pol.max_inflight), "inflight")
          \o (IF ~sumOK THEN << "overflow" >>
              ELSE IF und THEN << "underflow" >>
              ELSE Opt(Lt(rate, pol.min_fr), "fee_low")
                \o Opt(Gt(rate, pol.max_fr), "fee_high")
                \o Opt(n = 0 /\ k > 0, "first_htlcs")
                \o Opt(n = 0 /\ s.outbound /\ Gt(cpv, Div(s.push_msat, 1000)), "first_value")))

\* ensure_funding_buried_and_unspent
TriggeredOnchain(pol, ch, n) ==
  IF pol.vk = "onchain" /\ n > 0
    THEN Opt(FundDepth(ch) < MIN_FUNDING_DEPTH, "unburied") \o Opt(CloseDepth(ch) > 0, "closed")
    ELSE << >>

\* sign_counterparty_commitment_tx_phase2 / validate_holder_commitment_tx_phase2 with counterparty
\* signatures that verify and payments that are approved.  st: the enforcement state as far as the
\* life cycles reach it (no revocations): nh / nc next holder / counterparty commitment number,
\* curH / curC current contents (<< >> or << r >>), nextH the validated, not yet revoked one.
\* "state": a refusal by the enforcement state machine (Channel.tla: retry with changed
\* contents, revoked or future number), not a rule of C05.
\* After validation the transactions are rebuilt (LDK): a second-level HTLC transaction whose fee
\* exceeds the HTLC cannot be built ("builder": an internal error, or no signature can exist)
Unbuildable(s, r) ==
  /\ s.ctype # "zerofee"
  /\ \/ \E i \in 1..Len(r.off) : Lt(r.off[i].v, Div(MulInt(r.feerate, TimeoutW(s.ctype)), 1000))
     \/ \E i \in 1..Len(r.rcv) : Lt(r.rcv[i].v, Div(MulInt(r.feerate, SuccessW(s.ctype)), 1000))
StepCommit(pol, s, ch, side, n, r, st, Sw) ==
  LET common == TriggeredCommon(pol, s, ch, side, n, r, Sw)
      seq == IF side = "cp"
               THEN Opt(Gt(s.value, pol.max_chan), "chan_size")
                 \o TriggeredOnchain(pol, ch, n)                       \* every number > 0, retries included
                 \o common
                 \o Opt(n > st.nr + 1, "state")                         \* n > next_counterparty_revoke_num + 1
                 \o Opt(n + 1 = st.nc /\ st.curC # << r >>, "state")     \* retry with changed contents
                 \o Opt(n + 1 # st.nc /\ n # st.nc, "state")            \* neither current nor next
               ELSE Opt(n > st.nh + 1, "state")                         \* no commitment point that far ahead
                 \o (IF st.nh <= n THEN TriggeredOnchain(pol, ch, n) ELSE << >>)
                 \o common
                 \o Opt(n + 1 = st.nh /\ st.curH # << r >>, "state")     \* retry with changed contents
                 \o Opt(n + 2 <= st.nh, "state")
      v == FirstBinding(pol.filter, seq, 1) IN
  Resp(IF v = "none" /\ Unbuildable(s, r) THEN "builder" ELSE v)

(***************************************************************************)
(* 3. LIFE CYCLE OF ONE CASE AND THE PROPERTY                               *)
(*    st = [ph, nh, nc, nr, curH, nextH, curC, acc, ch]; events "setup",     *)
(*    "open", "chain", "request1", "advance", "chain2", "request"            *)
(***************************************************************************)
Phases == {"stub", "ready", "opened", "chained", "pending", "advanced", "chained2", "done", "dead"}
NoChain(h0) == [h0 |-> h0, blocks |-> 0, fund_at |-> 0, close_at |-> 0]
InitSt(c) == [ph |-> "stub", nh |-> 0, nc |-> 0, nr |-> 0, curH |-> << >>, nextH |-> << >>, curC |-> << >>,
              acc |-> {}, ch |-> NoChain(c.chain.h0)]

\* kind "setup": setup_channel only; "commit": [open when n > 0] ; chain ; request;
\* "seq": open ; chain ; request1 (c.seq.req1) ; then either
\*   chain2 (the chain changes to c.seq.chain2: blocks added or disconnected) ; request (c.req, the
\*          SAME number again), or, when c.seq.adv,
\*   advance (the pending commitment becomes current: the holder revokes its predecessor /
\*          the counterparty's revocation of the predecessor is validated) ; chain2 (the chain
\*          moves to c.seq.chain2 - possibly the same chain - while the first commitment is
\*          current) ; request (c.req, the NEXT number n; request1 had number n - 1)
NeedsOpen(c) == c.n > 0 \/ c.kind = "seq"
N1(c) == IF c.seq.adv THEN c.n - 1 ELSE c.n            \* the number of request1
\* the event enabled in a state of case c ("none": the behaviour is over)
EventOf(c, st) ==
  CASE st.ph = "stub" -> "setup"
    [] st.ph = "ready" -> IF c.kind = "setup" THEN "none" ELSE IF NeedsOpen(c) THEN "open" ELSE "chain"
    [] st.ph = "opened" -> "chain"
    [] st.ph = "chained" -> IF c.kind = "seq" THEN "request1" ELSE "request"
    [] st.ph = "pending" -> IF c.seq.adv THEN "advance" ELSE "chain2"
    [] st.ph = "advanced" -> "chain2"
    [] st.ph = "chained2" -> "request"
    [] OTHER -> "none"

\* the open step presents the initial commitment of either side
PreHolder(c) == c.pre.holder
PreCp(c)     == c.pre.cp
ReqOfEv(c, ev) == IF ev = "request1" THEN c.seq.req1 ELSE c.req
NumOfEv(c, ev) == IF ev = "request1" THEN N1(c) ELSE c.n
Fresh(st, side, n, r) == <<side, n, r>> \notin st.acc

\* what the model answers to the event
ModelResp(c, st, ev, Sw) ==
  CASE ev = "setup" -> StepSetup(c.pol, c.setup)
    [] ev = "open" ->
         LET a == StepCommit(c.pol, c.setup, st.ch, "cp", 0, PreCp(c), st, Sw)
             b == StepCommit(c.pol, c.setup, st.ch, "holder", 0, PreHolder(c), st, Sw) IN
         IF ~a.ok THEN a ELSE b
    [] ev \in {"chain", "chain2"} -> Resp("none")
       \* revoke_previous_holder_commitment / validate_counterparty_revocation (with the right secret)
    [] ev = "advance" -> Resp(IF (c.side = "holder" /\ st.nextH # << >>) \/ (c.side = "cp" /\ st.nc = st.nr + 2)
                               THEN "none" ELSE "state")
    [] ev \in {"request", "request1"} ->
         StepCommit(c.pol, c.setup, st.ch, c.side, NumOfEv(c, ev), ReqOfEv(c, ev), st, Sw)

\* the enforcement state after an ACCEPTED commitment request
Accepted(st, side, n, r) ==
  LET s1 == [st EXCEPT !.acc = @ \cup {<<side, n, r>>}] IN
  IF side = "holder"
    THEN IF n = st.nh THEN [s1 EXCEPT !.nextH = << r >>] ELSE s1
    ELSE IF n = st.nc THEN [s1 EXCEPT !.nc = n + 1, !.curC = << r >>] ELSE s1

\* the state after the event was answered with ok / not ok
After(c, st, ev, ok) ==
  CASE ev = "setup" -> [st EXCEPT !.ph = IF ok THEN "ready" ELSE "dead"]
    [] ev = "open"  -> IF ok THEN [st EXCEPT !.ph = "opened", !.nh = 1, !.nc = 1, !.curH = << PreHolder(c) >>,
                                              !.curC = << PreCp(c) >>,
                                              !.acc = {<<"holder", 0, PreHolder(c)>>, <<"cp", 0, PreCp(c)>>}]
                       ELSE [st EXCEPT !.ph = "dead"]
    [] ev = "chain" -> [st EXCEPT !.ph = "chained",
                                  !.ch = [h0 |-> c.chain.h0, blocks |-> c.chain.blocks,
                                          fund_at |-> c.chain.fund_at, close_at |-> c.chain.close_at]]
    [] ev = "chain2" -> [st EXCEPT !.ph = "chained2",
                                   !.ch = [h0 |-> c.chain.h0, blocks |-> c.seq.chain2.blocks,
                                           fund_at |-> c.seq.chain2.fund_at, close_at |-> c.seq.chain2.close_at]]
    [] ev = "request1" -> [(IF ok THEN Accepted(st, c.side, N1(c), c.seq.req1) ELSE st) EXCEPT !.ph = "pending"]
    [] ev = "advance" ->
         IF ~ok THEN [st EXCEPT !.ph = "dead"]
         ELSE IF c.side = "holder"
           THEN [st EXCEPT !.ph = "advanced", !.nh = @ + 1, !.curH = st.nextH, !.nextH = << >>]
           ELSE [st EXCEPT !.ph = "advanced", !.nr = @ + 1]
    [] ev = "request" -> [(IF ok THEN Accepted(st, c.side, c.n, c.req) ELSE st) EXCEPT !.ph = "done"]

\* the rules broken by what the event asks to accept (evaluated on the inputs and on what was
\* ACCEPTED before, nothing else)
BrokenBy(c, st, ev) ==
  CASE ev = "setup" -> ViolatedSetup(c.pol, c.setup)
    [] ev = "open" -> ViolatedCommit(c.pol, c.setup, st.ch, "cp", 0, PreCp(c), TRUE)
                        \cup ViolatedCommit(c.pol, c.setup, st.ch, "holder", 0, PreHolder(c), TRUE)
    [] ev \in {"chain", "chain2", "advance"} -> {}
    [] ev \in {"request", "request1"} ->
         ViolatedCommit(c.pol, c.setup, st.ch, c.side, NumOfEv(c, ev), ReqOfEv(c, ev),
                        Fresh(st, c.side, NumOfEv(c, ev), ReqOfEv(c, ev)))

\* ghost: the bound rules broken by an ACCEPTED event (empty: nothing wrong was accepted)
GhostAfter(c, st, ev, ok) == IF ok THEN Binding(c.pol, BrokenBy(c, st, ev)) ELSE {}

\* THE PROPERTY, over observations: nothing that breaks a binding rule was accepted
Inv_C05(bad) == bad = {}
=============================================================================
