-------------------------- MODULE ImplCommitPolicy --------------------------
(***************************************************************************)
(* Leg B of C05: what the harness RECORDED from the real crates             *)
(* (`commitpolicy run`: one ndjson record per case with the concrete values  *)
(* that were used and the real verdict of setup_channel, of the open step    *)
(* and of the commitment request) is loaded here and                        *)
(*   1. the life cycle of every case is re-run with the OBSERVED verdicts;  *)
(*      every observed step is compared with the code-shaped model           *)
(*      (CommitPolicy!ModelResp): a different verdict or a refusal by a      *)
(*      different check is a DIVERGENCE (reported in CP_REPORT, no alarm);  *)
(*   2. the reference predicate is evaluated on the LOGGED CONCRETE VALUES  *)
(*      of everything the implementation ACCEPTED; the ghost `bad` collects  *)
(*      the binding rules an accepted step breaks; invariant C05: bad = {}.  *)
(*      Two-commitment histories (advance, then the chain may move) are      *)
(*      judged at the chain view of EACH request; the finding key says       *)
(*      whether the accepted commitment carried an HTLC over / held an HTLC  *)
(*      whose payment hash was already in the previous commitment.           *)
(* Implementation stricter than the reference is counted, not an alarm.     *)
(* Vacuity guard: every rule must have been the SOLE reason of a refusal     *)
(* observed on the real code at least once (report.sole_missing).           *)
(*                                                                         *)
(* IOEnv: CP_LOG, CP_REPORT, CP_WRAP_FEERATE                                *)
(***************************************************************************)
EXTENDS CommitPolicy, Json, IOUtils, SequencesExt

Log  == ndJsonDeserialize(IOEnv.CP_LOG)
NLog == Len(Log)
Sw   == [wrapFeerate |-> IOEnv.CP_WRAP_FEERATE = "true"]

ObsOf(c, ev) == CASE ev = "setup" -> c.obs.setup
                  [] ev = "open" -> c.obs.open
                  [] ev \in {"chain", "chain2"} -> "ok"
                  [] ev = "advance" -> c.obs.adv
                  [] ev = "request1" -> c.obs.res1
                  [] ev = "request" -> c.obs.res
ClsOf(c, ev) == CASE ev = "setup" -> c.obs.setup_cls
                  [] ev = "open" -> c.obs.open_cls
                  [] ev \in {"chain", "chain2"} -> "none"
                  [] ev = "advance" -> IF c.obs.adv = "ok" THEN "none" ELSE "state"
                  [] ev = "request1" -> c.obs.res1_cls
                  [] ev = "request" -> c.obs.res_cls
\* the harness names the refusing check after its message; the model names the rule
RuleCls(r) == CASE r \in {"dust_b", "dust_c", "dust_off", "dust_rcv"} -> "dust"
                [] r \in {"cltv_abs", "cltv_low", "cltv_high"} -> "cltv"
                [] OTHER -> r

\* some HTLC of hs is not in ps (the same direction of the previous commitment of that side) but
\* has a payment hash that occurs there: another part of a payment, or a replaced HTLC
KnownHashNewHtlc(hs, ps) ==
  \E i \in 1..Len(hs) : /\ \A j \in 1..Len(ps) : hs[i] # ps[j]
                        /\ \E j \in 1..Len(ps) : hs[i].h = ps[j].h

\* which history / arithmetic class an accepted commitment is in (part of the finding key)
Detail(c, s, ev) ==
  IF ev \notin {"request", "request1", "open"} THEN "-"
  ELSE IF c.kind = "seq" /\ ev = "request" /\ Fresh(s, c.side, c.n, c.req)
            /\ \E t \in s.acc : t[1] = c.side /\ t[2] = c.n
         THEN "changed-contents-for-an-accepted-number"
  ELSE IF c.kind = "seq" /\ c.seq.adv /\ ev = "request"
            /\ \E t \in s.acc : t[1] = c.side /\ t[2] = c.n - 1
                                 /\ (KnownHashNewHtlc(c.req.off, t[3].off) \/ KnownHashNewHtlc(c.req.rcv, t[3].rcv))
         THEN "htlc-with-a-payment-hash-of-the-previous-commitment"
  ELSE IF c.kind = "seq" /\ c.seq.adv /\ ev = "request"
            /\ \E t \in s.acc : t[1] = c.side /\ t[2] = c.n - 1
                                 /\ (   (\E i \in 1..Len(c.req.off) : \E j \in 1..Len(t[3].off) : c.req.off[i] = t[3].off[j])
                                     \/ (\E x \in 1..Len(c.req.rcv) : \E y \in 1..Len(t[3].rcv) : c.req.rcv[x] = t[3].rcv[y]))
         THEN "htlc-carried-over-from-the-previous-commitment"
  ELSE LET r    == IF ev = "open" THEN c.pre.holder ELSE ReqOfEv(c, ev)
           outs == Outputs(r) IN
       IF ~FitsU64(outs) THEN "sum>=2^64"
       ELSE IF Gt(outs, c.setup.value) THEN "outputs>value"
       ELSE LET fee == Sub(c.setup.value, outs)
                w   == Weight(c.setup.ctype, NHtlc(r)) IN
            IF ~FitsU64(Add(MulInt(fee, 1000), N(999))) THEN "fee*1000>=2^64"
            ELSE IF ~FitsU32(RateHi(fee, w)) THEN "rate>=2^32"
            ELSE "in-range-arithmetic"

\* the observed life cycle of one record: the steps with everything TLC has to say about them
RECURSIVE Walk(_, _)
Walk(c, s) ==
  LET ev == EventOf(c, s) IN
  IF ev = "none" \/ ObsOf(c, ev) = "none" THEN << >>
  ELSE LET ok == ObsOf(c, ev) = "ok"
           br == BrokenBy(c, s, ev)
           m  == ModelResp(c, s, ev, Sw) IN
       << [ev |-> ev, obs |-> ObsOf(c, ev), cls |-> ClsOf(c, ev), broken |-> br,
           binding |-> Binding(c.pol, br), mok |-> m.ok, mrule |-> m.rule,
           detail |-> IF ok /\ Binding(c.pol, br) # {} THEN Detail(c, s, ev) ELSE "-"] >>
       \o Walk(c, After(c, s, ev, ok))
WalkOf(j) == Walk(Log[j], InitSt(Log[j]))

(***************************************************************************)
(* The product explored by TLC: record i, step k of its observed life cycle *)
(***************************************************************************)
VARIABLES i, st, k, bad

Init == /\ i \in 1..NLog
        /\ st = InitSt(Log[i])
        /\ k = 0
        /\ bad = {}
Next == LET c  == Log[i]
            ev == EventOf(c, st) IN
        /\ ev # "none"
        /\ ObsOf(c, ev) # "none"
        /\ LET ok == ObsOf(c, ev) = "ok" IN
           /\ st' = After(c, st, ev, ok)
           /\ bad' = bad \cup GhostAfter(c, st, ev, ok)
        /\ k' = k + 1
        /\ UNCHANGED i
Spec == Init /\ [][Next]_<<i, st, k, bad>>
View == <<i, k, bad>>

C05 == Inv_C05(bad)

(***************************************************************************)
(* Report (one pass: S is the tuple of all walks, evaluated once)           *)
(***************************************************************************)
Flat(S) == UNION {{<<j, q>> : q \in 1..Len(S[j])} : j \in 1..NLog}
ReportOf(S) ==
  LET All == Flat(S)
      At(p) == S[p[1]][p[2]]
      Violating == {p \in All : At(p).obs = "ok" /\ At(p).binding # {}}
      Stricter  == {p \in All : At(p).obs = "refused" /\ At(p).binding = {} /\ At(p).ev \notin {"chain", "chain2", "advance"}}
      Panicked  == {p \in All : At(p).obs = "panic"}
      Diverging == {p \in All : LET s == At(p) IN
                      /\ s.obs # "panic"
                      /\ \/ s.mok # (s.obs = "ok")
                         \/ ~s.mok /\ RuleCls(s.mrule) # s.cls
                                    /\ ~(s.mrule = "builder" /\ s.cls \in {"builder", "signature"})}
      Singles   == {p \in All : Cardinality(At(p).binding) = 1}
      SoleRefused == UNION {At(p).binding : p \in {q \in Singles : At(q).obs \in {"refused", "panic"}}}
      SoleAny     == UNION {At(p).binding : p \in Singles}
      Advisory  == {j \in 1..NLog : LET c == Log[j] IN
                      c.kind = "commit" /\ c.obs.res = "ok" /\ ClaimedFeerateOutside(c.pol, c.setup, c.req)}
      Unreached == {j \in 1..NLog : Log[j].kind = "commit" /\ Log[j].obs.res = "none"}
      Describe(p) == LET c == Log[p[1]] s == At(p) IN
        [id |-> c.id, fam |-> c.fam, why |-> c.why, ev |-> s.ev, side |-> IF s.ev = "setup" THEN "-" ELSE c.side,
         n |-> c.n, obs |-> s.obs, cls |-> s.cls, rules |-> SetToSeq(s.binding), broken |-> SetToSeq(s.broken),
         detail |-> s.detail, model_ok |-> s.mok, model_rule |-> s.mrule, line |-> p[1]]
      Some(Q, m) == LET q == SetToSeq(Q) IN [x \in 1..(IF Len(q) < m THEN Len(q) ELSE m) |-> Describe(q[x])]
      ClsCount(Q) == LET cs == {At(p).cls : p \in Q} IN
                     SetToSeq({<<c, Cardinality({p \in Q : At(p).cls = c})>> : c \in cs})
  IN
  [ records      |-> NLog,
    steps        |-> Cardinality(All),
    accepted     |-> Cardinality({p \in All : At(p).obs = "ok" /\ At(p).ev \notin {"chain", "chain2", "advance"}}),
    refused      |-> Cardinality({p \in All : At(p).obs = "refused"}),
    panics       |-> Cardinality(Panicked),
    panic_samples |-> Some(Panicked, 5),
    unreached    |-> Cardinality(Unreached),
    nviolations  |-> Cardinality(Violating),
    violations   |-> Some(Violating, 400),
    impl_stricter |-> Cardinality(Stricter),
    stricter_by_cls |-> ClsCount(Stricter),
    stricter_samples |-> Some(Stricter, 10),
    ndivergences |-> Cardinality(Diverging),
    divergences  |-> Some(Diverging, 40),
    divergence_kinds |-> LET K(p) == <<At(p).ev, At(p).obs, At(p).cls, At(p).mok, At(p).mrule>>
                             ks == {K(p) : p \in Diverging} IN
                         SetToSeq({<<x, Cardinality({p \in Diverging : K(p) = x})>> : x \in ks}),
    sole_refused |-> SetToSeq(SoleRefused),
    sole_missing |-> SetToSeq((CommitRules \cup SetupRules) \ SoleRefused),
    sole_in_matrix_missing |-> SetToSeq((CommitRules \cup SetupRules) \ SoleAny),
    advisory_claimed_feerate_outside_accepted |-> Cardinality(Advisory) ]

\* (not a named zero-arity definition: TLC would evaluate it a second time at start-up)
ASSUME JsonSerialize(IOEnv.CP_REPORT, ReportOf(TLCEval([j \in 1..NLog |-> TLCEval(WalkOf(j))])))
=============================================================================
