---------------------------- MODULE NodeAlphabet ----------------------------
EXTENDS Node, Json, IOUtils, SequencesExt
VARIABLE x
Init == x = 0
Next == UNCHANGED x
\* ND_LEVEL (optional): "handler" = the requests that have a protocol form (component nhand), "handler-wide" /
\* "handler-deep" = its wider alphabets
Level == IF "ND_LEVEL" \in DOMAIN IOEnv THEN IOEnv.ND_LEVEL ELSE "node"
ASSUME JsonSerialize(IOEnv.ND_OUT, SetToSeq(CASE Level = "handler" -> HRequests
                                              [] Level = "handler-wide" -> HRequestsWide
                                              [] Level = "handler-deep" -> HRequestsDeep
                                              [] Level = "issue" -> IssueRequests
                                              [] OTHER -> Requests))
=============================================================================
