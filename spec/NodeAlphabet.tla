---------------------------- MODULE NodeAlphabet ----------------------------
EXTENDS Node, Json, IOUtils, SequencesExt
VARIABLE x
Init == x = 0
Next == UNCHANGED x
ASSUME JsonSerialize(IOEnv.ND_OUT, SetToSeq(Requests))
=============================================================================
