----------------------------- MODULE SimVelocity -----------------------------
(* Leg C of C12 (spec -> impl): random behaviours of the Velocity model over   *)
(* the cases of VelocityCases (IOEnv.VEL_CASES), printed as request sequences  *)
(* that the harness replays through the real implementation from a fresh       *)
(* signer.  Richer than the exhaustive alphabets of leg B: EVERY delta up to   *)
(* full expiry + 1, every amount of the case.  Restarts and requests that      *)
(* change the state are weighted up.  Run with  tlc -simulate num=N -depth D+3 *)
EXTENDS Velocity, Json, IOUtils, SequencesExt

CONSTANTS Depth, Keep, PersistFee
VARIABLES cfg, s, hist, w

Cases == JsonDeserialize(IOEnv.VEL_CASES)
Levels == IOEnv.VEL_LEVELS          \* "node" | "all" | "retry" (only the cases with named payment hashes)
ParamsOf(c) == [level |-> c.level, pay |-> c.pay, fee |-> c.fee, keep |-> Keep, persistFee |-> PersistFee,
                ns |-> c.ns]

Ops(c)  == {c.reqs[i].op : i \in DOMAIN c.reqs}
AmtsOf(c, op) == {c.reqs[i].a : i \in {j \in DOMAIN c.reqs : c.reqs[j].op = op}}
CtlOf(c, op)  == IF op \in FeeOps THEN c.fee ELSE c.pay
HsOf(c, op)   == {c.reqs[i].h : i \in {j \in DOMAIN c.reqs : c.reqs[j].op = op}}
ReqsOf(c) == UNION {{ReqH(op, dt, a, h) : dt \in AllDts(CtlOf(c, op)), a \in AmtsOf(c, op), h \in HsOf(c, op)}
                     : op \in Ops(c) \ {"Restart"}}

Weight(c, st, r) == IF r.op = "Restart" THEN 12
                    ELSE LET o == Step(st, r, ParamsOf(c)) IN
                         IF o.resp.ok /\ r.a > 0 THEN 3 ELSE 1

Init == /\ cfg \in {i \in DOMAIN Cases : \/ Levels = "all" \/ Cases[i].level = Levels
                                       \/ (Levels = "retry" /\ Cases[i].ns > 0)}
        /\ s = InitState(ParamsOf(Cases[cfg]))
        /\ hist = <<>>
        /\ w = 0
Next == \/ /\ Len(hist) < Depth
           /\ \E r \in ReqsOf(Cases[cfg]) \cup {RestartReq} : \E k \in 1..Weight(Cases[cfg], s, r) :
                 /\ s' = Step(s, r, ParamsOf(Cases[cfg])).s
                 /\ hist' = Append(hist, r)
                 /\ w' = k
           /\ UNCHANGED cfg
        \/ /\ Len(hist) = Depth /\ w # -1          \* one final step, so that Emit prints once
           /\ w' = -1
           /\ UNCHANGED <<cfg, s, hist>>
Spec == Init /\ [][Next]_<<cfg, s, hist, w>>

Emit == w = -1 => PrintT(<<"SIM", ToJson([c |-> cfg, reqs |-> hist])>>)
=============================================================================
