SPECIFICATION Spec
INVARIANTS C04_RawAcceptsOnlyCanonical C04_Equivalence C04_SemSignsCanonical C04_RetryOnlyRecorded RefConsistent TypeOK
CHECK_DEADLOCK FALSE
