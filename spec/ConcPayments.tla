---------------------------- MODULE ConcPayments ----------------------------
(***************************************************************************)
(* C20 atomicity leg / C06 under concurrency: pairs of Payments.tla requests *)
(* executed CONCURRENTLY on one real node with several funded channels under *)
(* imposed schedules (`payments conc`: one thread is held before each of its *)
(* lock acquisitions in turn while the other request runs).                  *)
(*   Runs[i]  = [case, held, k, stuck, pre, a, b, ra, rb, post, sab, sba]     *)
(*              sab / sba = [ra, rb, post] of the implementation's own        *)
(*              sequential executions a;b and b;a from the same start state   *)
(*   Cases[j] = [case, steps]  the recorded prefix that leads to the start    *)
(*              state (for the ghost ledger's history)                        *)
(* A run is linearizable iff replies and final projected state (ledger       *)
(* included) equal those of a;b or b;a as executed by the implementation     *)
(* (the property; VIOLATION otherwise).  What Payments!Step gives for the     *)
(* two orders is compared as conformance only.  The ghost ledger of C06 is    *)
(* evaluated on the concurrent outcome: an overpayment (clause a) or an       *)
(* unbacked payment (clause b) that no order of the two accepted requests     *)
(* avoids is reported under C06.                                              *)
(***************************************************************************)
EXTENDS Payments, Json, IOUtils, SequencesExt

Runs  == ndJsonDeserialize(IOEnv.CP_RUNS)
Cases == ndJsonDeserialize(IOEnv.CP_CASES)
ToNat(str) == CHOOSE n \in 0..200 : ToString(n) = str
K == [fee |-> ToNat(IOEnv.PM_FEE), pct |-> ToNat(IOEnv.PM_PCT),
      revokeValidates |-> IOEnv.PM_REVOKE_VALIDATES = "true",
      vlim |-> ToNat(IOEnv.PM_VLIM)]   \* payment velocity limit of the nodes of this group of cases

\* post = projection onto Payments' variables (per-hash ledger included); postx = the node's balance
\* bookkeeping that policy.enforce_balance maintains (excess_amount)
Same(r, q) == r.ra = q.ra /\ r.rb = q.rb /\ r.post = q.post /\ r.postx = q.postx
LinImpl(r) == Same(r, r.sab) \/ Same(r, r.sba)

\* the requests carry the commitment number the harness fixed at the start state ("n"): drop it
\* (and "via", the channel a preimage is reported through, which the ledger does not depend on)
Req(x) == [f \in (DOMAIN x) \ {"n", "via"} |-> x[f]]
SpecOrder(pre, x, y) == LET o1 == Step(pre, Req(x), K) o2 == Step(o1.s, Req(y), K) IN <<o1.resp, o2.resp, o2.s>>
\* two requests on one channel carry the SAME number, which the model (always the next number) does not describe
SameChan(r) == "ch" \in DOMAIN r.a /\ "ch" \in DOMAIN r.b /\ r.a.ch = r.b.ch
\* (Payments.tla does not model the balance register: runs under enforce_balance are compared with the
\* implementation's own sequential outcomes only)
LinSpec(r) == \/ SameChan(r) \/ r.enforce
              \/ SpecOrder(r.pre, r.a, r.b) = <<r.ra, r.rb, r.post>>
              \/ SpecOrder(r.pre, r.b, r.a) = <<r.rb, r.ra, r.post>>

\* ghost ledger: history of the prefix, then the two requests of the race in either order (the
\* intermediate state is not observable: the start and final states stand in for it)
CaseOf(r) == Cases[CHOOSE j \in DOMAIN Cases : Cases[j].case = r.case]
G0(r) == FoldLeft(LAMBDA g, e : Ghost(g, e.req, e.resp, e.pre, e.post, "ab"),
                  InitGhost(DOMAIN r.pre.ch, DOMAIN r.pre.inv), CaseOf(r).steps)
GAfter(r, x, rx, y, ry) == Ghost(Ghost(G0(r), Req(x), rx, r.pre, r.post, "ab"), Req(y), ry, r.pre, r.post, "ab")
Holds(g) == Inv_C06a(g, K) /\ Inv_C06b(g)
GhostBad(r) == /\ Holds(G0(r))
               /\ ~Holds(GAfter(r, r.a, r.ra, r.b, r.rb))
               /\ ~Holds(GAfter(r, r.b, r.rb, r.a, r.ra))
Clause(r) == IF ~Inv_C06a(GAfter(r, r.a, r.ra, r.b, r.rb), K) THEN "C06a" ELSE "C06b"

Idx == DOMAIN Runs
Stuck    == {i \in Idx : Runs[i].stuck}
NonLin   == {i \in Idx : ~Runs[i].stuck /\ ~LinImpl(Runs[i])}
SpecDiv  == {i \in Idx : ~Runs[i].stuck /\ LinImpl(Runs[i]) /\ ~LinSpec(Runs[i])}
OverpaidRuns == {i \in Idx : ~Runs[i].stuck /\ GhostBad(Runs[i])}
\* how many runs really interleaved / raced on the ledger (vacuity guard)
Interleaved == {i \in Idx : ~Runs[i].stuck /\ Runs[i].other_ran_through}
BothOk   == {i \in Idx : ~Runs[i].stuck /\ Runs[i].ra.ok /\ Runs[i].rb.ok}
OrderMatters == {i \in Idx : ~Runs[i].stuck /\ ~Same(Runs[i].sab, Runs[i].sba)}

FirstN(S, n) == LET q == SetToSeq(S) IN SubSeq(q, 1, Min(n, Len(q)))
Report == [ runs |-> Len(Runs), cases |-> Len(Cases),
            stuck |-> FirstN({Runs[i] : i \in Stuck}, 10),
            nonlinearizable |-> FirstN({Runs[i] : i \in NonLin}, 40),
            n_nonlinearizable |-> Cardinality(NonLin),
            overpaid |-> FirstN({[run |-> Runs[i], clause |-> Clause(Runs[i])] : i \in OverpaidRuns}, 40),
            n_overpaid |-> Cardinality(OverpaidRuns),
            spec_divergences |-> FirstN({Runs[i] : i \in SpecDiv}, 10),
            n_spec_divergences |-> Cardinality(SpecDiv),
            interleaved |-> Cardinality(Interleaved), both_accepted |-> Cardinality(BothOk),
            order_matters |-> Cardinality(OrderMatters) ]
ASSUME JsonSerialize(IOEnv.CP_REPORT, Report)

VARIABLE x
Init == x = 0
Next == UNCHANGED x
=============================================================================
