-------------------------------- MODULE Node --------------------------------
(***************************************************************************)
(* Node-level requests of the signer (vls-core/src/node.rs): allowlist,     *)
(* invoices / keysends, channel creation and forgetting (node-assigned id   *)
(* high-water mark), heartbeat, restart.  Step(s, r, k) mirrors the code's  *)
(* order of checks and mutations; k carries behaviour switches:             *)
(*   atomicAllowlist = FALSE: the code at the pinned commit mutates the     *)
(*   in-memory allowlist entry by entry and returns at the first entry that *)
(*   does not parse (set_allowlist has already cleared the list).           *)
(* Used by MC_Node (leg A) and ImplNode (leg B, graph extracted from the    *)
(* real node).  Serves C10 / C11 (frame, durability) and the id rule of C15.*)
(***************************************************************************)
EXTENDS Naturals, Integers, Sequences, FiniteSets, TLC

\* abstract values: allowlist entries "a1","a2" (valid), "bad" (does not parse);
\* invoices: payment hash h in {"h1","h2"}, variant v in {"v1","v2"} (two different valid
\* invoices for one hash), "old" (expired); channels: node-assigned ids (dbid) 1..3
InitNode == [ allow |-> {}, inv |-> {}, mark |-> 0,
              chans |-> {},      \* set of [d, phase, forget]
              iss |-> {},        \* invoices the node ISSUED (sign_bolt11_invoice): set of [h, v]
              fee |-> 0 ]        \* fees counted by the fee velocity control, in units of one Withdraw fee
                                 \* (tracked only when k.feeLimit > 0: runs with a small fee velocity limit)

Err(s)      == [resp |-> [ok |-> FALSE, flag |-> -1], s |-> s]
Ok(s)       == [resp |-> [ok |-> TRUE, flag |-> -1], s |-> s]
OkFlag(s,b) == [resp |-> [ok |-> TRUE, flag |-> IF b THEN 1 ELSE 0], s |-> s]

RECURSIVE InsertUntilBad(_, _)
\* [set after processing, failed?]: entries are parsed and inserted one by one
InsertUntilBad(set, l) ==
  IF l = <<>> THEN [set |-> set, bad |-> FALSE]
  ELSE IF Head(l) = "bad" THEN [set |-> set, bad |-> TRUE]
  ELSE InsertUntilBad(set \cup {Head(l)}, Tail(l))
RECURSIVE RemoveUntilBad(_, _)
RemoveUntilBad(set, l) ==
  IF l = <<>> THEN [set |-> set, bad |-> FALSE]
  ELSE IF Head(l) = "bad" THEN [set |-> set, bad |-> TRUE]
  ELSE RemoveUntilBad(set \ {Head(l)}, Tail(l))

HasBad(l) == \E i \in DOMAIN l : l[i] = "bad"

AddAllow(s, l, k) ==
  LET r == InsertUntilBad(s.allow, l) IN
  IF r.bad THEN (IF k.atomicAllowlist THEN Err(s) ELSE Err([s EXCEPT !.allow = r.set]))
  ELSE Ok([s EXCEPT !.allow = r.set])
SetAllow(s, l, k) ==
  LET r == InsertUntilBad({}, l) IN
  IF r.bad THEN (IF k.atomicAllowlist THEN Err(s) ELSE Err([s EXCEPT !.allow = r.set]))
  ELSE Ok([s EXCEPT !.allow = r.set])
RemoveAllow(s, l, k) ==
  LET r == RemoveUntilBad(s.allow, l) IN
  IF r.bad THEN (IF k.atomicAllowlist THEN Err(s) ELSE Err([s EXCEPT !.allow = r.set]))
  ELSE Ok([s EXCEPT !.allow = r.set])

InvOf(s, h) == {e \in s.inv : e.h = h}
\* k.maxInvoices > 0: the policy's bound on the table of approved invoices / keysends (a run with a tiny bound;
\* 0 = the default policy's bound, never reached by this alphabet).  The bound is tested BEFORE the table is
\* consulted, so once the table is full even the repetition of an approved invoice is refused.
TableFull(s, k) == "maxInvoices" \in DOMAIN k /\ k.maxInvoices > 0 /\ Cardinality({e.h : e \in s.inv}) >= k.maxInvoices
AddInvoice(s, h, v, k) ==
  IF v = "old" THEN Err(s)                                   \* validate_invoice: expired
  ELSE IF TableFull(s, k) THEN Err(s)                        \* "too many invoices"
  ELSE IF InvOf(s, h) # {} THEN
         (IF [h |-> h, v |-> v, ks |-> FALSE] \in s.inv THEN OkFlag(s, TRUE) ELSE Err(s))
  ELSE OkFlag([s EXCEPT !.inv = @ \cup {[h |-> h, v |-> v, ks |-> FALSE]}], TRUE)
AddKeysend(s, h, v, k) ==
  IF TableFull(s, k) THEN Err(s)
  ELSE IF InvOf(s, h) # {} THEN
         (IF [h |-> h, v |-> v, ks |-> TRUE] \in s.inv THEN OkFlag(s, TRUE) ELSE Err(s))
  ELSE OkFlag([s EXCEPT !.inv = @ \cup {[h |-> h, v |-> v, ks |-> TRUE]}], TRUE)

\* sign_bolt11_invoice (the receive path): the node signs an invoice of its own and remembers it as issued.
\* Order in the code: table full -> refused; an entry for the payment hash exists -> the same invoice is signed
\* again, a different one is refused; otherwise the invoice is recorded (in memory: the node entry is not written
\* by this request).  A refusal leaves the table as it was.
IssOf(s, h) == {e \in s.iss : e.h = h}
IssueInvoice(s, h, v, k) ==
  IF "maxInvoices" \in DOMAIN k /\ k.maxInvoices > 0 /\ Cardinality({e.h : e \in s.iss}) >= k.maxInvoices THEN Err(s)
  ELSE IF IssOf(s, h) # {} THEN (IF [h |-> h, v |-> v] \in s.iss THEN Ok(s) ELSE Err(s))
  ELSE Ok([s EXCEPT !.iss = @ \cup {[h |-> h, v |-> v]}])

ChanOf(s, d) == {c \in s.chans : c.d = d}
NewChannel(s, d) ==
  IF s.mark >= d THEN Err(s)                                 \* policy-channel-original-channel-id-reuse
  ELSE IF ChanOf(s, d) # {} THEN Ok(s)
  ELSE Ok([s EXCEPT !.chans = @ \cup {[d |-> d, phase |-> "stub", forget |-> FALSE]}])
\* setup_channel: stub -> ready (refused when the channel does not exist; a repeated identical
\* setup of a ready channel is accepted without change)
Setup(s, d) ==
  IF ChanOf(s, d) = {} THEN Err(s)
  ELSE LET c == CHOOSE x \in ChanOf(s, d) : TRUE IN
       IF c.phase = "ready" THEN Ok(s)
       ELSE Ok([s EXCEPT !.chans = (@ \ {c}) \cup {[c EXCEPT !.phase = "ready"]}])
Forget(s, d) ==
  IF ChanOf(s, d) = {} THEN Ok(s)
  ELSE LET c == CHOOSE x \in ChanOf(s, d) : TRUE
           m == IF d > s.mark THEN d ELSE s.mark IN
       IF c.phase = "stub"
       THEN Ok([s EXCEPT !.chans = @ \ {c}, !.mark = m])
       ELSE Ok([s EXCEPT !.chans = (@ \ {c}) \cup {[c EXCEPT !.forget = TRUE]}, !.mark = m])

\* check_onchain_tx followed by unchecked_sign_onchain_tx (what the protocol handler's sign-withdrawal and
\* vlsd's direct recovery signer do) for a transaction with one wallet input, optionally the funding output
\* of channel `fund`, and a wallet change output.  inp: "wpkh" / "tr" a wallet input of that kind;
\* "badtr" a taproot input whose key index is wrong, "badpath" a derivation path of the wrong length -
\* both pass the check (which does not see the input paths) and are refused by the signing step.
\* Nothing of the abstract node state changes (the fee velocity is C12's subject; the frame and restart
\* observations of ImplNode see the concrete state).
\* k.feeLimit > 0: the node's policy allows that many Withdraw fees per interval (a run with a tiny fee
\* velocity limit; 0 = default policy, practically unlimited and not tracked).  Order in the code:
\* check_onchain_tx validates the outputs, then counts the fee against the velocity limit (refusing when it
\* would be exceeded, nothing counted), then unchecked_sign_onchain_tx refuses inputs it cannot sign -
\* k.withdrawCountsBeforeSign = TRUE: as the code at HEAD does, the fee is already counted then
\* (C10 known finding); FALSE: what C10 asks for.
Withdraw(s, inp, fund, k) ==
  LET tracked == "feeLimit" \in DOMAIN k /\ k.feeLimit > 0
      counted == IF tracked THEN [s EXCEPT !.fee = @ + 1] ELSE s IN
  IF fund > 0 /\ (ChanOf(s, fund) = {} \/ \E c \in ChanOf(s, fund) : c.phase = "stub")
  THEN Err(s)                             \* no keys for the output / an unknown p2wsh output
  ELSE IF tracked /\ s.fee + 1 > k.feeLimit THEN Err(s)       \* policy-onchain-fee-range: velocity
  ELSE IF inp \in {"badtr", "badpath"}
       THEN (IF "withdrawCountsBeforeSign" \in DOMAIN k /\ k.withdrawCountsBeforeSign THEN Err(counted) ELSE Err(s))
  ELSE Ok(counted)

Step(s, r, k) ==
  CASE r.op = "AddAllow"    -> AddAllow(s, r.l, k)
    [] r.op = "SetAllow"    -> SetAllow(s, r.l, k)
    [] r.op = "RemoveAllow" -> RemoveAllow(s, r.l, k)
    [] r.op = "AddInvoice"  -> AddInvoice(s, r.h, r.v, k)
    [] r.op = "AddKeysend"  -> AddKeysend(s, r.h, r.v, k)
    [] r.op = "IssueInvoice" -> IssueInvoice(s, r.h, r.v, k)
    [] r.op = "NewChannel"  -> NewChannel(s, r.d)
    [] r.op = "Setup"       -> Setup(s, r.d)
    [] r.op = "Forget"      -> Forget(s, r.d)
    [] r.op = "Withdraw"    -> Withdraw(s, r.inp, r.fund, k)
    [] r.op = "Heartbeat"   -> Ok(s)          \* nothing expires / is buried with a fixed clock and chain
    \* issued invoices live in memory until a later request writes the node entry (none of the requests that
    \* occur together with IssueInvoice in an alphabet does): a restart forgets them
    [] r.op = "Restart"     -> Ok([s EXCEPT !.iss = {}])
    [] OTHER                -> Err(s)

\* request alphabet (kept small: every request is applied to every reachable state of the real node)
AddLists    == {<<"a1">>, <<"a2">>, <<"bad">>, <<"a1", "bad">>, <<"bad", "a1">>, <<"a1", "a2">>}
SetLists    == {<<>>, <<"a1">>, <<"a2", "bad">>, <<"bad">>}
RemoveLists == {<<"a1">>, <<"a1", "bad">>, <<"bad", "a2">>}
MaxD == 2
Requests ==
       {[op |-> "AddAllow", l |-> l] : l \in AddLists}
  \cup {[op |-> "SetAllow", l |-> l] : l \in SetLists}
  \cup {[op |-> "RemoveAllow", l |-> l] : l \in RemoveLists}
  \cup {[op |-> "AddInvoice", h |-> "h1", v |-> v] : v \in {"v1", "v2", "old"}}
  \cup {[op |-> "AddKeysend", h |-> h, v |-> "v1"] : h \in {"h1", "h2"}}
  \cup {[op |-> "NewChannel", d |-> d] : d \in 1..MaxD}
  \cup {[op |-> "Setup", d |-> d] : d \in 1..MaxD}
  \cup {[op |-> "Forget", d |-> d] : d \in 1..MaxD}
  \cup {[op |-> "Withdraw", inp |-> i, fund |-> 0] : i \in {"wpkh", "tr", "badtr", "badpath"}}
  \cup {[op |-> "Withdraw", inp |-> i, fund |-> d] : i \in {"wpkh", "badpath"}, d \in 1..MaxD}
  \cup {[op |-> "Heartbeat"], [op |-> "Restart"]}

\* the alphabet of the small "issue" graph: invoices issued by the node itself (two invoices for one hash, one
\* for another), heartbeat, restart
IssueRequests ==
       {[op |-> "IssueInvoice", h |-> "h1", v |-> v] : v \in {"v1", "v2"}}
  \cup {[op |-> "IssueInvoice", h |-> "h2", v |-> "v1"]}
  \cup {[op |-> "Heartbeat"], [op |-> "Restart"]}

---------------------------------------------------------------------------
(***************************************************************************)
(* Protocol-handler level (harness `nhand`): the same requests as real      *)
(* protocol messages through vls-protocol-signer's RootHandler /            *)
(* ChannelHandler with an approver (k.approve = what the approver answers;  *)
(* PositiveApprover: TRUE, NegativeApprover: FALSE).  Where the handler     *)
(* adds behaviour of its own it is spelled out here; everything else is the *)
(* Node-API operator.  The allowlist requests have no protocol message and  *)
(* a derivation path of the wrong length cannot be expressed (the handler   *)
(* derives the input path from Utxo.keyindex).                              *)
(***************************************************************************)
\* PreapproveInvoice -> Approve::handle_proposed_invoice: has_payment first (the same invoice is approved again
\* without asking, a different invoice for the hash is refused), then the approver (the allowlist of this model
\* holds addresses, never a payee key), then Node::add_invoice.  A declined invoice is a reply (result = false),
\* not an error.
HPreapproveInvoice(s, h, v, k) ==
  IF InvOf(s, h) # {} THEN
         (IF [h |-> h, v |-> v, ks |-> FALSE] \in s.inv THEN OkFlag(s, TRUE) ELSE Err(s))
  ELSE IF ~k.approve THEN OkFlag(s, FALSE)
  ELSE AddInvoice(s, h, v, k)
\* PreapproveKeysend -> Approve::handle_proposed_keysend, same structure
HPreapproveKeysend(s, h, v, k) ==
  IF InvOf(s, h) # {} THEN
         (IF [h |-> h, v |-> v, ks |-> TRUE] \in s.inv THEN OkFlag(s, TRUE) ELSE Err(s))
  ELSE IF ~k.approve THEN OkFlag(s, FALSE)
  ELSE AddKeysend(s, h, v, k)
\* SetupChannel on the ChannelHandler of (peer, d), then - once - ValidateCommitmentTx2(0), which for protocol
\* version >= 5 is validate_holder_commitment_tx_phase2 + activate_initial_commitment: what Setup stands for
HSetup(s, d) == Setup(s, d)
\* SignWithdrawal -> RootHandler::sign_withdrawal: Approve::handle_proposed_onchain (Node::check_onchain_tx; an
\* UnknownDestinations verdict is put to the approver, every other policy error is final), then
\* Node::unchecked_sign_onchain_tx.  The p2wsh output for channel `fund` is an unknown destination when the channel
\* is still a stub (no funding outpoint yet) and when the transaction is not the one the channel was set up with:
\* Setup(d) names the transaction with the p2wpkh input as the funding transaction, and over the wire (PSBT with
\* the previous transactions) a taproot input is a different previous output, hence a different txid.
\* A request for a channel that does not exist cannot be built (no keys for the output): the harness refuses it.
HUnknownDestination(s, inp, fund) ==
  fund > 0 /\ ((\E c \in ChanOf(s, fund) : c.phase = "stub") \/ inp \in {"tr", "badtr"})
HSignWithdrawal(s, inp, fund, k) ==
  IF fund > 0 /\ ChanOf(s, fund) = {} THEN Err(s)
  ELSE IF HUnknownDestination(s, inp, fund) /\ ~k.approve THEN Err(s)       \* "unapproved destination"
  ELSE IF inp = "badtr" THEN Err(s)         \* refused by the signing step (after the check has counted the fee,
                                            \* unless the approver overrode an UnknownDestinations verdict)
  ELSE Ok(s)

HStep(s, r, k) ==
  CASE r.op = "AddInvoice"  -> HPreapproveInvoice(s, r.h, r.v, k)
    [] r.op = "AddKeysend"  -> HPreapproveKeysend(s, r.h, r.v, k)
    [] r.op = "NewChannel"  -> NewChannel(s, r.d)     \* RootHandler: Node::new_channel(dbid, peer id)
    [] r.op = "Setup"       -> HSetup(s, r.d)
    [] r.op = "Forget"      -> Forget(s, r.d)         \* RootHandler: channel id from (peer id, dbid)
    [] r.op = "Withdraw"    -> HSignWithdrawal(s, r.inp, r.fund, k)
    [] r.op = "Heartbeat"   -> Ok(s)
    [] r.op = "Restart"     -> Ok(s)
    [] OTHER                -> Err(s)

\* the requests that have a protocol form
HRequests == {r \in Requests : /\ r.op \notin {"AddAllow", "SetAllow", "RemoveAllow"}
                               /\ ~(r.op = "Withdraw" /\ r.inp = "badpath")}
\* a wider alphabet for the thorough tier: a second invoice hash, taproot inputs together with a channel funding
HRequestsWide ==
  HRequests \cup {[op |-> "AddInvoice", h |-> "h2", v |-> v] : v \in {"v1", "old"}}
            \cup {[op |-> "Withdraw", inp |-> i, fund |-> d] : i \in {"tr", "badtr"}, d \in 1..MaxD}
\* ... and a third channel id (thorough tier)
HRequestsDeep ==
  HRequestsWide \cup {[op |-> o, d |-> MaxD + 1] : o \in {"NewChannel", "Setup", "Forget"}}
                \cup {[op |-> "Withdraw", inp |-> "wpkh", fund |-> MaxD + 1]}

\* ghost for the id rule (C15b): once Forget(d) was answered for an existing channel,
\* no NewChannel(e) with e <= d creates a channel
InitGhost == [forgotten |-> 0, reuse |-> FALSE]
Ghost(g, r, resp, pre, post) ==
  LET created == r.op = "NewChannel" /\ resp.ok /\ ChanOf(pre, r.d) = {} /\ ChanOf(post, r.d) # {} IN
  [forgotten |-> IF r.op = "Forget" /\ resp.ok /\ ChanOf(pre, r.d) # {} /\ r.d > g.forgotten
                 THEN r.d ELSE g.forgotten,
   reuse |-> g.reuse \/ (created /\ r.d <= g.forgotten)]
Inv_NoIdReuse(g) == ~g.reuse
=============================================================================
