----------------------------- MODULE SimMonitor -----------------------------
(* Leg C (spec -> impl): random valid block histories of the Monitor model,    *)
(* printed as request sequences that the harness replays through the real      *)
(* implementation.  Run with  tlc -simulate num=K -depth D+2.  Only the chain   *)
(* is tracked here (validity of a block depends on nothing else); delivery      *)
(* modes are mixed; disconnects are weighted so that reorgs of several blocks   *)
(* happen.                                                                      *)
EXTENDS Monitor, Json, IOUtils

CONSTANTS Cat, Variant, MaxTx, MaxLen, Depth
VARIABLES chain, hist, w

K  == MkK(Cat, Variant, FALSE, FALSE)
BL == Blocks(K, MaxTx)
Valid(c) == {b \in BL : ValidOn(K, c, b)}
\* blocks that make the channel progress are preferred to the empty / unrelated ones
Weight(b) == IF \E i \in DOMAIN b : K.tx[b[i]].roles # <<"other">> THEN 3 ELSE 1

Init == chain = <<>> /\ hist = <<>> /\ w = 0
Next == /\ Len(hist) < Depth
        /\ \/ /\ Len(chain) < MaxLen
              /\ \E m \in {"compact", "streamed"} : \E b \in Valid(chain) : \E k \in 1..Weight(b) :
                    /\ chain' = Append(chain, b)
                    /\ hist' = Append(hist, ReqC(b, m))
                    /\ w' = k
           \/ /\ Len(chain) > 0
              /\ \E k \in 1..(1 + (2 * Cardinality(Valid(chain)))) :
                    /\ chain' = SubSeq(chain, 1, Len(chain) - 1)
                    /\ hist' = Append(hist, ReqD("compact"))
                    /\ w' = k
Spec == Init /\ [][Next]_<<chain, hist, w>>

Emit == Len(hist) = Depth => PrintT(<<"SIM", ToJson(hist)>>)
=============================================================================
