------------------------------- MODULE TraceKVV -------------------------------
(***************************************************************************)
(* Leg C (impl -> spec): validates steps recorded from the real stores      *)
(* (`kvv run`: TLC-simulated behaviours, replay files).  One record per     *)
(* step:  pair  [kind, seq, step, req, m: [resp, pre, post], r: [...]]      *)
(*        cloud [kind, seq, step, req, c: [resp, pre, post]]                *)
(* Every step is compared with MemStep / RedbStep / CloudStep and the C16   *)
(* monitor clauses are evaluated along each sequence (invariant C16).       *)
(***************************************************************************)
EXTENDS KVV, Json, IOUtils, SequencesExt

Steps == ndJsonDeserialize(IOEnv.KVV_STEPS)
IgnoreSeq == JsonDeserialize(IOEnv.KVV_IGNORE)
Ignore   == {IgnoreSeq[i] : i \in DOMAIN IgnoreSeq}
K == [batchSequential   |-> IOEnv.KVV_BATCH_SEQUENTIAL = "true",
      cloudChecksStaged |-> IOEnv.KVV_CLOUD_CHECKS_STAGED = "true"]

RespOf(x) == [c |-> x[1], e |-> x[2]]
TabOf(d) == [k \in AllKeys |->
               IF \E i \in DOMAIN d : d[i][1] = k
               THEN LET i == CHOOSE i \in DOMAIN d : d[i][1] = k IN Ent(d[i][2], d[i][3])
               ELSE Absent]
VersOfList(l) == [k \in AllKeys |->
               IF \E i \in DOMAIN l : l[i][1] = k
               THEN LET i == CHOOSE i \in DOMAIN l : l[i][1] = k IN l[i][2]
               ELSE -1]
StoreObs(o) == [t |-> TabOf(o.t), c |-> VersOfList(o.c)]
CloudObsOf(o) ==
  LET ph == IF o.view.ok THEN "open" ELSE IF o.ent THEN "closed" ELSE "dead" IN
  [loc |-> TabOf(o.loc), ph |-> ph, view |-> IF ph = "open" THEN TabOf(o.view.e) ELSE EmptyTab]
CloudStateOf(o) ==
  LET ob == CloudObsOf(o)
      pt == IF o.prep.ok THEN TabOf(o.prep.e) ELSE EmptyTab IN
  [loc |-> ob.loc, ph |-> ob.ph,
   log |-> [k \in AllKeys |-> IF ob.ph # "open" THEN Absent
                              ELSE IF ob.view[k] # ob.loc[k] THEN ob.view[k]
                              ELSE pt[k]]]

FlagsOf(rep, e) ==
  IF e.kind = "pair"
  THEN      Tag("mem",  StoreViol(e.req, RespOf(e.m.resp), StoreObs(e.m.pre), StoreObs(e.m.post)))
       \cup Tag("redb", StoreViol(e.req, RespOf(e.r.resp), StoreObs(e.r.pre), StoreObs(e.r.post)))
       \cup Tag("diff", DiffViol(e.req, RespOf(e.m.resp), RespOf(e.r.resp), StoreObs(e.m.pre), StoreObs(e.r.pre),
                                StoreObs(e.m.post), StoreObs(e.r.post)))
  ELSE Tag("cloud", CloudViol(rep, e.req, RespOf(e.c.resp), CloudObsOf(e.c.pre), CloudObsOf(e.c.post)))

VARIABLES l, g, last
Init == l = 1 /\ g = [flags |-> {}, rep |-> CloudGhostInit] /\ last = [seq |-> -1, step |-> -1, new |-> {}]
Next == /\ l <= Len(Steps)
        /\ LET e   == Steps[l]
               rep == IF e.step = 0 THEN CloudGhostInit ELSE g.rep
               f   == FlagsOf(rep, e) IN
           /\ g' = [flags |-> g.flags \cup (f \ Ignore),
                    rep |-> IF e.kind = "cloud" THEN CloudGhost(rep, e.req, RespOf(e.c.resp)) ELSE CloudGhostInit]
           /\ last' = [seq |-> e.seq, step |-> e.step, new |-> f]
        /\ l' = l + 1
Spec == Init /\ [][Next]_<<l, g, last>>

C16 == g.flags = {}

Conforms(e) ==
  IF e.kind = "pair"
  THEN /\ LET o == MemStep([t |-> TabOf(e.m.pre.t)], e.req, K) IN
          o.resp = RespOf(e.m.resp) /\ o.s.t = TabOf(e.m.post.t)
       /\ LET o == RedbStep(StoreObs(e.r.pre), e.req, K) IN
          o.resp = RespOf(e.r.resp) /\ o.s = StoreObs(e.r.post)
  ELSE LET o == CloudStep(CloudStateOf(e.c.pre), e.req, K) IN
       o.resp = RespOf(e.c.resp) /\ o.s = CloudStateOf(e.c.post)

Idx == DOMAIN Steps
Divergent == {i \in Idx : ~Conforms(Steps[i])}
Flagged   == {i \in Idx : FlagsOf(CloudGhostInit, Steps[i]) # {}}

Describe(i) == LET e == Steps[i] IN [line |-> i, seq |-> e.seq, step |-> e.step, kind |-> e.kind, req |-> e.req,
                                     rec |-> IF e.kind = "pair" THEN [m |-> e.m, r |-> e.r] ELSE [c |-> e.c]]

Report == [ steps |-> Len(Steps),
            sequences |-> Cardinality({Steps[i].seq : i \in Idx}),
            divergences |-> SetToSeq({Describe(i) : i \in Divergent}) ]
ASSUME JsonSerialize(IOEnv.KVV_REPORT, Report)
=============================================================================
