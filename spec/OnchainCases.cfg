INIT Init
NEXT Next
