------------------------------- MODULE ImplKVV -------------------------------
(***************************************************************************)
(* Leg B for the memory and disk stores: the state graph EXTRACTED FROM THE *)
(* REAL MemoryKVVStore and RedbKVVStore driven in lockstep (harness         *)
(* `kvv explore-pair`: every request of the alphabet applied to every       *)
(* reachable pair of concrete states) is loaded here and                    *)
(*   1. every implementation edge of either backend is compared with        *)
(*      MemStep / RedbStep (conformance; divergences go to KVV_REPORT),      *)
(*   2. TLC explores the graph and evaluates the C16 monitor clauses of      *)
(*      KVV.tla on the observations of every edge it reaches (invariant C16; *)
(*      the counterexample is the violating request history).               *)
(*                                                                         *)
(* Nodes[i+1] = [id, x, par, d, m, r, e]: m / r = observation of the memory  *)
(* / disk store ([t: get_prefix("") dump, c: get_version of every key]), x   *)
(* whether the state was expanded, e its outgoing edges                      *)
(*   <<to, request index, response index (memory), response index (redb)>>. *)
(***************************************************************************)
EXTENDS KVV, Json, IOUtils, SequencesExt

Nodes    == ndJsonDeserialize(IOEnv.KVV_NODES)
Alphabet == JsonDeserialize(IOEnv.KVV_ALPHABET).reqs
Resps    == JsonDeserialize(IOEnv.KVV_RESPS)
IgnoreSeq == JsonDeserialize(IOEnv.KVV_IGNORE)
Ignore   == {IgnoreSeq[i] : i \in DOMAIN IgnoreSeq}
K == [batchSequential   |-> IOEnv.KVV_BATCH_SEQUENTIAL = "true",
      cloudChecksStaged |-> IOEnv.KVV_CLOUD_CHECKS_STAGED = "true"]

RespOf(i) == [c |-> Resps[i][1], e |-> Resps[i][2]]

\* observations -> the shapes KVV.tla talks about
TabOf(d) == [k \in AllKeys |->
               IF \E i \in DOMAIN d : d[i][1] = k
               THEN LET i == CHOOSE i \in DOMAIN d : d[i][1] = k IN Ent(d[i][2], d[i][3])
               ELSE Absent]
VersOfList(l) == [k \in AllKeys |->
               IF \E i \in DOMAIN l : l[i][1] = k
               THEN LET i == CHOOSE i \in DOMAIN l : l[i][1] = k IN l[i][2]
               ELSE -1]
StoreObs(o) == [t |-> TabOf(o.t), c |-> VersOfList(o.c)]
\* a dump must be sorted, without duplicates, over the key universe
WellFormed(d) == d = Dump(TabOf(d))

Obs == [i \in DOMAIN Nodes |-> [m |-> StoreObs(Nodes[i].m), r |-> StoreObs(Nodes[i].r)]]

EdgeFlags(i, e) ==
  LET r == Alphabet[e[2]]
      pre == Obs[i]
      post == Obs[e[1] + 1]
  IN      Tag("mem",  StoreViol(r, RespOf(e[3]), pre.m, post.m))
     \cup Tag("redb", StoreViol(r, RespOf(e[4]), pre.r, post.r))
     \cup Tag("diff", DiffViol(r, RespOf(e[3]), RespOf(e[4]), pre.m, pre.r, post.m, post.r))

VARIABLES node, g, last

Init == /\ node = 0
        /\ g = [flags |-> {}]
        /\ last = [op |-> "init"]

Next == \E j \in DOMAIN Nodes[node + 1].e :
          LET e == Nodes[node + 1].e[j]
              f == EdgeFlags(node + 1, e) IN
          /\ e[1] >= 0                       \* (-1: target beyond the explorer's state cap)
          /\ node' = e[1]
          /\ g' = [flags |-> g.flags \cup (f \ Ignore)]
          /\ last' = [from |-> node, req |-> Alphabet[e[2]], m |-> Resps[e[3]][1], r |-> Resps[e[4]][1],
                      new |-> f]

Spec == Init /\ [][Next]_<<node, g, last>>
View == <<node, g>>

C16 == g.flags = {}

---------------------------------------------------------------------------
\* (no set of ALL edges is ever built)
BadAt(i, Bad(_, _)) == {<<i, j>> : j \in {k \in DOMAIN Nodes[i].e : Bad(i, Nodes[i].e[k])}}
EdgesWhere(Bad(_, _)) == UNION {BadAt(i, Bad) : i \in DOMAIN Nodes}

\* 1. conformance of every implementation edge with the specification
MemConforms(i, e) ==
  LET o == MemStep([t |-> Obs[i].m.t], Alphabet[e[2]], K) IN
  o.resp = RespOf(e[3]) /\ (e[1] >= 0 => o.s.t = Obs[e[1] + 1].m.t)
RedbConforms(i, e) ==
  LET o == RedbStep(Obs[i].r, Alphabet[e[2]], K) IN
  o.resp = RespOf(e[4]) /\ (e[1] >= 0 => o.s = Obs[e[1] + 1].r)

MemDivergent  == EdgesWhere(LAMBDA i, e : ~MemConforms(i, e))
RedbDivergent == EdgesWhere(LAMBDA i, e : ~RedbConforms(i, e))
Malformed == {i \in DOMAIN Nodes : ~WellFormed(Nodes[i].m.t) \/ ~WellFormed(Nodes[i].r.t)}
Flagged   == EdgesWhere(LAMBDA i, e : e[1] >= 0 /\ EdgeFlags(i, e) # {})
Truncated == EdgesWhere(LAMBDA i, e : e[1] < 0)
Classes   == UNION {EdgeFlags(p[1], Nodes[p[1]].e[p[2]]) : p \in Flagged}
NEdges    == FoldLeft(LAMBDA acc, nd : acc + Len(nd.e), 0, Nodes)

Describe(p, which) ==
  LET nd == Nodes[p[1]] e == nd.e[p[2]] r == Alphabet[e[2]] IN
  [node |-> nd.id, ri |-> e[2], req |-> r, backend |-> which,
   pre |-> IF which = "mem" THEN nd.m ELSE nd.r,
   resp |-> IF which = "mem" THEN Resps[e[3]] ELSE Resps[e[4]],
   post |-> IF e[1] < 0 THEN [t |-> <<>>, c |-> <<>>]
            ELSE IF which = "mem" THEN Nodes[e[1] + 1].m ELSE Nodes[e[1] + 1].r,
   expected |-> IF which = "mem"
                THEN LET o == MemStep([t |-> Obs[p[1]].m.t], r, K) IN [resp |-> o.resp, t |-> Dump(o.s.t)]
                ELSE LET o == RedbStep(Obs[p[1]].r, r, K) IN
                     [resp |-> o.resp, t |-> Dump(o.s.t), c |-> o.s.c]]

Report ==
  [ nodes       |-> Len(Nodes),
    expanded    |-> Cardinality({i \in DOMAIN Nodes : Nodes[i].x}),
    edges       |-> NEdges,
    malformed   |-> Cardinality(Malformed),
    divergences |-> SetToSeq({Describe(p, "mem") : p \in MemDivergent})
                    \o SetToSeq({Describe(p, "redb") : p \in RedbDivergent}),
    flagged_edges |-> Cardinality(Flagged),
    truncated_edges |-> Cardinality(Truncated),
    classes     |-> SetToSeq(Classes) ]

\* (the report does not depend on Ignore: the runs that only look for one more violating history skip it)
ASSUME IOEnv.KVV_DO_REPORT = "false" \/ JsonSerialize(IOEnv.KVV_REPORT, Report)
=============================================================================
