------------------------------- MODULE MC_Node -------------------------------
EXTENDS Node
CONSTANTS AtomicAllowlist
VARIABLES s, g, last
K == [atomicAllowlist |-> AtomicAllowlist]
Init == s = InitNode /\ g = InitGhost /\ last = [ok |-> TRUE]
Next == \E r \in Requests : LET o == Step(s, r, K) IN
          /\ s' = o.s /\ g' = Ghost(g, r, o.resp, s, o.s) /\ last' = [r |-> r, ok |-> o.resp.ok]
Spec == Init /\ [][Next]_<<s, g, last>>
View == <<s, g>>
NoIdReuse == Inv_NoIdReuse(g)
TypeOK == /\ \A c \in s.chans : c.d > s.mark \/ c.forget \/ c.d <= s.mark
          /\ \A e, f \in s.inv : e.h = f.h => e = f
Frame == [][ (last'.ok = FALSE) => (s' = s) ]_<<s, g, last>>
=============================================================================
