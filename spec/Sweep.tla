-------------------------------- MODULE Sweep --------------------------------
(***************************************************************************)
(* C09 - sweep and second-level HTLC signatures only move funds back to the *)
(* node.                                                                    *)
(*                                                                         *)
(* The component is a (mostly) stateless validator, so the specification    *)
(* is                                                                       *)
(*   1. a REFERENCE PREDICATE  Rules(q) / MustRefuse(q)  transcribed from   *)
(*      the property text, docs/policy-controls.md ("Sweep Transactions",   *)
(*      "HTLC Transactions") and BOLT-3 - NOT from the code - one named     *)
(*      operator per rule, so that coverage can show that every rule was    *)
(*      the SOLE reason of a refusal;                                       *)
(*   2. a code-shaped operator  Step(q) -> tag  listing the refusals of     *)
(*      channel.rs sign_*_sweep / sign_htlc_tx and simple_validator.rs      *)
(*      validate_sweep / validate_*_sweep / decode_and_validate_htlc_tx /   *)
(*      validate_htlc_tx in the code's order (conformance only);            *)
(*   3. the little state the validators depend on: the node's allowlist     *)
(*      and the chain height (EnvStep), reached through the public API;     *)
(*   4. the request matrix  Requests(h, tier)  (every single-field mutation *)
(*      of the canonical requests, edge values bound-1 / bound / bound+1,   *)
(*      u32/u64 extremes, selected pairs) that TLC enumerates.              *)
(*                                                                         *)
(* A query q is the CONCRETE content of one signing request together with   *)
(* the state it meets.  The same operators judge                            *)
(*   - the abstract queries of the model          (MC_Sweep, leg A)         *)
(*   - the queries LOGGED BY THE HARNESS from the real crates, with the     *)
(*     values it really used / read back          (ImplSweep, legs B, C).   *)
(*                                                                         *)
(* Numbers that may exceed TLC's 32-bit integers (u32 lock times and        *)
(* sequences, u64 amounts, the i64 expiry of a script) are carried as       *)
(* three limbs base 2^24:  <<a, b, c>> = a*2^48 + b*2^24 + c.               *)
(***************************************************************************)
EXTENDS Naturals, Integers, Sequences, FiniteSets, TLC

---------------------------------------------------------------------------
\* limbs
B == 16777216
Big(n) == <<0, n \div B, n % B>>                       \* 0 <= n < 2^31
BLt(x, y) == \/ x[1] < y[1]
             \/ x[1] = y[1] /\ x[2] < y[2]
             \/ x[1] = y[1] /\ x[2] = y[2] /\ x[3] < y[3]
BLe(x, y) == x = y \/ BLt(x, y)
BSub(x, y) ==                                           \* x - y for y <= x
  LET c3 == x[3] - y[3]
      b3 == IF c3 < 0 THEN 1 ELSE 0
      c2 == x[2] - y[2] - b3
      b2 == IF c2 < 0 THEN 1 ELSE 0
  IN <<x[1] - y[1] - b2, IF c2 < 0 THEN c2 + B ELSE c2, IF c3 < 0 THEN c3 + B ELSE c3>>
IsInt(x, bound) == x[1] = 0 /\ x[2] = 0 /\ x[3] < bound \* a small non-negative integer below bound < 2^24
IntOf(x) == x[3]

U32MAX  == <<0, 255, 16777215>>        \* 0xffffffff
TWO32   == <<0, 256, 0>>
SEQ_FD  == <<0, 255, 16777213>>        \* 0xfffffffd  (RBF, no relative lock)
SEQ_FE  == <<0, 255, 16777214>>        \* 0xfffffffe
SEQ_FF  == U32MAX                      \* final
U64TOP(k) == <<65535, 16777215, 16777215 - k>>          \* 2^64-1-k
MSAT_LIMIT == <<65, 8992587, 13019119>>                 \* (2^64-1) div 1000: larger amounts overflow msat

---------------------------------------------------------------------------
\* constants of the rules
LOCKTIME_THRESHOLD == 500000000   \* BIP-65: lock times below are heights, from here on unix times
MaxLag == 2                       \* "locktime must not be too far in the future": height + 2
\* BOLT-3 expected weights of the second-level transactions
HtlcTimeoutWeight(anchors) == IF anchors THEN 666 ELSE 663
HtlcSuccessWeight(anchors) == IF anchors THEN 706 ELSE 703

IsAnchors(ct) == ct \in {"anchors", "zerofee"}
IsZeroFee(ct) == ct = "zerofee"

(***************************************************************************)
(* SWEEPS.  q =                                                             *)
(*  [fam |-> "sweep", api |-> "delayed" | "cphtlc" | "justice", ct,         *)
(*   delay   the contest delay the counterparty selected (to_self_delay of   *)
(*           the holder's delayed outputs),                                  *)
(*   height, now      chain height (the node's tracker), wall clock,         *)
(*   allow            the allowlist (set of tokens),                         *)
(*   path             wallet path hint of the request,                       *)
(*   ver, lt, input (0-based), seqs (one per input),                         *)
(*   outs  <<[tok, xtok, xp, wp, st]>>: allowlist token of the script; token *)
(*         of the extended key it derives from (at path xp) or "none"; the   *)
(*         wallet path it derives from (<<>>: not the wallet's); its form,   *)
(*   rs    "offered"|"received" (counterparty's view)|"garbage"|"wrongmode"  *)
(*         |"none", exp [neg, m] expiry inside a received-HTLC script,       *)
(*   cnok  the commitment number of a delayed sweep is one the signer knows] *)
(***************************************************************************)
OutOwned(o, q) == \/ o.wp # <<>>                 \* derives from the node's own wallet
                  \/ o.tok \in q.allow           \* allowlisted script
                  \/ o.xtok \in q.allow          \* derives from an allowlisted extended key

HeightLocked(q) == BLt(q.lt, Big(LOCKTIME_THRESHOLD))
\* too far in the future: a height above tip + lag, or a time that has not passed
LocktimeTooFar(q) == IF HeightLocked(q) THEN ~BLe(q.lt, Big(q.height + MaxLag))
                     ELSE ~BLe(q.lt, Big(q.now))
ExpiryValid(q) == ~q.exp.neg /\ BLe(q.exp.m, U32MAX)
InputOK(q) == q.input < Len(q.seqs)
SignedSeq(q) == q.seqs[q.input + 1]              \* the sequence of the input being signed

\* sequences that impose no relative lock (besides the BOLT-3 values the rest is harmless)
FreeSeqs == {Big(0), SEQ_FD, SEQ_FE, SEQ_FF}

R_sweep_input(q)    == ~InputOK(q)
R_sweep_version(q)  == q.ver # 2
R_sweep_dest(q)     == \E i \in DOMAIN q.outs : ~OutOwned(q.outs[i], q)
R_sweep_redeem(q)   == q.api = "cphtlc" /\ q.rs \notin {"offered", "received"}
R_sweep_lt_height(q) == /\ \/ q.api \in {"delayed", "justice"}
                           \/ q.api = "cphtlc" /\ q.rs = "offered"
                        /\ LocktimeTooFar(q)
R_sweep_lt_expiry(q) == /\ q.api = "cphtlc" /\ q.rs = "received"
                        /\ (~ExpiryValid(q) \/ ~BLe(q.lt, q.exp.m))
R_sweep_seq_delayed(q) == q.api = "delayed" /\ InputOK(q) /\ SignedSeq(q) # Big(q.delay)
R_sweep_seq_cphtlc(q)  == /\ q.api = "cphtlc" /\ InputOK(q)
                          /\ SignedSeq(q) \notin (IF IsAnchors(q.ct) THEN {Big(1)} ELSE FreeSeqs)
R_sweep_seq_justice(q) == /\ q.api = "justice" /\ InputOK(q)
                          /\ SignedSeq(q) \notin (FreeSeqs \cup {Big(1)})

SweepRuleNames == {"sweep.input", "sweep.version", "sweep.dest", "sweep.redeem", "sweep.locktime.height",
                   "sweep.locktime.expiry", "sweep.sequence.delayed", "sweep.sequence.cphtlc",
                   "sweep.sequence.justice"}
SweepRules(q) ==
  {n \in SweepRuleNames :
     CASE n = "sweep.input"            -> R_sweep_input(q)
       [] n = "sweep.version"          -> R_sweep_version(q)
       [] n = "sweep.dest"             -> R_sweep_dest(q)
       [] n = "sweep.redeem"           -> R_sweep_redeem(q)
       [] n = "sweep.locktime.height"  -> R_sweep_lt_height(q)
       [] n = "sweep.locktime.expiry"  -> R_sweep_lt_expiry(q)
       [] n = "sweep.sequence.delayed" -> R_sweep_seq_delayed(q)
       [] n = "sweep.sequence.cphtlc"  -> R_sweep_seq_cphtlc(q)
       [] n = "sweep.sequence.justice" -> R_sweep_seq_justice(q)}

\* ---- the code, in its order of checks (K.signedInputSeq: which input's sequence is looked at)
CanSpend(o, q)  == q.path # <<>> /\ o.wp = q.path /\ o.st \in {"p2wpkh", "p2shwpkh", "p2tr"}
AllowHas(o, q)  == \/ o.tok \in q.allow
                   \/ q.path # <<>> /\ o.xtok \in q.allow /\ o.xp = q.path /\ o.st \in {"p2wpkh", "p2pkh", "p2tr"}
\* LockTime::is_satisfied_by(Height(h + 2), Time::MIN)
SatisfiedByTip(q) == IF HeightLocked(q) THEN BLe(q.lt, Big(q.height + 2)) ELSE q.lt = Big(LOCKTIME_THRESHOLD)
CodeSeq(q, K) == IF K.signedInputSeq THEN SignedSeq(q) ELSE q.seqs[1]

StepSweep(q, K) ==
  IF q.input >= Len(q.seqs) THEN "input"
  ELSE IF q.api = "delayed" /\ ~q.cnok THEN "point"
  ELSE IF q.ver # 2 THEN "version"
  \* the wallet refuses to derive a key for a path of the wrong length (native style: one index)
  ELSE IF q.outs # <<>> /\ Len(q.path) > 1 THEN "dest_error"
  ELSE IF \E i \in DOMAIN q.outs : ~(CanSpend(q.outs[i], q) \/ AllowHas(q.outs[i], q)) THEN "dest"
  ELSE CASE q.api = "delayed" ->
              IF ~SatisfiedByTip(q) THEN "locktime"
              ELSE IF CodeSeq(q, K) # Big(q.delay) THEN "sequence" ELSE "ok"
         [] q.api = "justice" ->
              IF ~SatisfiedByTip(q) THEN "locktime"
              ELSE IF CodeSeq(q, K) \notin {Big(0), SEQ_FD, SEQ_FF} THEN "sequence" ELSE "ok"
         [] q.api = "cphtlc" ->
              \* the script parser reads numbers of at most 4 bytes: anything else is no HTLC script
              IF q.rs = "received" /\ ~BLt(q.exp.m, <<0, 128, 0>>) THEN "redeem"
              ELSE IF q.rs = "received" /\ ~ExpiryValid(q) THEN "expiry"
              ELSE IF q.rs = "received" /\ BLt(q.exp.m, q.lt) THEN "locktime"
              ELSE IF q.rs = "offered" /\ ~SatisfiedByTip(q) THEN "locktime"
              ELSE IF q.rs \notin {"offered", "received"} THEN "redeem"
              ELSE IF CodeSeq(q, K) \notin (IF IsAnchors(q.ct) THEN {Big(1)} ELSE {Big(0), SEQ_FD, SEQ_FF})
                   THEN "sequence" ELSE "ok"

(***************************************************************************)
(* SECOND-LEVEL HTLC TRANSACTIONS (phase 1: the transaction and its scripts *)
(* are presented).  q =                                                     *)
(*  [fam |-> "htlc", api |-> "holder_htlc" | "cp_htlc", ct,                  *)
(*   hdelay, cdelay   contest delays selected by the holder / counterparty,  *)
(*   minrate, maxrate policy fee-rate range (per kw),                        *)
(*   rs    kind of the HTLC redeemscript from the broadcaster's view:        *)
(*         "offered" (HTLC-timeout) | "received" (HTLC-success) | "garbage"  *)
(*         | "wrongmode" (script of the other anchor mode),                  *)
(*   ver, lt, nin, nout, seq0, amount (of the HTLC output), value0,          *)
(*   oform  "revokeable" when output 0 pays P2WSH(revokeable script) built   *)
(*          from (orev, odelay, odly), else what it pays instead,            *)
(*   crev, cdly  the revocation and delayed keys BOLT-3 prescribes: derived  *)
(*          from the negotiated base points and the request's per-commitment *)
(*          point (holder tx: counterparty's revocation base + holder's      *)
(*          delayed base; counterparty tx: the other way round),             *)
(*   pcpok  the request names a per-commitment point the signer can produce] *)
(***************************************************************************)
CanonDelay(q) == IF q.api = "holder_htlc" THEN q.cdelay ELSE q.hdelay
HtlcKindKnown(q) == q.rs \in {"offered", "received"}
HtlcWeight(q) == IF q.rs = "offered" THEN HtlcTimeoutWeight(IsAnchors(q.ct))
                 ELSE HtlcSuccessWeight(IsAnchors(q.ct))
FeeLo(q) == (q.minrate * HtlcWeight(q)) \div 1000
FeeHi(q) == (q.maxrate * HtlcWeight(q)) \div 1000
\* the weights are below 1000, so every fee between the fees of the two bounds is the BOLT-3
\* fee (rate * weight div 1000) of some rate in range
FeeInRange(q) ==
  /\ BLe(q.value0, q.amount)
  /\ LET fee == BSub(q.amount, q.value0) IN
     IF IsZeroFee(q.ct) THEN fee = Big(0)
     ELSE IsInt(fee, FeeHi(q) + 1) /\ IntOf(fee) >= FeeLo(q)

R_htlc_redeem(q)   == ~HtlcKindKnown(q)
R_htlc_version(q)  == q.ver # 2
R_htlc_locktime(q) == \/ q.rs = "received" /\ q.lt # Big(0)     \* HTLC-success: 0
                      \/ q.rs = "offered" /\ q.lt = Big(0)      \* HTLC-timeout: cltv_expiry, never 0
R_htlc_sequence(q) == q.seq0 # Big(IF IsAnchors(q.ct) THEN 1 ELSE 0)
\* without anchors the signature covers everything: exactly one input and one output;
\* with anchors (SINGLE|ANYONECANPAY) only input 0 and output 0 are covered and must exist
R_htlc_shape(q)    == IF IsAnchors(q.ct) THEN q.nin < 1 \/ q.nout < 1 ELSE q.nin # 1 \/ q.nout # 1
R_htlc_form(q)     == q.nout >= 1 /\ q.oform # "revokeable"
R_htlc_delay(q)    == q.oform = "revokeable" /\ q.odelay # CanonDelay(q)
R_htlc_revkey(q)   == q.oform = "revokeable" /\ q.orev # q.crev
R_htlc_dlykey(q)   == q.oform = "revokeable" /\ q.odly # q.cdly
R_htlc_fee(q)      == HtlcKindKnown(q) /\ q.nout >= 1 /\ ~FeeInRange(q)

HtlcRuleNames == {"htlc.redeem", "htlc.version", "htlc.locktime", "htlc.sequence", "htlc.shape", "htlc.form",
                  "htlc.to_self_delay", "htlc.revocation_key", "htlc.delayed_key", "htlc.fee"}
HtlcRules(q) ==
  {n \in HtlcRuleNames :
     CASE n = "htlc.redeem"         -> R_htlc_redeem(q)
       [] n = "htlc.version"        -> R_htlc_version(q)
       [] n = "htlc.locktime"       -> R_htlc_locktime(q)
       [] n = "htlc.sequence"       -> R_htlc_sequence(q)
       [] n = "htlc.shape"          -> R_htlc_shape(q)
       [] n = "htlc.form"           -> R_htlc_form(q)
       [] n = "htlc.to_self_delay"  -> R_htlc_delay(q)
       [] n = "htlc.revocation_key" -> R_htlc_revkey(q)
       [] n = "htlc.delayed_key"    -> R_htlc_dlykey(q)
       [] n = "htlc.fee"            -> R_htlc_fee(q)}

\* ---- the code: recompose the BOLT-3 transaction from what the request says and compare sighashes
StepHtlc(q) ==
  IF ~q.pcpok THEN "point"
  ELSE IF q.nin = 0 THEN "nosighash"
  ELSE IF ~HtlcKindKnown(q) THEN "redeem"
  ELSE IF q.nout = 0 THEN "panic"                       \* tx.output[0]
  ELSE IF BLt(q.amount, q.value0) THEN "underflow"
  ELSE
    LET fee   == BSub(q.amount, q.value0)
        w     == HtlcWeight(q)
        \* estimate_feerate_per_kw truncates to u32; beyond TLC's integers the recomposed fee differs
        small == IsInt(fee, 2000000)
        rate  == IF IsZeroFee(q.ct) \/ ~small THEN 0 ELSE (IntOf(fee) * 1000 + 999) \div w
        refee == (rate \div 1000) * w + ((rate % 1000) * w) \div 1000     \* rate * w div 1000
        same  == /\ q.ver = 2
                 /\ (q.rs = "received" => q.lt = Big(0))
                 /\ q.seq0 = Big(IF IsAnchors(q.ct) THEN 1 ELSE 0)
                 /\ (~IsAnchors(q.ct) => (q.nin = 1 /\ q.nout = 1))
                 /\ q.oform = "revokeable" /\ q.odelay = CanonDelay(q) /\ q.orev = q.crev /\ q.odly = q.cdly
                 /\ small /\ IntOf(fee) = refee
                 /\ BLe(q.amount, MSAT_LIMIT)
    IN IF ~same THEN "sighash"
       ELSE IF q.rs = "offered" /\ q.lt = Big(0) THEN "locktime0"
       ELSE IF ~IsZeroFee(q.ct) /\ rate < q.minrate THEN "feerate"
       ELSE IF rate > q.maxrate THEN "feerate"
       ELSE "ok"

---------------------------------------------------------------------------
Rules(q)      == IF q.fam = "sweep" THEN SweepRules(q) ELSE HtlcRules(q)
MustRefuse(q) == Rules(q) # {}
Step(q, K)    == IF q.fam = "sweep" THEN StepSweep(q, K) ELSE StepHtlc(q)
RuleNames     == SweepRuleNames \cup HtlcRuleNames
\* what a signature must commit to when the request is granted
SighashType(q) == IF q.fam = "htlc" /\ IsAnchors(q.ct) THEN "single_acp" ELSE "all"

(***************************************************************************)
(* The property, as a monitor over ONE observation (query, response):       *)
(*   granted  =>  no rule of the reference is violated, and the signature   *)
(*   verifies, under the key BOLT-3 prescribes, against the presented       *)
(*   transaction (which the rules have shown to be the canonical one) with  *)
(*   the sighash type of the channel type.                                  *)
(* resp = [ok, tag, sig |-> "submitted" | "other" | "none", typ]            *)
(***************************************************************************)
GrantedBad(q, resp)  == resp.ok /\ MustRefuse(q)
SignedBad(q, resp)   == resp.ok /\ ~MustRefuse(q) /\ (resp.sig # "submitted" \/ resp.typ # SighashType(q))
Inv_C09(q, resp)     == ~GrantedBad(q, resp) /\ ~SignedBad(q, resp)

(***************************************************************************)
(* The state the validators read: allowlist and chain height.               *)
(* env = [h, allow];  ops: [op |-> "block"], [op |-> "allow_add", t],       *)
(* [op |-> "allow_rm", t]                                                    *)
(***************************************************************************)
InitEnv == [h |-> 0, allow |-> {}]
EnvStep(env, o) ==
  CASE o.op = "block"     -> [env EXCEPT !.h = @ + 1]
    [] o.op = "allow_add" -> [env EXCEPT !.allow = @ \cup {o.t}]
    [] o.op = "allow_rm"  -> [env EXCEPT !.allow = @ \ {o.t}]
    [] OTHER              -> env

(***************************************************************************)
(* THE REQUEST MATRIX.  Abstract requests carry model numbers (the harness   *)
(* uses exactly these) and DESCRIPTORS of scripts and keys that the harness  *)
(* concretises:                                                              *)
(*   outs: [o |-> "wallet"|"xpub"|"script"|"foreign", st, dp]               *)
(*   key : [k |-> "rev"|"dly", base |-> "holder"|"cp", pcp |-> "req"|"other"] *)
(*   rs "wrongmode": the script of kind rsk in the form of the OTHER anchor   *)
(*   mode; crev, cdly: the keys BOLT-3 prescribes, as descriptors            *)
(***************************************************************************)
HDELAY == 6          \* holder-selected contest delay of the test channels
CDELAY == 7          \* counterparty-selected contest delay
MINRATE == 253
MAXRATE == 5000
NOW == 1700000000
EXPIRY == 500        \* cltv_expiry of the HTLCs
AMOUNT == 1000000
TYPRATE == 1000
WPATH == <<7>>

\* The deprecated non-zero-fee "anchors" type is refused by setup_channel (policy-channel-safe-type)
\* and LDK builds its scripts without the CSV: not reachable through the public API, left out.
CTs(tier) == {"static", "zerofee"}

WOut(st, dp) == [o |-> "wallet",  st |-> st, dp |-> dp]
XOut(st, dp) == [o |-> "xpub",    st |-> st, dp |-> dp]
SOut         == [o |-> "script",  st |-> "p2wpkh", dp |-> <<>>]
FOut(st)     == [o |-> "foreign", st |-> st, dp |-> <<>>]

\* abstract tokens of a descriptor (the harness logs the real strings instead)
TokOf(d)  == CASE d.o = "script" -> "S" [] d.o = "wallet" -> "W" [] d.o = "xpub" -> "XD" [] OTHER -> "F"
AbsOut(d) == [tok |-> TokOf(d), xtok |-> IF d.o = "xpub" THEN "X" ELSE "none",
              xp |-> IF d.o = "xpub" THEN d.dp ELSE <<>>, wp |-> IF d.o = "wallet" THEN d.dp ELSE <<>>,
              st |-> d.st]

GoodOut == WOut("p2wpkh", WPATH)
SingleOuts ==
  {WOut(st, dp) : st \in {"p2wpkh", "p2shwpkh", "p2tr", "p2pkh"}, dp \in {WPATH, <<8>>}}
    \cup {XOut(st, dp) : st \in {"p2wpkh", "p2shwpkh", "p2tr", "p2pkh"}, dp \in {WPATH, <<8>>}}
    \cup {SOut} \cup {FOut(st) : st \in {"p2wpkh", "p2wsh", "p2tr", "opreturn", "empty"}}
OutLists ==
  {<<d>> : d \in SingleOuts}
    \cup {<<>>, <<GoodOut, GoodOut, GoodOut>>,
          <<GoodOut, FOut("p2wpkh")>>, <<FOut("p2wpkh"), GoodOut>>, <<GoodOut, GoodOut, FOut("p2wsh")>>,
          <<GoodOut, SOut>>, <<SOut, GoodOut>>, <<SOut, XOut("p2wpkh", WPATH)>>, <<GoodOut, SOut, FOut("p2tr")>>}
Paths == {WPATH, <<>>, <<8>>, <<0, 7>>}       \* the hint, none, another key, a path of the wrong length

SweepCombos(tier) ==
  {<<api, ct, rs>> \in {"delayed", "justice", "cphtlc"} \X CTs(tier) \X {"none", "offered", "received"} :
     (api = "cphtlc") = (rs # "none")}

CanonSeq(api, ct) == CASE api = "delayed" -> Big(CDELAY)
                       [] api = "cphtlc"  -> Big(IF IsAnchors(ct) THEN 1 ELSE 0)
                       [] OTHER           -> SEQ_FD
BaseSweep(api, ct, rs, h) ==
  [fam |-> "sweep", api |-> api, ct |-> ct, rs |-> rs, rsk |-> rs, path |-> WPATH, ver |-> 2,
   lt |-> IF rs = "received" THEN Big(EXPIRY) ELSE Big(h), input |-> 0, seqs |-> <<CanonSeq(api, ct)>>,
   outs |-> <<GoodOut>>, exp |-> [neg |-> FALSE, m |-> Big(IF rs = "received" THEN EXPIRY ELSE 0)],
   cn |-> "ok"]

SeqValues == {Big(0), Big(1), Big(2), Big(CDELAY - 1), Big(CDELAY), Big(CDELAY + 1), Big(HDELAY),
              Big(4194304 + CDELAY),          \* time-based relative lock flag (bit 22)
              <<0, 128, CDELAY>>,             \* relative lock disabled (bit 31)
              Big(65535), SEQ_FD, SEQ_FE, SEQ_FF}
SeqFew(api, ct) == {CanonSeq(api, ct), Big(2), SEQ_FF, Big(CDELAY)}
LtHeight(h) == {Big(0), Big(h + 1), Big(h + 2), Big(h + 3), Big(h + 1000), Big(LOCKTIME_THRESHOLD - 1),
                Big(LOCKTIME_THRESHOLD), Big(LOCKTIME_THRESHOLD + 1), Big(NOW), Big(NOW + 1), Big(2000000000),
                U32MAX}
LtExpiry == {Big(0), Big(EXPIRY - 1), Big(EXPIRY), Big(EXPIRY + 1), Big(LOCKTIME_THRESHOLD), U32MAX}
Expiries == {[neg |-> FALSE, m |-> Big(0)], [neg |-> FALSE, m |-> Big(1)], [neg |-> TRUE, m |-> Big(1)],
             [neg |-> FALSE, m |-> Big(LOCKTIME_THRESHOLD + 7)], [neg |-> FALSE, m |-> U32MAX],
             [neg |-> FALSE, m |-> TWO32], [neg |-> TRUE, m |-> TWO32]}

SweepMutants(b, h, tier) ==
  LET lts == IF b.rs = "received" THEN LtExpiry ELSE LtHeight(h)
      badlt == IF b.rs = "received" THEN Big(EXPIRY + 1) ELSE Big(h + 3) IN
  {b}
    \cup {[b EXCEPT !.ver = v] : v \in {0, 1, 3}}
    \cup {[b EXCEPT !.lt = x] : x \in lts}
    \cup {[b EXCEPT !.seqs = <<x>>] : x \in SeqValues}
    \cup {[b EXCEPT !.outs = os, !.path = p] : os \in OutLists, p \in Paths}
    \* several inputs: which input is signed, and which sequence belongs to it
    \cup {[b EXCEPT !.seqs = <<x, y>>, !.input = i] : x \in SeqFew(b.api, b.ct), y \in SeqFew(b.api, b.ct), i \in 0..2}
    \cup {[b EXCEPT !.input = 1]}
    \cup (IF b.api = "delayed" THEN {[b EXCEPT !.cn = "far"]} ELSE {})
    \cup (IF b.api = "cphtlc"
          THEN {[b EXCEPT !.rs = k] : k \in {"garbage", "wrongmode"}}
                 \cup {[b EXCEPT !.rs = k, !.lt = Big(h + 3)] : k \in {"garbage", "wrongmode"}}
          ELSE {})
    \cup (IF b.rs = "received"
          THEN {[b EXCEPT !.exp = e, !.lt = x] : e \in Expiries, x \in {Big(0), Big(1), Big(LOCKTIME_THRESHOLD + 7), U32MAX}}
          ELSE {})
    \* pairs of failing rules (order of the checks; a rule must not mask another)
    \cup {[b EXCEPT !.ver = 1, !.lt = badlt], [b EXCEPT !.ver = 3, !.seqs = <<Big(2)>>],
          [b EXCEPT !.ver = 1, !.outs = <<FOut("p2wpkh")>>], [b EXCEPT !.lt = badlt, !.seqs = <<Big(2)>>],
          [b EXCEPT !.lt = badlt, !.outs = <<GoodOut, FOut("p2wpkh")>>],
          [b EXCEPT !.seqs = <<Big(2)>>, !.outs = <<FOut("p2wsh")>>],
          [b EXCEPT !.ver = 1, !.lt = badlt, !.seqs = <<Big(2)>>, !.outs = <<FOut("p2tr")>>]}
    \* thorough: the full product of representative values of every rule-relevant field
    \cup (IF tier = "thorough"
          THEN {[b EXCEPT !.ver = v, !.lt = x, !.seqs = <<y>>, !.outs = os, !.path = p] :
                  v \in {1, 2}, x \in {b.lt, badlt, Big(LOCKTIME_THRESHOLD), IF b.rs = "received" THEN Big(EXPIRY - 1) ELSE Big(h + 2)},
                  y \in {CanonSeq(b.api, b.ct), Big(2), SEQ_FF, SEQ_FE},
                  os \in {<<GoodOut>>, <<SOut>>, <<XOut("p2wpkh", WPATH)>>, <<FOut("p2wpkh")>>, <<GoodOut, FOut("p2wsh")>>, <<SOut, GoodOut>>},
                  p \in {WPATH, <<>>}}
          ELSE {})

SweepRequests(h, tier) ==
  UNION {SweepMutants(BaseSweep(c[1], c[2], c[3], h), h, tier) : c \in SweepCombos(tier)}

\* ---- HTLC transactions
CanonKey(api, k) == [k |-> k, pcp |-> "req",
                     base |-> IF (api = "holder_htlc") = (k = "rev") THEN "cp" ELSE "holder"]
CanonDelayOf(api) == IF api = "holder_htlc" THEN CDELAY ELSE HDELAY
OtherBase(b) == IF b = "cp" THEN "holder" ELSE "cp"
WeightOf(ct, rs) == IF rs = "offered" THEN HtlcTimeoutWeight(IsAnchors(ct)) ELSE HtlcSuccessWeight(IsAnchors(ct))
FeeAt(rate, ct, rs) == (rate * WeightOf(ct, rs)) \div 1000
\* the fee whose true rate is 2^32 + 1000 (+-1) per kw: estimate_feerate_per_kw truncates it into range
WrapFee(ct, rs) == CASE WeightOf(ct, rs) = 663 -> <<0, 169, 12214476>>
                     [] WeightOf(ct, rs) = 703 -> <<0, 179, 16241048>>
                     [] WeightOf(ct, rs) = 666 -> <<0, 170, 8322165>>
                     [] OTHER                  -> <<0, 180, 12348736>>

BaseHtlc(api, ct, rs) ==
  [fam |-> "htlc", api |-> api, ct |-> ct, rs |-> rs, rsk |-> rs, ver |-> 2,
   crev |-> CanonKey(api, "rev"), cdly |-> CanonKey(api, "dly"),
   lt |-> Big(IF rs = "offered" THEN EXPIRY ELSE 0), nin |-> 1, nout |-> 1,
   seq0 |-> Big(IF IsAnchors(ct) THEN 1 ELSE 0), amount |-> Big(AMOUNT),
   value0 |-> Big(AMOUNT - (IF IsZeroFee(ct) THEN 0 ELSE FeeAt(TYPRATE, ct, rs))),
   out |-> [form |-> "revokeable", rev |-> CanonKey(api, "rev"), dly |-> CanonKey(api, "dly"),
            delay |-> CanonDelayOf(api)],
   ows |-> "canon", pcp |-> "given"]

HtlcCombos(tier) == {"holder_htlc", "cp_htlc"} \X CTs(tier) \X {"offered", "received"}

FeeValues(b) ==
  LET lo == FeeAt(MINRATE, b.ct, b.rs)
      hi == FeeAt(MAXRATE, b.ct, b.rs) IN
  {Big(AMOUNT - f) : f \in {0, 1, lo - 1, lo, lo + 1, FeeAt(TYPRATE, b.ct, b.rs), hi - 1, hi, hi + 1,
                            FeeAt(MAXRATE + 1, b.ct, b.rs), FeeAt(2 * MAXRATE, b.ct, b.rs), AMOUNT}}
    \cup {Big(AMOUNT + 1), Big(2 * AMOUNT), U64TOP(0)}                 \* output above the HTLC amount

KeyMutants(key) == {[key EXCEPT !.base = OtherBase(@)], [key EXCEPT !.pcp = "other"],
                    [key EXCEPT !.k = IF @ = "rev" THEN "dly" ELSE "rev"],
                    [key EXCEPT !.k = IF @ = "rev" THEN "dly" ELSE "rev", !.base = OtherBase(@)]}

HtlcMutants(b, tier) ==
  LET cd == b.out.delay
      badfee == Big(AMOUNT - FeeAt(2 * MAXRATE, b.ct, b.rs) - 5) IN
  {b}
    \cup {[b EXCEPT !.ver = v] : v \in {1, 3}}
    \cup {[b EXCEPT !.lt = x] : x \in {Big(0), Big(1), Big(EXPIRY), Big(EXPIRY + 1), Big(LOCKTIME_THRESHOLD + 5), U32MAX}}
    \cup {[b EXCEPT !.seq0 = x] : x \in {Big(0), Big(1), Big(2), Big(cd), SEQ_FD, SEQ_FF}}
    \cup {[b EXCEPT !.out.delay = d] : d \in {0, cd - 1, cd + 1, HDELAY + CDELAY - cd, 65535}}
    \cup {[b EXCEPT !.out.rev = k] : k \in KeyMutants(b.out.rev)}
    \cup {[b EXCEPT !.out.dly = k] : k \in KeyMutants(b.out.dly)}
    \cup {[b EXCEPT !.out.rev = b.out.dly, !.out.dly = b.out.rev]}
    \cup {[b EXCEPT !.out.form = f] : f \in {"wallet", "foreign", "rawws"}}
    \cup {[b EXCEPT !.value0 = v] : v \in FeeValues(b)}
    \* fee-rate truncation candidate and amounts at the top of u64
    \cup {[b EXCEPT !.amount = TWO32, !.value0 = BSub(TWO32, WrapFee(b.ct, b.rs))],
          [b EXCEPT !.amount = U64TOP(0), !.value0 = BSub(U64TOP(0), BSub(b.amount, b.value0))],
          [b EXCEPT !.amount = U64TOP(7), !.value0 = BSub(U64TOP(7), WrapFee(b.ct, b.rs))]}
    \cup {[b EXCEPT !.nin = n[1], !.nout = n[2]] : n \in {<<2, 1>>, <<1, 2>>, <<2, 2>>, <<1, 0>>, <<0, 1>>}}
    \cup {[b EXCEPT !.rs = k] : k \in {"garbage", "wrongmode"}}
    \cup {[b EXCEPT !.ows = "garbage"]}
    \cup (IF b.api = "holder_htlc" THEN {[b EXCEPT !.pcp = p] : p \in {"num_ok", "num_far"}} ELSE {})
    \* pairs
    \cup {[b EXCEPT !.ver = 1, !.value0 = badfee], [b EXCEPT !.seq0 = Big(2), !.out.delay = cd + 1],
          [b EXCEPT !.lt = Big(IF b.rs = "offered" THEN 0 ELSE 1), !.value0 = badfee],
          [b EXCEPT !.out.delay = cd + 1, !.value0 = badfee],
          [b EXCEPT !.out.rev = [b.out.rev EXCEPT !.pcp = "other"], !.out.dly = [b.out.dly EXCEPT !.pcp = "other"]],
          [b EXCEPT !.out.form = "wallet", !.value0 = badfee],
          [b EXCEPT !.nin = 2, !.nout = 2, !.value0 = badfee],
          [b EXCEPT !.rs = "garbage", !.ver = 3]}
    \cup (IF tier = "thorough"
          THEN {[b EXCEPT !.ver = v, !.lt = x, !.seq0 = y, !.out.delay = dl, !.out.rev = k, !.value0 = f, !.nout = no] :
                  v \in {2, 3}, x \in {Big(0), Big(EXPIRY)}, y \in {Big(0), Big(1)}, dl \in {cd, cd + 1},
                  k \in {b.out.rev, [b.out.rev EXCEPT !.pcp = "other"]}, f \in {b.value0, badfee, Big(AMOUNT + 1)},
                  no \in {1, 2}}
          ELSE {})

HtlcRequests(tier) == UNION {HtlcMutants(BaseHtlc(c[1], c[2], c[3]), tier) : c \in HtlcCombos(tier)}

Requests(h, tier) == SweepRequests(h, tier) \cup HtlcRequests(tier)

\* ---- the query an abstract request makes in an abstract state (leg A; the harness logs the
\* ---- same shape with the values it really used)
QueryOf(r, env) ==
  IF r.fam = "sweep"
  THEN [fam |-> "sweep", api |-> r.api, ct |-> r.ct, delay |-> CDELAY, height |-> env.h, now |-> NOW,
        allow |-> env.allow, path |-> r.path, ver |-> r.ver, lt |-> r.lt, input |-> r.input, seqs |-> r.seqs,
        outs |-> [i \in DOMAIN r.outs |-> AbsOut(r.outs[i])], rs |-> r.rs, exp |-> r.exp, cnok |-> r.cn = "ok"]
  ELSE [fam |-> "htlc", api |-> r.api, ct |-> r.ct, hdelay |-> HDELAY, cdelay |-> CDELAY, minrate |-> MINRATE,
        maxrate |-> MAXRATE, rs |-> r.rs, ver |-> r.ver, lt |-> r.lt, nin |-> r.nin, nout |-> r.nout,
        seq0 |-> r.seq0, amount |-> r.amount, value0 |-> r.value0,
        oform |-> IF r.nout = 0 THEN "none" ELSE r.out.form,
        odelay |-> IF r.out.form = "revokeable" /\ r.nout > 0 THEN r.out.delay ELSE -1,
        orev |-> IF r.out.form = "revokeable" /\ r.nout > 0 THEN r.out.rev ELSE CanonKey("none", "none"),
        odly |-> IF r.out.form = "revokeable" /\ r.nout > 0 THEN r.out.dly ELSE CanonKey("none", "none"),
        crev |-> r.crev, cdly |-> r.cdly, pcpok |-> r.pcp # "num_far"]
=============================================================================
