----------------------------- MODULE ConcChannel -----------------------------
(***************************************************************************)
(* C20, atomicity leg: pairs of channel requests (a, b) were executed       *)
(* CONCURRENTLY on the real signer under imposed schedules (for every lock  *)
(* acquisition k of one request: that thread is held before acquisition k,  *)
(* the other request is started and runs until it finishes or blocks, then  *)
(* the first continues).  A run is linearizable iff replies and final       *)
(* state equal those of a;b or of b;a                                        *)
(*   - as executed sequentially by the implementation itself (the property) *)
(*   - and as given by Channel!Step (conformance; reported, not an alarm).  *)
(***************************************************************************)
EXTENDS Channel, Json, IOUtils, SequencesExt

Runs == ndJsonDeserialize(IOEnv.CC_RUNS)
K == [revokeChecksClosed |-> IOEnv.CH_REVOKE_CHECKS_CLOSED = "true",
      atomicRevocation   |-> IOEnv.CH_ATOMIC_REVOCATION = "true"]

Same(r, q) == r.ra = q.ra /\ r.rb = q.rb /\ r.post = q.post
LinImpl(r) == Same(r, r.sab) \/ Same(r, r.sba)

SpecOrder(pre, x, y) == LET o1 == Step(pre, x, K) o2 == Step(o1.s, y, K) IN <<o1.resp, o2.resp, o2.s>>
LinSpec(r) == \/ SpecOrder(r.pre, r.a, r.b) = <<r.ra, r.rb, r.post>>
              \/ LET o == SpecOrder(r.pre, r.b, r.a) IN o = <<r.rb, r.ra, r.post>>

Idx == DOMAIN Runs
Stuck   == {i \in Idx : Runs[i].stuck}
NonLin  == {i \in Idx : ~Runs[i].stuck /\ ~LinImpl(Runs[i])}
SpecDiv == {i \in Idx : ~Runs[i].stuck /\ LinImpl(Runs[i]) /\ ~LinSpec(Runs[i])}
\* runs in which the second request ran to completion while the first was held INSIDE its
\* critical section on the same channel: evidence of a split critical section (informational)
Through == {i \in Idx : ~Runs[i].stuck /\ Runs[i].other_ran_through /\ Runs[i].k > 0}

Report == [ runs |-> Len(Runs),
            stuck |-> SetToSeq({Runs[i] : i \in Stuck}),
            nonlinearizable |-> SetToSeq({Runs[i] : i \in NonLin}),
            spec_divergences |-> SetToSeq({Runs[i] : i \in SpecDiv}),
            ran_through |-> Cardinality(Through) ]
ASSUME JsonSerialize(IOEnv.CC_REPORT, Report)

VARIABLE x
Init == x = 0
Next == UNCHANGED x
=============================================================================
