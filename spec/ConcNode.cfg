INIT Init
NEXT Next
