------------------------------- MODULE MC_KVV -------------------------------
(***************************************************************************)
(* Leg A: TLC explores the KVV model itself (design level).                 *)
(*   Kind = "pair"  : MemoryKVVStore and RedbKVVStore driven in lockstep by *)
(*                    the same requests (the differential clause needs it)  *)
(*   Kind = "cloud" : CloudKVVStore over a memory store                     *)
(* The monitors of KVV.tla run on the observations the model would give.    *)
(* A class of violation the model exhibits is a HYPOTHESIS about the code   *)
(* (it is confirmed or not by leg B); Ignore lists the classes already      *)
(* reported, so that the run continues to the next one / to completion.     *)
(***************************************************************************)
EXTENDS KVV

CONSTANTS Kind, NKeys, MaxVer, MaxW,      \* bounds
          BatchSequential, CloudChecksStaged,   \* behaviour switches (see KVV.tla)
          Ignore                          \* violation classes already reported

VARIABLES s, g, last

K  == [batchSequential |-> BatchSequential, cloudChecksStaged |-> CloudChecksStaged]
Ks == IF NKeys = 3 THEN {"k", "kk", "l"} ELSE {"k", "kk"}
Ps == IF NKeys = 3 THEN {"", "k", "kk", "ka", "l"} ELSE {"", "k", "kk", "ka"}
Xs == {"a", "b", ""}
Reqs == IF Kind = "pair" THEN PairRequests(Ks, MaxVer, Xs, {"a", "b"}, Ps)
        ELSE CloudRequests(Ks, MaxVer, Xs, Ks, {0, MaxVer}, {"a"}, {"", "k"})

MemObs(m)  == [t |-> m.t, c |-> VersOf(m.t)]
RedbObs(r) == [t |-> r.t, c |-> r.c]
CloudObs(c) == [loc |-> c.loc, ph |-> c.ph,
                view |-> IF c.ph = "open" THEN [k \in AllKeys |-> CloudRead(c, k)] ELSE EmptyTab]

Init == /\ s = IF Kind = "pair" THEN [m |-> MemInit, r |-> RedbInit] ELSE [c |-> CloudInit]
        /\ g = [flags |-> {}, rep |-> CloudGhostInit]
        /\ last = [op |-> "init"]

PairNext(r) ==
  LET om == MemStep(s.m, r, K)
      or == RedbStep(s.r, r, K)
      f  == Tag("mem", StoreViol(r, om.resp, MemObs(s.m), MemObs(om.s)))
            \cup Tag("redb", StoreViol(r, or.resp, RedbObs(s.r), RedbObs(or.s)))
            \cup Tag("diff", DiffViol(r, om.resp, or.resp, MemObs(s.m), RedbObs(s.r), MemObs(om.s), RedbObs(or.s)))
  IN /\ s' = [m |-> om.s, r |-> or.s]
     /\ g' = [g EXCEPT !.flags = @ \cup (f \ Ignore)]
     /\ last' = [req |-> r, m |-> om.resp.c, r |-> or.resp.c, new |-> f]

CloudNext(r, pre) ==
  LET o == CloudStep(s.c, r, K)
      f == Tag("cloud", CloudViol(g.rep, r, o.resp, pre, CloudObs(o.s)))
  IN /\ s' = [c |-> o.s]
     /\ g' = [flags |-> g.flags \cup (f \ Ignore), rep |-> CloudGhost(g.rep, r, o.resp)]
     /\ last' = [req |-> r, c |-> o.resp.c, new |-> f]

Next == IF Kind = "pair" THEN \E r \in Reqs : PairNext(r)
        ELSE LET pre == CloudObs(s.c) IN \E r \in Reqs : CloudNext(r, pre)

Spec == Init /\ [][Next]_<<s, g, last>>
View == <<s, g>>

Bound == IF Kind = "pair"
         THEN \A k \in AllKeys : s.m.t[k].v <= MaxVer /\ s.r.t[k].v <= MaxVer
         ELSE /\ \A k \in UserKeys : s.c.loc[k].v <= MaxVer /\ s.c.log[k].v <= MaxVer
              /\ s.c.loc[WriterKey].v < MaxW
              /\ s.c.ph # "dead"

\* the property: no monitor clause of C16 fails
C16 == g.flags = {}

\* structural invariants (beyond the list)
TypeOK == IF Kind = "pair"
          THEN /\ CacheCoherent(s.r)                  \* the versions cache is the table's version column
               /\ s.m.t = s.r.t                       \* the two backends hold the same contents
          ELSE /\ (s.c.ph # "open" => s.c.log = EmptyTab)
               \* staged entries are ahead of the local store
               /\ \A k \in AllKeys : Present(s.c.log[k]) => s.c.log[k].v > s.c.loc[k].v
=============================================================================
