-------------------------------- MODULE Keys --------------------------------
(***************************************************************************)
(* C18: channel keys are a stable function of seed and channel id.          *)
(*                                                                         *)
(* Mirrors the life cycle of the channels of ONE node as far as key         *)
(* material is concerned:                                                   *)
(*   vls-core/src/node.rs   new_channel / find_or_create_channel,           *)
(*                          setup_channel, forget_channel,                   *)
(*                          new_from_persistence (restore re-derives keys)   *)
(*   vls-core/src/channel.rs ChannelStub / Channel: get_channel_basepoints,  *)
(*                          get_per_commitment_point / _secret,              *)
(*                          channel_keys_with_channel_value                  *)
(*   vls-core/src/signer/my_keys_manager.rs get_channel_keys_with_id        *)
(*   vls-core/src/signer/derive.rs          keys_id, channel_keys           *)
(* plus the counterparty's compact BOLT-3 store of the secrets a channel     *)
(* releases (policy/validator.rs CounterpartyCommitmentSecrets; relation     *)
(* A.2, shared with Channel.tla: SecProvide / SecGet).                       *)
(*                                                                         *)
(* Written "to be bound": Step(s, r, K) -> [resp, s] is a pure operator,    *)
(* one arm per entry point, refusals in the code's order.  Key material is  *)
(* abstract: every channel carries `src`, the name of what its keys were    *)
(* derived from.  For the native and LDK styles that is the channel id      *)
(* ("i<k>"); for the LND style the basepoints come from a per-process        *)
(* counter ("c<k>") - which is why LND is outside C18, and why leg A uses    *)
(* the LND style as the vacuity guard of the monitors.                       *)
(*                                                                         *)
(* The property is stated over OBSERVATIONS only: obs is the set of          *)
(* <<slot, value>> pairs ever returned, slot = <<config, channel id,         *)
(* component, number>>.                                                      *)
(*   Stable   : one value per slot           (history independence)          *)
(*   Distinct : different ids, same component => different values            *)
(*   Tree     : the real compact store accepts a channel's own secrets in    *)
(*              order and gives each of them back                            *)
(*   Node     : node-level and wallet keys (node id, bolt12 / persistence    *)
(*              keys, onion secret, wallet account xpub, wallet addresses,   *)
(*              LDK shutdown script, heartbeat key) are the documented       *)
(*              functions NodeKey(style, seed, net, which): one value per    *)
(*              NAME, whoever shows it (reference term, any node, any time)  *)
(***************************************************************************)
EXTENDS Naturals, Integers, Sequences, FiniteSets, TLC

Ch == INSTANCE Channel          \* SecProvide, SecGet, TrailingOnes (relation A.2)

NoVal == 0                       \* "no value" in observations (values are interned: 1, 2, ..)

(***************************************************************************)
(* Parameters of a run: K = [style, nids, nmax, oid]                        *)
(*   style : "native" | "ldk" | "lnd"                                       *)
(*   nids  : channel ids are 1..nids                                        *)
(*   nmax  : largest commitment number observed; Advance sets                *)
(*           next_holder_commit_num to nmax + 2 (secrets 0..nmax released)   *)
(*   oid   : id -> rank of its dbid (forget_channel's high-water mark and    *)
(*           new_channel's reuse check compare dbids only)                   *)
(***************************************************************************)
Families   == {"low", "mid", "high", "peer0", "peer32"}
IsFlip(f)  == f \notin Families                       \* "flip<p>": ids differ in one bit of byte p
OidOf(f)   == [i \in 1..9 |-> IF f \in {"low", "mid", "high"} THEN i ELSE 1]
Ids(K)     == 1..K.nids
NH(K)      == K.nmax + 2

BpComps == <<"fund", "rev", "pay", "delay", "htlc", "fsec">>   \* order of the Basepoints reply

NoChan == [ph |-> "none", nh |-> 0, al |-> FALSE, v |-> "-", src |-> "-"]

Init0(K) == [ ch  |-> [i \in Ids(K) |-> NoChan],
             hwm |-> 0,                  \* dbid high-water mark (as a rank)
             rs  |-> FALSE,              \* this process was restored from the store
             ctr |-> 0,                  \* derivations made by this process (LND basepoint index)
             st  |-> [i \in Ids(K) |-> <<>>] ]   \* counterparty's compact store per channel

\* what the implementation projection shows (src and ctr are not observable)
Visible(s) == [ ch  |-> [i \in DOMAIN s.ch |-> [ph |-> s.ch[i].ph, nh |-> s.ch[i].nh,
                                                al |-> s.ch[i].al, v |-> s.ch[i].v]],
                hwm |-> s.hwm, rs |-> s.rs, st |-> s.st ]

IdName(i) == "i" \o ToString(i)
Src(s, i, K) == IF K.style = "lnd" THEN "c" \o ToString(s.ctr) ELSE IdName(i)

\* replies: ok, kind of value, the abstract values (a sequence)
Err(s)        == [resp |-> [ok |-> FALSE, k |-> "none", a |-> <<>>], s |-> s]
Ok(s)         == [resp |-> [ok |-> TRUE,  k |-> "none", a |-> <<>>], s |-> s]
OkV(s, k, a)  == [resp |-> [ok |-> TRUE,  k |-> k, a |-> a], s |-> s]

Max2(a, b) == IF a >= b THEN a ELSE b

---------------------------------------------------------------------------
\* node.rs new_channel -> find_or_create_channel
New(s, i, K) ==
  IF s.hwm >= K.oid[i] THEN Err(s)                    \* policy-channel-original-channel-id-reuse
  ELSE IF s.ch[i].ph # "none" THEN Ok(s)              \* existing slot is returned
  ELSE Ok([s EXCEPT !.ch[i] = [NoChan EXCEPT !.ph = "stub", !.src = Src(s, i, K)],
                    !.ctr = @ + 1])                   \* get_channel_keys_with_id

\* node.rs setup_channel (keys: channel_keys_with_channel_value copies the stub's keys)
Setup(s, i, al, v) ==
  LET c == s.ch[i] IN
  IF c.ph = "none" THEN Err(s)                         \* channel does not exist
  ELSE IF c.ph = "ready" THEN (IF v = c.v THEN Ok(s) ELSE Err(s))   \* already ready: same setup?
  ELSE Ok([s EXCEPT !.ch[i].ph = "ready", !.ch[i].al = al, !.ch[i].v = v])

\* node.rs forget_channel
Forget(s, i, K) ==
  LET c == s.ch[i] IN
  IF c.ph = "none" THEN Ok(s)
  ELSE LET h == Max2(s.hwm, K.oid[i]) IN
       IF c.ph = "stub" THEN Ok([s EXCEPT !.ch[i] = NoChan, !.hwm = h])
       ELSE Ok([s EXCEPT !.hwm = h])

\* harness: next_holder_commit_num := nmax + 2, persisted
Advance(s, i, K) ==
  IF s.ch[i].ph # "ready" THEN Err(s) ELSE Ok([s EXCEPT !.ch[i].nh = NH(K)])

\* node.rs new_from_persistence: every stored channel's keys are derived again from its id0
\* (LND: from the fresh process counter, in store order)
RankAmong(s, i) == Cardinality({j \in DOMAIN s.ch : s.ch[j].ph # "none" /\ j < i})
Restart(s, K) ==
  Ok([s EXCEPT !.rs = TRUE,
               !.ctr = Cardinality({j \in DOMAIN s.ch : s.ch[j].ph # "none"}),
               !.ch = [i \in DOMAIN s.ch |->
                         IF s.ch[i].ph = "none" THEN s.ch[i]
                         ELSE [s.ch[i] EXCEPT !.src = IF K.style = "lnd"
                                                       THEN "c" \o ToString(RankAmong(s, i))
                                                       ELSE IdName(i)]]])

---------------------------------------------------------------------------
\* observations.  via = "id0": by the original id; "perm": by the permanent id given at setup
Reach(s, i, via) == IF via = "id0" THEN s.ch[i].ph # "none"
                    ELSE s.ch[i].ph = "ready" /\ s.ch[i].al

Basepoints(s, i, via) ==
  IF ~Reach(s, i, via) THEN Err(s)
  ELSE OkV(s, "bp", [k \in 1..6 |-> <<BpComps[k], s.ch[i].src>>])

\* per-commitment values come from the commitment seed, derived from the id in every style
Point(s, i, n, via) ==
  LET c == s.ch[i] IN
  IF ~Reach(s, i, via) THEN Err(s)
  ELSE IF c.ph = "stub" THEN (IF n \in {0, 1} THEN OkV(s, "pt", <<<<"pt", IdName(i), n>>>>) ELSE Err(s))
  ELSE IF n > c.nh + 1 THEN Err(s)
  ELSE OkV(s, "pt", <<<<"pt", IdName(i), n>>>>)

Secret(s, i, n, via) ==
  LET c == s.ch[i] IN
  IF ~Reach(s, i, via) THEN Err(s)
  ELSE IF c.ph = "stub" THEN Err(s)
  ELSE IF n + 2 > c.nh THEN Err(s)
  ELSE OkV(s, "sec", <<<<"sec", IdName(i), n>>, <<"pt", IdName(i), n>>>>)

\* the counterparty of channel `to` files secret n released by channel `from`
\* (the reply carries the secret that was filed, whether or not the store took it)
Provide(s, to, n, from) ==
  IF ~Secret(s, from, n, "id0").resp.ok THEN Err(s)
  ELSE LET p == Ch!SecProvide(s.st[to], n, [t |-> IdName(from), n |-> n])
           a == <<<<"sec", IdName(from), n>>>> IN
       IF p.ok THEN OkV([s EXCEPT !.st[to] = p.slots], "prov", a)
       ELSE [resp |-> [ok |-> FALSE, k |-> "prov", a |-> a], s |-> s]

Get(s, to, n) ==
  LET x == Ch!SecGet(s.st[to], n) IN
  IF x.t = "none" THEN OkV(s, "get", <<>>) ELSE OkV(s, "get", <<<<"sec", x.t, x.n>>>>)

---------------------------------------------------------------------------
(***************************************************************************)
(* Node-level and wallet keys: functions of (style, seed, network) ONLY.    *)
(*                                                                         *)
(* NodeKey(style, seed, net, which) is the NAME of the specified value;     *)
(* two names are equal exactly when the code documents the values as the    *)
(* same function of the seed (signer/derive.rs):                            *)
(*   master key   native: BIP32-master(HKDF(seed, "bip32 seed"))            *)
(*                ldk   : BIP32-master(seed)                                 *)
(*   account key  get_account_extended_key: Native | Ldk =>                  *)
(*                get_account_extended_key_native =                          *)
(*                BIP32-master(HKDF(seed, "bip32 seed")) / 0 / 0             *)
(*                -> the LDK wallet account IS the native one                *)
(*   wallet keys, addresses, LDK shutdown key (account/2), heartbeat key     *)
(*                hang from the account key                                  *)
(*   node id      native: HKDF(seed, "nodeid");  ldk: master / 0'            *)
(*   bolt12 / persistence keys: master / 9735' , master / 9736'              *)
(*   onion reply secret: HKDF(seed, "onion reply secret") in every style     *)
(* The names are used as ghost slots, so "one value per slot" says at once:  *)
(* the same on independently created nodes, the same before and after a      *)
(* restart, the same across styles where documented, and equal to the        *)
(* reference RefTerm - a term over HKDF / BIP32 primitives that the harness  *)
(* merely evaluates.                                                         *)
(***************************************************************************)
WalletWhich == {"account", "shutdown", "hb", "wpkh0", "wpkh1", "wpkh7", "tr1", "sh1"}
MasterWhich == {"bolt12", "persist"}
NodeWhich   == WalletWhich \cup MasterWhich \cup {"nodeid", "onion"}

\* (names are plain strings: TLC can only compare values of one shape)
HkdfName(seed, info)      == "hkdf(" \o seed \o "," \o info \o ")"
MasterName(style, seed, net) ==
  "bip32(" \o (IF style = "native" THEN HkdfName(seed, "bip32 seed") ELSE seed) \o "," \o net \o ")"
AccountName(style, seed, net) ==
  IF style = "lnd" THEN "lnd-account(" \o seed \o "," \o net \o ")"
  ELSE "account(" \o MasterName("native", seed, net) \o ")"
NodeKey(style, seed, net, which) ==
  which \o ":" \o
  (CASE which \in WalletWhich -> AccountName(style, seed, net)
     [] which \in MasterWhich -> MasterName(style, seed, net)
     [] which = "nodeid"      -> IF style = "native" THEN HkdfName(seed, "nodeid")
                                 ELSE MasterName(style, seed, net)
     [] which = "onion"       -> HkdfName(seed, "onion reply secret"))

\* the reference as a term the harness evaluates: ("n" normal / "h" hardened child)
TSeed            == <<"seed">>
THkdf(info, t)   == <<"hkdf", info, t>>
TMaster(style)   == IF style = "native" THEN <<"master", THkdf("bip32 seed", TSeed)>> ELSE <<"master", TSeed>>
TChild(i, h, t)  == <<"child", i, h, t>>
TAccount         == TChild(0, "n", TChild(0, "n", <<"master", THkdf("bip32 seed", TSeed)>>))
RefTerm(style, which) ==
  CASE which = "account"  -> <<"xpub", TAccount>>
    [] which = "shutdown" -> <<"p2wpkh-script", TChild(2, "n", TAccount)>>
    [] which = "hb"       -> <<"hbkey", TAccount>>
    [] which = "wpkh0"    -> <<"p2wpkh", TChild(0, "n", TAccount)>>
    [] which = "wpkh1"    -> <<"p2wpkh", TChild(1, "n", TAccount)>>
    [] which = "wpkh7"    -> <<"p2wpkh", TChild(7, "n", TAccount)>>
    [] which = "tr1"      -> <<"p2tr", TChild(1, "n", TAccount)>>
    [] which = "sh1"      -> <<"p2shwpkh", TChild(1, "n", TAccount)>>
    [] which = "bolt12"   -> <<"pub", TChild(9735, "h", TMaster(style))>>
    [] which = "persist"  -> <<"pub", TChild(9736, "h", TMaster(style))>>
    [] which = "nodeid"   -> IF style = "native" THEN <<"pub-of-bytes", THkdf("nodeid", TSeed)>>
                             ELSE <<"pub", TChild(0, "h", TMaster(style))>>
    [] which = "onion"    -> <<"hex", THkdf("onion reply secret", TSeed)>>
NodeRequests == {[op |-> "NodeKey", which |-> w] : w \in NodeWhich}
           \cup {[op |-> "Ref", which |-> w,
                  term |-> [native |-> RefTerm("native", w), ldk |-> RefTerm("ldk", w)]] : w \in NodeWhich}

\* both are pure observations; the model's value is the name itself
NodeKeyReq(s, r) == OkV(s, "nk", <<<<"nk", r.which>>>>)

Step(s, r, K) ==
  CASE r.op = "New"        -> New(s, r.id, K)
    [] r.op = "Setup"      -> Setup(s, r.id, r.al, r.v)
    [] r.op = "Forget"     -> Forget(s, r.id, K)
    [] r.op = "Advance"    -> Advance(s, r.id, K)
    [] r.op = "Restart"    -> Restart(s, K)
    [] r.op = "Basepoints" -> Basepoints(s, r.id, r.via)
    [] r.op = "Point"      -> Point(s, r.id, r.n, r.via)
    [] r.op = "Secret"     -> Secret(s, r.id, r.n, r.via)
    [] r.op = "Provide"    -> Provide(s, r.to, r.n, r.from)
    [] r.op = "Get"        -> Get(s, r.to, r.n)
    [] r.op = "NodeKey"    -> NodeKeyReq(s, r)
    [] r.op = "Ref"        -> NodeKeyReq(s, r)
    [] OTHER               -> Err(s)

ObsOps  == {"Basepoints", "Point", "Secret", "Get", "NodeKey", "Ref"}   \* requests that never change the state
LifeOps == {"New", "Setup", "Forget", "Advance", "Restart", "Basepoints", "Point", "Secret", "NodeKey", "Ref"}
TreeOps == {"Provide", "Get", "Secret", "Restart"}

(***************************************************************************)
(* Request alphabet                                                        *)
(***************************************************************************)
Requests(K, Vias, Vals) ==
       {[op |-> "New", id |-> i] : i \in Ids(K)}
  \cup {[op |-> "Setup", id |-> i, al |-> a, v |-> v] : i \in Ids(K), a \in BOOLEAN, v \in Vals}
  \cup {[op |-> "Forget", id |-> i] : i \in Ids(K)}
  \cup {[op |-> "Advance", id |-> i] : i \in Ids(K)}
  \cup {[op |-> "Restart"]}
  \cup {[op |-> "Basepoints", id |-> i, via |-> w] : i \in Ids(K), w \in Vias}
  \cup {[op |-> "Point", id |-> i, n |-> n, via |-> w] : i \in Ids(K), n \in 0..K.nmax + 1, w \in Vias}
  \cup {[op |-> "Secret", id |-> i, n |-> n, via |-> w] : i \in Ids(K), n \in 0..K.nmax, w \in Vias}
  \cup {[op |-> "Provide", to |-> t, n |-> n, from |-> f] : t \in Ids(K), n \in 0..K.nmax, f \in Ids(K)}
  \cup {[op |-> "Get", to |-> t, n |-> n] : t \in Ids(K), n \in 0..K.nmax}

(***************************************************************************)
(* Observations -> <<slot, value>> pairs.                                   *)
(*   c      : the configuration (seed, style, network) of the node, a STRING *)
(*   Cid(i) : an opaque name of the CONCRETE channel id of model id i        *)
(*   vals   : the sequence of values of the reply (interned byte strings;    *)
(*            abstract tuples when the model itself is explored)             *)
(* slot = <<configuration, channel id, component, number>>                   *)
(***************************************************************************)
ObsOf(c, Cid(_), r, ok, vals) ==
  CASE ok /\ r.op = "Basepoints" /\ Len(vals) = 6
         -> {<<<<c, Cid(r.id), BpComps[k], -1>>, vals[k]>> : k \in 1..6}
    [] ok /\ r.op = "Point" /\ Len(vals) = 1
         -> {<<<<c, Cid(r.id), "pt", r.n>>, vals[1]>>}
    [] ok /\ r.op = "Secret" /\ Len(vals) = 2
         -> {<<<<c, Cid(r.id), "sec", r.n>>, vals[1]>>}
    \* the secret the channel released to be filed (whether or not the store took it)
    [] r.op = "Provide" /\ Len(vals) = 1
         -> {<<<<c, Cid(r.from), "sec", r.n>>, vals[1]>>}
    [] OTHER -> {}

\* node-level observations: the slot is the NAME of the specified value (channel id 0 = the node),
\* cfg = [style, seed, net] of the node that answered (for "Ref": of the node the term was evaluated for)
NodeObsOf(cfg, r, ok, vals) ==
  IF ok /\ r.op \in {"NodeKey", "Ref"} /\ Len(vals) = 1
  THEN {<<<<NodeKey(cfg.style, cfg.seed, cfg.net, r.which), 0, r.which, -1>>, vals[1]>>}
  ELSE {}
IsNodeSlot(sl) == sl[2] = 0

\* a secret's point, as measured by the harness (compared with Point(id, n): conformance only)
PtOfSecOf(c, Cid(_), r, ok, vals) ==
  IF ok /\ r.op = "Secret" /\ Len(vals) = 2
  THEN {<<<<c, Cid(r.id), "pt", r.n>>, vals[2]>>} ELSE {}

(***************************************************************************)
(* Ghost (history) variables: functions of the observations only.           *)
(*   obs   : every <<slot, value>> seen so far                               *)
(*   slots : the slots bound so far          (first observation binds)       *)
(*   kinds : <<configuration, component, number, value>> seen so far         *)
(*   clash : observations that gave a bound slot another value   (C18a)      *)
(*   coll  : observations whose value another channel id already            *)
(*           showed for the same component and number            (C18b)      *)
(***************************************************************************)
InitGhost == [obs |-> {}, slots |-> {}, kinds |-> {}, clash |-> {}, coll |-> {}]
KindOf(p) == <<p[1][1], p[1][3], p[1][4], p[2]>>

Ghost(g, newp) ==
  LET fresh == {p \in newp : p \notin g.obs} IN
  IF fresh = {} THEN g
  ELSE [ obs   |-> g.obs \cup fresh,
         slots |-> g.slots \cup {p[1] : p \in fresh},
         kinds |-> g.kinds \cup {KindOf(p) : p \in fresh},
         clash |-> g.clash \cup {p \in fresh : p[1] \in g.slots},
         coll  |-> g.coll \cup {p \in fresh : KindOf(p) \in g.kinds /\ p[1] \notin g.slots} ]

\* C18a  history independence: a channel slot never shows two values
Inv_Stable(g)   == {p \in g.clash : ~IsNodeSlot(p[1])} = {}
\* C18d  node-level and wallet keys are the specified functions of (style, seed, network): a NAME
\*       never shows two values (other node, after restart, other style where documented, reference)
Inv_Node(g)     == {p \in g.clash : IsNodeSlot(p[1])} = {}
\* C18b  different channel ids give different keys (same configuration, component, number)
Inv_Distinct(g) == g.coll = {}

\* the same two properties of a whole set of observations (used on an extracted state graph)
Stable(o)   == Cardinality(o) = Cardinality({p[1] : p \in o})
Distinct(o) == Cardinality({KindOf(p) : p \in o}) = Cardinality(o)
Clash(o)    == IF Stable(o) THEN {} ELSE {p \in o : \E q \in o : q[1] = p[1] /\ q[2] # p[2]}
Collide(o)  == IF Distinct(o) THEN {}
               ELSE {p \in o : \E q \in o : q[1][2] # p[1][2] /\ KindOf(q) = KindOf(p)}

(***************************************************************************)
(* C18c  the released secrets form a BOLT-3 tree: judged on the REAL        *)
(* compact store.  `slots` = the store's content before the request, each   *)
(* slot <<value, n>>; Own(v, n) = "v is the secret number n this channel    *)
(* released".                                                              *)
(*   TreeRefused : the store holds only own secrets filed in order, the     *)
(*                 next own secret (largest stored + 1, released by the     *)
(*                 channel) is offered, and the store refuses it            *)
(*   TreeWrong   : such a store returns for a number <= its largest         *)
(*                 something that is not the secret the channel released    *)
(*                 for that number                                          *)
(***************************************************************************)
AllOwn(slots, Own(_, _)) == \A k \in 1..Len(slots) : Own(slots[k][1], slots[k][2])
MaxN(slots) == IF Len(slots) = 0 THEN -1
               ELSE CHOOSE m \in {slots[k][2] : k \in 1..Len(slots)} :
                      \A k \in 1..Len(slots) : slots[k][2] <= m
\* in-order filling of 0..m leaves exactly slots from which every n <= m is derivable
InOrderShape(slots) ==
  LET abs == [k \in 1..Len(slots) |-> [t |-> "x", n |-> slots[k][2]]] IN
  \A n \in 0..MaxN(slots) : Ch!SecGet(abs, n).t = "x"

TreeRefused(slots, Own(_, _), r, ok, released) ==
  /\ r.op = "Provide" /\ r.to = r.from /\ ~ok /\ released
  /\ AllOwn(slots, Own) /\ InOrderShape(slots)
  /\ r.n = MaxN(slots) + 1

TreeWrong(slots, Own(_, _), r, vals) ==
  /\ r.op = "Get"
  /\ AllOwn(slots, Own) /\ InOrderShape(slots)
  /\ r.n <= MaxN(slots)
  /\ (Len(vals) # 1 \/ ~Own(vals[1], r.n))
=============================================================================
