INIT Init
NEXT Next
