-------------------------- MODULE ChannelAlphabet --------------------------
(* Prints the request alphabet of Channel.tla as JSON: the harness explores  *)
(* the implementation with exactly the requests the specification names.     *)
EXTENDS Channel, Json, IOUtils, SequencesExt

N  == CHOOSE n \in 0..16 : ToString(n) = IOEnv.CH_N
HC == IF IOEnv.CH_CONTENTS = "small" THEN {"A", "B"} ELSE {"A", "B", "H", "P"}
CC == IF IOEnv.CH_CONTENTS = "small" THEN {"A", "B"} ELSE {"A", "B", "P"}
TT == {"A", "B"}
Side == IOEnv.CH_SIDE       \* "holder", "cp" or "all"
HolderOps == {"GetPoint", "GetSecret", "GetSecretOrNone", "CheckFutureSecret", "ValidateHolder", "ValidateHolderRaw",
              "Activate", "Revoke", "SignHolder", "SignHolderRecovery", "SignHolderRedundant",
              "Restart"}
CpOps == {"SignCp", "ValidateRevocation", "Restart"}
\* SignMutualClose needs both sides: it is part of the "all" alphabet only
Base == CHOOSE n \in 0..100000 : ToString(n) = IOEnv.CH_BASE
Reqs == IF Side = "handler" THEN HandlerRequests(N, {"A", "B"}, TT) ELSE
        IF Side = "deepcp" THEN {r \in DeepCpRequests(Base, N, {"A", "B"}, TT) :
                                   r.op = "ValidateRevocation" => r.m \in {r.n, r.n + 1}} ELSE
        {r \in Requests(N, HC, CC, TT) :
           /\ (r.op = "ValidateHolder" /\ r.sig \in {"badhtlc", "shorthtlc"} => r.c = "H")
           /\ (Side = "holder" => r.op \in HolderOps)
           /\ (Side = "cp" => r.op \in CpOps)}

VARIABLE x
Init == x = 0
Next == UNCHANGED x
ASSUME JsonSerialize(IOEnv.CH_OUT, SetToSeq(Reqs))
=============================================================================
