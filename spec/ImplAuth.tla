------------------------------ MODULE ImplAuth ------------------------------
(***************************************************************************)
(* Leg B: the state graph EXTRACTED FROM THE REAL IMPLEMENTATION (harness   *)
(* `auth explore`: every case of the TLC-generated matrix applied in every  *)
(* session state reachable by NewNonce within the bound) is loaded here and *)
(*   1. every implementation edge is compared with Auth!Step (conformance;  *)
(*      divergences are written to AUTH_REPORT, they are not alarms),       *)
(*   2. the property monitors of C17 are evaluated on every accepted edge   *)
(*      (Verdict / KeyOf; violations grouped by canonical key), and TLC     *)
(*      explores the product  implementation graph x ghost  with the        *)
(*      invariants C17a, C17b, C17c.                                        *)
(*                                                                         *)
(* Nodes[i+1] = [id, n, x, e]: the session state with id i (n nonces drawn) *)
(* and its outgoing edges  <<to, case index, accepted 1/0, aux>>  (aux = 1: *)
(* an accepted Open returned exactly the presented value, no panic).        *)
(***************************************************************************)
EXTENDS Auth, Json, IOUtils, SequencesExt

Nodes == ndJsonDeserialize(IOEnv.AUTH_NODES)
Cases == ndJsonDeserialize(IOEnv.AUTH_CASES)
K     == [W |-> 8, framed |-> IOEnv.AUTH_FRAMED = "true"]

St(nd) == [n |-> nd.n]

\* every edge is judged ONCE (several 10^5 edges: no set of all edges is ever built)
J == [i \in DOMAIN Nodes |->
        [j \in DOMAIN Nodes[i].e |->
           LET e == Nodes[i].e[j] IN Judge(St(Nodes[i]), Cases[e[2]], e[3] = 1, K)]]

VARIABLES node, g, last

Init == /\ node = 0
        /\ g = InitGhost
        /\ last = [from |-> -1, ci |-> 0, ok |-> TRUE]

Next == \E j \in DOMAIN Nodes[node + 1].e :
          LET e == Nodes[node + 1].e[j] IN
          /\ node' = e[1]
          /\ g' = GhostJ(g, e[3] = 1, J[node + 1][j])
          /\ last' = [from |-> node, ci |-> e[2], ok |-> e[3] = 1]

Spec == Init /\ [][Next]_<<node, g, last>>
View == <<node, g>>

C17a == Inv_C17a(g)
C17b == Inv_C17b(g)
C17c == Inv_C17c(g)

---------------------------------------------------------------------------
BadAt(i, Bad(_, _, _)) == {<<i, j>> : j \in {k \in DOMAIN Nodes[i].e : Bad(Nodes[i], Nodes[i].e[k], J[i][k])}}
EdgesWhere(Bad(_, _, _)) == UNION {BadAt(i, Bad) : i \in DOMAIN Nodes}
CountAt(i, P(_, _, _)) == Cardinality({k \in DOMAIN Nodes[i].e : P(Nodes[i], Nodes[i].e[k], J[i][k])})
CountWhere(P(_, _, _)) == FoldLeft(LAMBDA acc, i : acc + CountAt(i, P), 0, [i \in DOMAIN Nodes |-> i])

IsCheck(e) == Cases[e[2]].op # "NewNonce"

\* 1. conformance of every implementation edge with the specification
Conforms(nd, e, j) ==
  /\ Applicable(St(nd), Cases[e[2]])
  /\ j.exp = (e[3] = 1)
  /\ e[4] = 1
  /\ NextS(St(nd), Cases[e[2]]).n = Nodes[e[1] + 1].n
Divergent == EdgesWhere(LAMBDA nd, e, j : ~Conforms(nd, e, j))

\* 2. the monitors on every accepted edge
Violating == EdgesWhere(LAMBDA nd, e, j : e[3] = 1 /\ j.mon # "ok")
KeyAt(p) == J[p[1]][p[2]].key
Keys == {KeyAt(p) : p \in Violating}

Describe(p) == LET nd == Nodes[p[1]] e == nd.e[p[2]] r == Cases[e[2]] IN
  [node |-> nd.id, n |-> nd.n, ci |-> e[2], req |-> r, ok |-> e[3] = 1, aux |-> e[4],
   expected_ok |-> J[p[1]][p[2]].exp,
   verdict |-> IF r.op = "NewNonce" THEN [mon |-> "ok", rel |-> "legit"] ELSE Verdict(St(nd), r, K)]

First(S, k) == LET q == SetToSeq(S) IN SubSeq(q, 1, IF Len(q) < k THEN Len(q) ELSE k)
\* a few members of a possibly very large class of edges, without building the class
Some(P(_, _, _), k) ==
  LET hit == {i \in DOMAIN Nodes : CountAt(i, P) > 0} IN
  IF hit = {} THEN <<>> ELSE LET i == CHOOSE x \in hit : TRUE IN First({Describe(p) : p \in BadAt(i, P)}, k)

NEdges == FoldLeft(LAMBDA acc, nd : acc + Len(nd.e), 0, Nodes)

Report ==
  [ nodes        |-> Len(Nodes),
    cases        |-> Len(Cases),
    edges        |-> NEdges,
    accepted     |-> CountWhere(LAMBDA nd, e, j : e[3] = 1 /\ IsCheck(e)),
    refused_modifications |-> CountWhere(LAMBDA nd, e, j : e[3] = 0 /\ j.mon # "ok"),
    sample_refused |-> Some(LAMBDA nd, e, j : e[3] = 0 /\ j.mon # "ok", 2),
    sample_legit |-> Some(LAMBDA nd, e, j : e[3] = 1 /\ IsCheck(e) /\ j.mon = "ok" /\ nd.n > 0, 1),
    impl_stricter |-> First({Describe(p) : p \in EdgesWhere(LAMBDA nd, e, j : e[3] = 0 /\ IsCheck(e) /\ j.mon = "ok")}, 20),
    divergence_count |-> Cardinality(Divergent),
    divergences  |-> First({Describe(p) : p \in Divergent}, 20),
    violation_count |-> Cardinality(Violating),
    violations   |-> SetToSeq({ [key |-> k,
                                 count |-> Cardinality({p \in Violating : KeyAt(p) = k}),
                                 example |-> Describe(CHOOSE p \in Violating : KeyAt(p) = k)] : k \in Keys }) ]

ASSUME JsonSerialize(IOEnv.AUTH_REPORT, Report)
=============================================================================
