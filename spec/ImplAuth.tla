------------------------------ MODULE ImplAuth ------------------------------
(***************************************************************************)
(* Leg B: the state graph EXTRACTED FROM THE REAL IMPLEMENTATION (harness   *)
(* `auth explore`: every case of the TLC-generated matrix applied in every  *)
(* session state reachable by NewNonce within the bound) is loaded here and *)
(*   1. every implementation edge is compared with Auth!Step (conformance;  *)
(*      divergences are written to AUTH_REPORT, they are not alarms),       *)
(*   2. the property monitors of C17 are evaluated on every accepted edge   *)
(*      (Verdict / KeyOf; violations grouped by canonical key), and TLC     *)
(*      explores the product  implementation graph x ghost  with the        *)
(*      invariants C17a, C17b, C17c.                                        *)
(*                                                                         *)
(* Nodes[i+1] = [id, n, x, e]: the session state with id i (n nonces drawn) *)
(* and its outgoing edges  <<to, case index, accepted 1/0, aux>>  (aux = 1: *)
(* an accepted Open returned exactly the presented value, no panic).        *)
(***************************************************************************)
EXTENDS Auth, Json, IOUtils, SequencesExt

Nodes == ndJsonDeserialize(IOEnv.AUTH_NODES)
Cases == ndJsonDeserialize(IOEnv.AUTH_CASES)
K     == [W |-> 8, framed |-> IOEnv.AUTH_FRAMED = "true"]

St(nd) == [n |-> nd.n]

VARIABLES node, g, last

Init == /\ node = 0
        /\ g = InitGhost
        /\ last = [from |-> -1, ci |-> 0, ok |-> TRUE]

Next == \E j \in DOMAIN Nodes[node + 1].e :
          LET nd == Nodes[node + 1]
              e  == nd.e[j] IN
          /\ node' = e[1]
          /\ g' = Ghost(g, St(nd), Cases[e[2]], Resp(e[3] = 1), K)
          /\ last' = [from |-> node, ci |-> e[2], ok |-> e[3] = 1]

Spec == Init /\ [][Next]_<<node, g, last>>
View == <<node, g>>

C17a == Inv_C17a(g)
C17b == Inv_C17b(g)
C17c == Inv_C17c(g)

---------------------------------------------------------------------------
BadAt(i, Bad(_, _)) == {<<i, j>> : j \in {k \in DOMAIN Nodes[i].e : Bad(Nodes[i], Nodes[i].e[k])}}
EdgesWhere(Bad(_, _)) == UNION {BadAt(i, Bad) : i \in DOMAIN Nodes}

\* 1. conformance of every implementation edge with the specification
Conforms(nd, e) ==
  LET o == Step(St(nd), Cases[e[2]], K) IN
  /\ Applicable(St(nd), Cases[e[2]])
  /\ o.resp.ok = (e[3] = 1)
  /\ e[4] = 1
  /\ o.s.n = Nodes[e[1] + 1].n
Divergent == EdgesWhere(LAMBDA nd, e : ~Conforms(nd, e))

\* 2. the monitors on every accepted edge
Violating == EdgesWhere(LAMBDA nd, e : /\ e[3] = 1
                                       /\ Cases[e[2]].op # "NewNonce"
                                       /\ Verdict(St(nd), Cases[e[2]], K).mon # "ok")
KeyAt(p) == LET nd == Nodes[p[1]] IN KeyOf(St(nd), Cases[nd.e[p[2]][2]], K)
Keys == {KeyAt(p) : p \in Violating}

Describe(p) == LET nd == Nodes[p[1]] e == nd.e[p[2]] r == Cases[e[2]] IN
  [node |-> nd.id, n |-> nd.n, ci |-> e[2], req |-> r, ok |-> e[3] = 1, aux |-> e[4],
   expected_ok |-> Step(St(nd), r, K).resp.ok,
   verdict |-> IF r.op = "NewNonce" THEN [mon |-> "ok", rel |-> "legit"] ELSE Verdict(St(nd), r, K)]

First(S, k) == LET q == SetToSeq(S) IN SubSeq(q, 1, IF Len(q) < k THEN Len(q) ELSE k)

NEdges    == FoldLeft(LAMBDA acc, nd : acc + Len(nd.e), 0, Nodes)
Accepted  == EdgesWhere(LAMBDA nd, e : e[3] = 1 /\ Cases[e[2]].op # "NewNonce")
\* accepted although something differs from what was tagged = Violating; refused modifications:
RefusedMods == EdgesWhere(LAMBDA nd, e : e[3] = 0 /\ Verdict(St(nd), Cases[e[2]], K).mon # "ok")
ImplStricter == EdgesWhere(LAMBDA nd, e : e[3] = 0 /\ Cases[e[2]].op # "NewNonce"
                                          /\ Verdict(St(nd), Cases[e[2]], K).mon = "ok")

Report ==
  [ nodes        |-> Len(Nodes),
    cases        |-> Len(Cases),
    edges        |-> NEdges,
    accepted     |-> Cardinality(Accepted),
    refused_modifications |-> Cardinality(RefusedMods),
    sample_refused |-> First({Describe(p) : p \in RefusedMods}, 2),
    sample_legit |-> First({Describe(p) : p \in Accepted \ Violating}, 1),
    impl_stricter |-> First({Describe(p) : p \in ImplStricter}, 20),
    divergence_count |-> Cardinality(Divergent),
    divergences  |-> First({Describe(p) : p \in Divergent}, 20),
    violation_count |-> Cardinality(Violating),
    violations   |-> SetToSeq({ [key |-> k,
                                 count |-> Cardinality({p \in Violating : KeyAt(p) = k}),
                                 example |-> Describe(CHOOSE p \in Violating : KeyAt(p) = k)] : k \in Keys }) ]

ASSUME JsonSerialize(IOEnv.AUTH_REPORT, Report)
=============================================================================
