-------------------------------- MODULE Locks --------------------------------
(***************************************************************************)
(* Lock protocol of the signer (C20, deadlock freedom).                     *)
(*                                                                         *)
(* The lock PROGRAMS are not written by hand: `locks record` runs every     *)
(* request kind on the real crates built with --cfg vls_verif (traced       *)
(* mutex) and records the sequence of acquire/release of named lock         *)
(* instances the code really performs (NodeState, ChannelMap, Slot1, Slot2, *)
(* Tracker, VFactory, Store, monitor State#k, ...).  This module runs NT    *)
(* such programs on NT threads under every interleaving; std mutexes are    *)
(* not re-entrant, so Acq(l) is enabled iff nobody (not even the thread     *)
(* itself) holds l.                                                         *)
(***************************************************************************)
EXTENDS Naturals, Sequences, FiniteSets, TLC, Json, IOUtils

CONSTANT NT
Programs == JsonDeserialize(IOEnv.LK_PROGRAMS)   \* <<[kind, prog |-> <<<<"acq"|"rel", lock>>, ...>>], ...>>
NP == Len(Programs)
Threads == 1..NT

VARIABLES pick, pc
vars == <<pick, pc>>

Prog(t) == Programs[pick[t]].prog
Done(t) == pc[t] > Len(Prog(t))

RECURSIVE HeldUpTo(_, _)
HeldUpTo(p, k) ==      \* locks held after executing p[1..k]
  IF k = 0 THEN {}
  ELSE LET h == HeldUpTo(p, k - 1) IN
       IF p[k][1] = "acq" THEN h \cup {p[k][2]} ELSE h \ {p[k][2]}
Held(t) == HeldUpTo(Prog(t), pc[t] - 1)

Wants(t) == IF ~Done(t) /\ Prog(t)[pc[t]][1] = "acq" THEN Prog(t)[pc[t]][2] ELSE "-"
Enabled(t) == /\ ~Done(t)
              /\ (Prog(t)[pc[t]][1] = "acq" => \A u \in Threads : Prog(t)[pc[t]][2] \notin Held(u))

\* thread programs are chosen in non-decreasing order (symmetry)
Init == /\ pick \in {f \in [Threads -> 1..NP] : \A i \in 1..NT - 1 : f[i] <= f[i + 1]}
        /\ pc = [t \in Threads |-> 1]
Next == \E t \in Threads : Enabled(t) /\ pc' = [pc EXCEPT ![t] = @ + 1] /\ UNCHANGED pick
Spec == Init /\ [][Next]_vars

Deadlocked == (\E t \in Threads : ~Done(t)) /\ (\A t \in Threads : ~Enabled(t))

\* every deadlocked state is written out (one line each); the invariant itself never fails
Describe == [threads |-> [t \in Threads |->
               [kind |-> Programs[pick[t]].kind, pc |-> pc[t], done |-> Done(t),
                acquired |-> Cardinality({k \in 1..pc[t] - 1 : Prog(t)[k][1] = "acq"}),
                held |-> Held(t), wants |-> Wants(t)]]]
ReportDeadlocks == Deadlocked => PrintT(<<"DEADLOCK", ToJson(Describe)>>)

\* the property proper (used when a lock discipline is expected to hold)
NoDeadlock == ~Deadlocked
=============================================================================
