------------------------------ MODULE MC_Sweep ------------------------------
(* Leg A: TLC explores the model itself (design level).  The node's allowlist *)
(* and chain height evolve through the environment operations; in every       *)
(* reachable state every request of the matrix is judged by the code-shaped   *)
(* Step and the outcome is checked against the reference (Inv_C09).  A        *)
(* counterexample here is a HYPOTHESIS about the code; it becomes a finding   *)
(* only when leg B reproduces it on the real crates.                          *)
EXTENDS Sweep

CONSTANTS HMax,             \* blocks connected at most
          Tier,             \* "quick" | "thorough" (request matrix)
          SignedInputSeq,   \* behaviour switch: Step looks at the sequence of the SIGNED input
          MultiInput        \* include sweeps with several inputs

VARIABLES env, last
K == [signedInputSeq |-> SignedInputSeq]
Idle == [kind |-> "idle", tag |-> "none", q |-> [fam |-> "none"]]

ReqsAt == [h \in 0..HMax |-> {r \in Requests(h, Tier) : MultiInput \/ r.fam = "htlc" \/ Len(r.seqs) = 1}]
Reqs(h) == ReqsAt[h]

Init == env = InitEnv /\ last = Idle
EnvOps == {[op |-> "allow_add", t |-> t] : t \in {"S", "X"}} \cup {[op |-> "allow_rm", t |-> t] : t \in {"S", "X"}}
Next ==
  IF last.kind = "sign" THEN env' = env /\ last' = Idle
  ELSE \/ env.h < HMax /\ env' = EnvStep(env, [op |-> "block"]) /\ last' = Idle
       \/ \E o \in EnvOps : env' = EnvStep(env, o) /\ last' = Idle
       \/ \E r \in Reqs(env.h) :
            LET q == QueryOf(r, env) IN
            /\ env' = env
            /\ last' = [kind |-> "sign", tag |-> Step(q, K), q |-> q]
Spec == Init /\ [][Next]_<<env, last>>

\* the code-shaped model grants nothing the reference refuses
C09 == last.kind = "sign" /\ last.tag = "ok" => ~MustRefuse(last.q)
\* ... and whatever it refuses with a tag that names a rule is refused by that family of rules
TagSound == last.kind = "sign" /\ last.tag \in {"version", "input"} =>
              \E n \in Rules(last.q) : n \in {"sweep.version", "htlc.version", "sweep.input"}
TypeOK == env.h \in 0..HMax /\ env.allow \subseteq {"S", "X"}
=============================================================================
