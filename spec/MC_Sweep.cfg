SPECIFICATION Spec
CONSTANTS
  HMax = 1
  Tier = "quick"
  SignedInputSeq = FALSE
  MultiInput = FALSE
INVARIANTS C09 TagSound TypeOK
CHECK_DEADLOCK FALSE
