----------------------------- MODULE SimChannel -----------------------------
(* Leg C (spec -> impl): random behaviours of the Channel model, printed as    *)
(* request sequences that the harness replays through the real implementation. *)
(* Run with  tlc -simulate num=K -depth D+2.  Requests that make progress are   *)
(* weighted so that behaviours reach deep commitment numbers.                   *)
EXTENDS Channel, Json, IOUtils

CONSTANTS N, RevokeChecksClosed, AtomicRevocation, Depth
VARIABLES s, hist, w

K == [revokeChecksClosed |-> RevokeChecksClosed, atomicRevocation |-> AtomicRevocation]
HC == {"A", "B", "H", "P"}
CC == {"A", "B", "P"}
TT == {"A", "B"}
Reqs == {r \in Requests(N, HC, CC, TT) :
            r.op = "ValidateHolder" /\ r.sig \in {"badhtlc", "shorthtlc"} => r.c = "H"}

Weight(st, r) == LET o == Step(st, r, K) IN
                 IF o.s # st THEN 60 ELSE IF o.resp.ok THEN 2 ELSE 1

Init == s = InitReady /\ hist = <<>> /\ w = 0
Next == /\ Len(hist) < Depth
        /\ \E r \in Reqs : \E k \in 1..Weight(s, r) :
              /\ s' = Step(s, r, K).s
              /\ hist' = Append(hist, r)
              /\ w' = k
Spec == Init /\ [][Next]_<<s, hist, w>>

Emit == Len(hist) = Depth => PrintT(<<"SIM", ToJson(hist)>>)
=============================================================================
