---------------------------- MODULE TraceVelocity ----------------------------
(***************************************************************************)
(* Leg C of C12 (impl -> spec): validates step sequences recorded from the  *)
(* real implementation by `velocity run` (TLC-simulated behaviours of the   *)
(* model, or the request sequence of a replay file), executed from a fresh  *)
(* signer WITHOUT any snapshot/restore.  One record per step:               *)
(*   [seq, step, c |-> case index, pre, req, ok, post]                      *)
(* Every step is compared with Velocity!Step (conformance, up to Norm) and  *)
(* the window monitor runs along each sequence (invariant C12).             *)
(* IOEnv: VEL_STEPS, VEL_CASES, VEL_REPORT, VEL_KEEP, VEL_PERSIST_FEE,      *)
(* VEL_MON ("pay" | "fee" | "both").                                        *)
(***************************************************************************)
EXTENDS Velocity, Json, IOUtils, SequencesExt

Steps == ndJsonDeserialize(IOEnv.VEL_STEPS)
Cases == JsonDeserialize(IOEnv.VEL_CASES)
Mon   == IOEnv.VEL_MON

ParamsOf(c) == [level |-> c.level, pay |-> c.pay, fee |-> c.fee,
                keep |-> IOEnv.VEL_KEEP = "true", persistFee |-> IOEnv.VEL_PERSIST_FEE = "true", ns |-> c.ns]
PS == [i \in DOMAIN Cases |-> ParamsOf(Cases[i])]

VARIABLES l, g
Init == l = 1 /\ g = [pay |-> <<0>>, fee |-> <<0>>, seen |-> <<>>]
Next == /\ l <= Len(Steps)
        /\ LET e == Steps[l]
               P == PS[e.c] IN
           g' = GhostFor(Mon, IF e.step = 0 THEN InitGhost(P) ELSE g, e.req, [ok |-> e.ok = 1, err |-> e.ok < 0], P)
        /\ l' = l + 1
Spec == Init /\ [][Next]_<<l, g>>

\* the monitor is evaluated after step l-1 with that step's parameters
C12 == l > 1 =>
         LET P == PS[Steps[l - 1].c] IN
         /\ (Mon # "fee" => Inv_C12_pay(g, P))
         /\ (Mon # "pay" => Inv_C12_fee(g, P))

Conforms(e) == LET P == PS[e.c]
                   o == Step(e.pre, e.req, P) IN
               /\ e.ok = Code(o.resp)
               /\ Norm(o.s, P) = Norm(e.post, P)
Idx == DOMAIN Steps
Divergent == {i \in Idx : ~Conforms(Steps[i])}
Failed    == {i \in Idx : Steps[i].ok < 0 /\ ~Step(Steps[i].pre, Steps[i].req, PS[Steps[i].c]).resp.err}
\* consecutive steps of one sequence must chain, the first must start in the initial state
Broken    == {i \in Idx : \/ (Steps[i].step > 0 /\ i > 1 /\ Steps[i].pre # Steps[i - 1].post)
                          \/ (Steps[i].step = 0 /\
                              Norm(Steps[i].pre, PS[Steps[i].c]) # Norm(InitState(PS[Steps[i].c]), PS[Steps[i].c]))}

\* the monitor evaluated along every sequence in one pass (used to minimise a violating
\* sequence: many candidate sequences are judged by one TLC run): first bad step per sequence
MonOK(gg, P) == /\ (Mon # "fee" => Inv_C12_pay(gg, P))
                /\ (Mon # "pay" => Inv_C12_fee(gg, P))
Scan == FoldLeft(LAMBDA acc, e :
                   LET P  == PS[e.c]
                       g1 == GhostFor(Mon, IF e.step = 0 THEN InitGhost(P) ELSE acc.g, e.req, [ok |-> e.ok = 1, err |-> e.ok < 0], P)
                       seen == e.step > 0 /\ acc.bad # <<>> /\ acc.bad[Len(acc.bad)].seq = e.seq IN
                   [g |-> g1,
                    bad |-> IF ~seen /\ ~MonOK(g1, P)
                            THEN Append(acc.bad, [seq |-> e.seq, step |-> e.step, case |-> Cases[e.c].id,
                                                  total_pay |-> CapSum(g1.pay, 1, Len(g1.pay)),
                                                  total_fee |-> CapSum(g1.fee, 1, Len(g1.fee))])
                            ELSE acc.bad],
                 [g |-> [pay |-> <<0>>, fee |-> <<0>>, seen |-> <<>>], bad |-> <<>>], Steps)

Describe(i) == LET e == Steps[i] P == PS[e.c] IN
  [line |-> i, seq |-> e.seq, step |-> e.step, case |-> Cases[e.c].id, pre |-> e.pre, req |-> e.req,
   ok |-> e.ok, post |-> e.post, detail |-> e.detail,
   expected |-> LET o == Step(e.pre, e.req, P) IN [ok |-> Code(o.resp), post |-> o.s]]

Report == [ steps |-> Len(Steps),
            violating |-> Scan.bad,
            approved |-> Cardinality({i \in Idx : Steps[i].ok = 1}),
            ndivergent |-> Cardinality(Divergent),
            divergences |-> LET q == SetToSeq(Divergent) IN [k \in 1..Lesser(Len(q), 40) |-> Describe(q[k])],
            failed      |-> LET q == SetToSeq(Failed) IN [k \in 1..Lesser(Len(q), 40) |-> Describe(q[k])],
            broken      |-> LET q == SetToSeq(Broken) IN [k \in 1..Lesser(Len(q), 40) |-> Describe(q[k])] ]
ASSUME JsonSerialize(IOEnv.VEL_REPORT, Report)
=============================================================================
