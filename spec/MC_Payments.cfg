SPECIFICATION Spec
CONSTANTS
  CfgName = "pay"
  Fee = 0
  Pct = 10
  RevokeValidates = TRUE
  Mon = "a"
VIEW View
INVARIANTS C06a C06b TypeOK
PROPERTIES Frame
CHECK_DEADLOCK FALSE
