INIT Init
NEXT Next
