INIT Init
NEXT Next
