INIT Init
NEXT Next
