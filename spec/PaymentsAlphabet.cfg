INIT Init
NEXT Next
