----------------------------- MODULE SweepCases -----------------------------
(* Everything the harness is asked to do for C09 (leg B) is generated here    *)
(* from the specification: behaviours  <<block^h, allowlist history, every    *)
(* signing request of the matrix that can depend on that state>>.             *)
(* IOEnv: SWEEP_OUT (json), SWEEP_TIER ("quick" | "thorough").                *)
EXTENDS Sweep, Json, IOUtils, SequencesExt

Tier == IOEnv.SWEEP_TIER

Heights == IF Tier = "quick" THEN <<0, 3>> ELSE <<0, 1, 3, 6>>
Add(t) == [op |-> "allow_add", t |-> t]
Rm(t)  == [op |-> "allow_rm", t |-> t]
\* allowlist histories: every subset, reached directly and after a removal
Histories ==
  << <<>>, <<Add("S")>>, <<Add("X")>>, <<Add("S"), Add("X")>>,
     <<Add("S"), Rm("S")>>, <<Add("S"), Add("X"), Rm("X")>>, <<Add("X"), Add("S"), Rm("S")>>,
     <<Add("X"), Rm("X"), Add("S")>> >>
  \o (IF Tier = "quick" THEN <<>>
      ELSE << <<Add("S"), Add("X"), Rm("S"), Rm("X")>>, <<Add("S"), Rm("S"), Add("S")>>, <<Rm("S"), Add("X")>> >>)

Blocks(h) == [k \in 1..h |-> [op |-> "block"]]
Sign(r)   == [op |-> "sign", r |-> r]

\* requests whose verdict can depend on the allowlist
DestSensitive(r) == r.fam = "sweep" /\ (r.outs # <<GoodOut>> \/ r.path # WPATH)
\* the others run under the first and the fullest history of every height; the second-level
\* HTLC requests read neither the allowlist nor the height: first and last state only
Selected(r, hi, ki) ==
  \/ DestSensitive(r)
  \/ r.fam = "sweep" /\ ki \in {1, 4}
  \/ r.fam = "htlc" /\ ((hi = 1 /\ ki = 1) \/ (hi = Len(Heights) /\ ki = 4))

Behaviour(hi, ki) ==
  LET h  == Heights[hi]
      sq == SetToSeq({r \in Requests(h, Tier) : Selected(r, hi, ki)}) IN
  [h |-> h, hist |-> ki,
   ops |-> Blocks(h) \o Histories[ki] \o [k \in 1..Len(sq) |-> Sign(sq[k])]]

Doc == [ctx |-> [minrate |-> MINRATE, maxrate |-> MAXRATE, hdelay |-> HDELAY, cdelay |-> CDELAY,
                 cts |-> SetToSeq(CTs(Tier))],
        behaviours |-> [n \in 1..(Len(Heights) * Len(Histories)) |->
                          Behaviour(((n - 1) \div Len(Histories)) + 1, ((n - 1) % Len(Histories)) + 1)]]

VARIABLE x
Init == x = 0
Next == UNCHANGED x
ASSUME JsonSerialize(IOEnv.SWEEP_OUT, Doc)
=============================================================================
