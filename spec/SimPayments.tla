---------------------------- MODULE SimPayments ----------------------------
(* Leg C (spec -> impl): random behaviours of the Payments model over a LARGE  *)
(* alphabet (every content of at most two HTLCs over two hashes and amounts    *)
(* 1..2, two or three channels), printed as request sequences that the harness *)
(* replays through a fresh real node each.  Run with tlc -simulate.  Requests  *)
(* that change the state are weighted so that behaviours make progress.        *)
EXTENDS Payments, Json, IOUtils

CONSTANTS SimName,            \* "sim2" (two channels), "sim3" (three), "sim2v" (two channels and a payment
                              \* velocity limit of 2 units: approvals are declined once the window is full)
          Fee, Pct, RevokeValidates, Depth
VARIABLES s, hist, w

Vlim == IF SimName = "sim2v" THEN 2 ELSE 0
K == [fee |-> Fee, pct |-> Pct, revokeValidates |-> RevokeValidates, vlim |-> Vlim]
ChanSet == IF SimName = "sim3" THEN {"c1", "c2", "c3"} ELSE {"c1", "c2"}
HashSet == {"h1", "h2"}
HT == HTLCs(HashSet, 2)
\* canonical order of HTLCs inside a content: by direction, hash, amount
Rank(x) == (IF x.d = "o" THEN 0 ELSE 100) + (IF x.h = "h1" THEN 0 ELSE 10) + x.a
Contents == {<<>>} \cup {<<x>> : x \in HT} \cup {<<p[1], p[2]>> : p \in {q \in HT \X HT : Rank(q[1]) <= Rank(q[2])}}
NodeReqs == {[op |-> "AddInvoice", h |-> h, a |-> a] : h \in HashSet, a \in 0..3}
        \cup {[op |-> "AddKeysend", h |-> h, a |-> a] : h \in HashSet, a \in 0..2}
        \cup {[op |-> "DeclineInvoice", h |-> h, a |-> 2] : h \in HashSet}
        \cup {[op |-> "ExpiredInvoice", h |-> h, a |-> 1] : h \in HashSet}
        \cup {[op |-> "IssueInvoice", h |-> h, a |-> a] : h \in HashSet, a \in 1..2}
        \cup {[op |-> "Fulfill", h |-> h] : h \in HashSet}
        \cup {[op |-> "Tick"], [op |-> "Heartbeat"], [op |-> "Restart"]}
\* per step: the node-level requests and, per channel, the requests for three random contents
\* (evaluating Step for all 45 contents x channels x 2 at every step makes simulation 8x slower)
Cand == NodeReqs \cup UNION {ChanReqs(c, {<<>>, RandomElement(Contents), RandomElement(Contents)}, TRUE) : c \in ChanSet}

Init == s = InitState(ChanSet, HashSet) /\ hist = <<>> /\ w = 0
Next == /\ Len(hist) < Depth
        /\ \E r \in Cand :
              LET o == Step(s, r, K)
                  wt == IF o.s # s THEN (IF r.op \in {"AddInvoice", "AddKeysend", "IssueInvoice", "Tick"} THEN 3 ELSE 8)
                        ELSE IF o.resp.ok THEN 1 ELSE 2 IN
              \E k \in 1..wt :
                /\ s' = o.s
                /\ hist' = Append(hist, r)
                /\ w' = k
Spec == Init /\ [][Next]_<<s, hist, w>>

Emit == Len(hist) = Depth =>
          PrintT(<<"SIM", ToJson([chans |-> ChanSet, hashes |-> HashSet, reqs |-> hist, vlim |-> Vlim])>>)
=============================================================================
