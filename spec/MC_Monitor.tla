----------------------------- MODULE MC_Monitor -----------------------------
(* Leg A: TLC explores the Monitor model itself (design level): every valid  *)
(* block history over the catalogue within the bounds, reorgs of any depth,  *)
(* both delivery modes; invariant C14.                                       *)
EXTENDS Monitor

CONSTANTS Cat,        \* catalogue name (Monitor!CatIds)
          Variant,    \* "funder" | "fundee"
          Rev, Mir,   \* behaviour switches (see Monitor!MkK)
          MaxTx,      \* transactions per block
          MaxLen,     \* blocks in the chain
          Modes,      \* subset of {"compact", "streamed"}
          Late,       \* the channel is set up in the middle of a first, streamed, empty block
          Stale       \* behaviour switch (see Monitor!MkKS)

VARIABLES st, aborted, last

K  == MkKS(Cat, Variant, Rev, Mir, Stale)
Floor == IF Late THEN 1 ELSE 0
BL == Blocks(K, MaxTx)

Init == /\ st = IF Late THEN InitStLate(K, <<>>) ELSE InitSt(K)
        /\ aborted = FALSE
        /\ last = [op |-> "init"]

Do(req) == LET o == Step(K, st, req) IN
           /\ st' = o.st
           /\ aborted' = (o.resp = "panic")
           /\ last' = [op |-> req.op, b |-> req.b, m |-> req.m, resp |-> o.resp, why |-> o.why]

DoConnect == /\ ~aborted /\ Len(st.chain) < MaxLen
             /\ \E m \in Modes : \E b \in BL : ValidOn(K, st.chain, b) /\ Do(ReqC(b, m))
DoDisconnect == /\ ~aborted /\ Len(st.chain) > Floor
                /\ \E m \in Modes : Do(ReqD(m))
Next == DoConnect \/ DoDisconnect

Spec == Init /\ [][Next]_<<st, aborted, last>>
View == <<[st EXCEPT !.s.sb = FALSE], aborted>>   \* (the readiness flag influences nothing)

C14 == Inv_C14L(K, st, aborted, Late)

\* structural invariants of the view (extra, beyond the list)
TypeOK == LET s == st.s IN
  /\ s.h = Len(st.chain) - Floor
  /\ Len(s.cho) = Len(s.chs)
  /\ (s.ct = None) = (s.uch = -1)
  /\ s.csh # -1 => ClosingSwept(s)
  /\ s.oosh # -1 => OurSwept(s)
  /\ s.w \cap s.sn = {}
=============================================================================
