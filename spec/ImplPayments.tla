---------------------------- MODULE ImplPayments ----------------------------
(***************************************************************************)
(* Leg B for Payments.tla: the state graph EXTRACTED FROM THE REAL NODE      *)
(* (`payments explore`: every request of the TLC-generated alphabet on every *)
(* reachable state of a real node with several funded channels; states       *)
(* re-created by re-executing their request path, restarts included).        *)
(*   Nodes[i+1] = [id, pre, x, e]   pre = projection onto Payments' state    *)
(*   edge       = <<to, request index, ok, flag>>                            *)
(* 1. every implementation edge is compared with Payments!Step (conformance; *)
(*    divergences go to the report, they are not alarms),                    *)
(* 2. TLC explores the product  implementation graph x ghost ledger  and     *)
(*    checks Inv_C06a / Inv_C06b on it (the property monitor, which uses     *)
(*    only what was observed: accepted request contents, answers, and the    *)
(*    approvals the signer reports as registered).                           *)
(***************************************************************************)
EXTENDS Payments, Json, IOUtils, SequencesExt

Nodes    == ndJsonDeserialize(IOEnv.PM_NODES)
Alpha    == JsonDeserialize(IOEnv.PM_ALPHABET)
Alphabet == Alpha.reqs
ToNat(str) == CHOOSE n \in 0..200 : ToString(n) = str
K == [fee |-> ToNat(IOEnv.PM_FEE), pct |-> ToNat(IOEnv.PM_PCT),
      revokeValidates |-> IOEnv.PM_REVOKE_VALIDATES = "true",
      vlim |-> Alpha.vlim]        \* the policy the configuration names (the harness built the node with it)
Mon == IOEnv.PM_MON

RespOf(e) == [ok |-> e[3] = 1, flag |-> e[4]]
ChanSet == DOMAIN Nodes[1].pre.ch
HashSet == DOMAIN Nodes[1].pre.inv

\* the known class of defect: a revocation applies to the ledger a holder commitment that would
\* no longer pass validate_payments (it was validated earlier, against an older ledger)
KFix == [K EXCEPT !.revokeValidates = TRUE]
StaleRevoke(nd, e) == /\ Alphabet[e[2]].op = "Revoke" /\ e[3] = 1
                      /\ ~Step(nd.pre, Alphabet[e[2]], KFix).resp.ok
Exclude == IOEnv.PM_EXCLUDE

VARIABLES node, g, last
Init == node = 0 /\ g = InitGhost(ChanSet, HashSet) /\ last = [op |-> "init"]
Next == \E j \in DOMAIN Nodes[node + 1].e :
          LET nd == Nodes[node + 1] e == nd.e[j] IN
          /\ e[1] >= 0
          /\ ~(Exclude = "stale-revoke" /\ StaleRevoke(nd, e))
          /\ node' = e[1]
          /\ g' = Ghost(g, Alphabet[e[2]], RespOf(e), nd.pre, Nodes[e[1] + 1].pre, Mon)
          /\ last' = [from |-> node, req |-> Alphabet[e[2]], ok |-> e[3] = 1, stale |-> StaleRevoke(nd, e)]
Spec == Init /\ [][Next]_<<node, g, last>>
View == <<node, g, IF "stale" \in DOMAIN last THEN last.stale ELSE FALSE>>

C06a == Inv_C06a(g, K)
C06b == Inv_C06b(g)
\* only the known class: clause (a) becomes false exactly at a stale revocation
C06aStale == ("stale" \in DOMAIN last /\ last.stale) => Inv_C06a(g, K)

---------------------------------------------------------------------------
\* (no set of ALL edges is ever built)
BadAt(i, Bad(_, _)) == {<<i, j>> : j \in {k \in DOMAIN Nodes[i].e : Bad(Nodes[i], Nodes[i].e[k])}}
EdgesWhere(Bad(_, _)) == UNION {BadAt(i, Bad) : i \in DOMAIN Nodes}

Conforms(nd, e) ==
  LET o == Step(nd.pre, Alphabet[e[2]], K) IN
  /\ o.resp = RespOf(e)
  /\ e[1] >= 0 => o.s = Nodes[e[1] + 1].pre
NEdges    == FoldLeft(LAMBDA acc, nd : acc + Len(nd.e), 0, Nodes)
NAccepted == FoldLeft(LAMBDA acc, nd : acc + Cardinality({k \in DOMAIN nd.e : nd.e[k][3] = 1}), 0, Nodes)

\* how much of the graph exercises the ledger (vacuity guard): states whose own commitments put
\* value in flight for an approved hash / sit exactly on the bound
SelfG(p) == [H |-> [c \in DOMAIN p.ch |-> p.ch[c].curH.htlcs], C |-> [c \in DOMAIN p.ch |-> p.ch[c].curC.htlcs]]
InFlight(p) == \E h \in DOMAIN p.inv : p.inv[h].amt >= 0 /\ GOut(SelfG(p), h) > 0
OnBound(p)  == \E h \in DOMAIN p.inv : p.inv[h].amt >= 0 /\ GOut(SelfG(p), h) > 0
                  /\ GOut(SelfG(p), h) = GIn(SelfG(p), h) + p.inv[h].amt + K.fee
Routed(p)   == \E h \in DOMAIN p.inv : GIn(SelfG(p), h) > 0 /\ GOut(SelfG(p), h) > 0
Pending(p)  == \E c \in DOMAIN p.ch : p.ch[c].nextH.some /\ p.ch[c].nextH # p.ch[c].curH

Describe(p) == LET nd == Nodes[p[1]] e == nd.e[p[2]] IN
  [node |-> nd.id, ri |-> e[2], pre |-> nd.pre, req |-> Alphabet[e[2]], resp |-> RespOf(e),
   post |-> IF e[1] >= 0 THEN Nodes[e[1] + 1].pre ELSE nd.pre,
   expected |-> LET o == Step(nd.pre, Alphabet[e[2]], K) IN [resp |-> o.resp, post |-> o.s]]
Brief(p) == LET nd == Nodes[p[1]] e == nd.e[p[2]] IN [node |-> nd.id, ri |-> e[2], req |-> Alphabet[e[2]]]
FirstN(S, n) == LET q == SetToSeq(S) IN SubSeq(q, 1, Min(n, Len(q)))

\* counts and a few samples without ever building the set of all such edges (a tree that accepts far more
\* than the model diverges on several 10^5 edges)
CountWhere(Bad(_, _)) ==
  FoldLeft(LAMBDA acc, nd : acc + Cardinality({k \in DOMAIN nd.e : Bad(nd, nd.e[k])}), 0, Nodes)
SampleWhere(Bad(_, _), n) ==
  LET q == FoldLeft(LAMBDA acc, nd : IF Len(acc) >= n THEN acc
                                     ELSE acc \o SetToSeq({<<nd.id + 1, k>> : k \in {j \in DOMAIN nd.e : Bad(nd, nd.e[j])}}),
                    <<>>, Nodes) IN
  SubSeq(q, 1, Min(n, Len(q)))
NotConf(nd, e)  == ~Conforms(nd, e)
IsStrict(nd, e) == e[3] = 0 /\ Step(nd.pre, Alphabet[e[2]], K).resp.ok
IsLax(nd, e)    == e[3] = 1 /\ ~Step(nd.pre, Alphabet[e[2]], K).resp.ok
IsFrameBad(nd, e) == e[3] = 0 /\ e[1] >= 0 /\ Nodes[e[1] + 1].pre # nd.pre

\* (a parameter keeps TLC from evaluating the report eagerly as a constant when it is not asked for)
FullReport(full) ==
  LET dv == SampleWhere(NotConf, 12)
      fb == SampleWhere(IsFrameBad, 12) IN
  [ nodes |-> Len(Nodes), edges |-> NEdges, accepted |-> NAccepted,
    ndivergent |-> CountWhere(NotConf), divergences |-> [i \in DOMAIN dv |-> Describe(dv[i])],
    impl_stricter |-> CountWhere(IsStrict), impl_laxer |-> CountWhere(IsLax),
    stale_revoke_edges |-> CountWhere(StaleRevoke),
    frame_bad |-> [i \in DOMAIN fb |-> Brief(fb[i])],
    in_flight_states |-> Cardinality({i \in DOMAIN Nodes : InFlight(Nodes[i].pre)}),
    on_bound_states |-> Cardinality({i \in DOMAIN Nodes : OnBound(Nodes[i].pre)}),
    routed_states |-> Cardinality({i \in DOMAIN Nodes : Routed(Nodes[i].pre)}),
    pending_states |-> Cardinality({i \in DOMAIN Nodes : Pending(Nodes[i].pre)}) ]
Report == IF IOEnv.PM_FULL = "1" THEN FullReport(TRUE) ELSE [nodes |-> Len(Nodes)]
ASSUME JsonSerialize(IOEnv.PM_REPORT, Report)
=============================================================================
