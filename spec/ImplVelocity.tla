---------------------------- MODULE ImplVelocity ----------------------------
(***************************************************************************)
(* Leg B of C12: the state graphs EXTRACTED FROM THE REAL IMPLEMENTATION    *)
(* (`velocity explore`: for every case of VelocityCases every request of    *)
(* the case's alphabet applied to every reachable concrete state of a bare  *)
(* VelocityControl / a VelocityApprover / a Node over a KVV store) are      *)
(* loaded here and                                                          *)
(*   1. every implementation edge is compared with Velocity!Step            *)
(*      (conformance, up to Norm; divergences go to VEL_REPORT, no alarm),  *)
(*   2. TLC explores the product  implementation graph x ghost history and  *)
(*      checks the sliding-window property on it (invariant C12).           *)
(*                                                                         *)
(* Nodes[i+1] = [id |-> i, c |-> case index, root, x |-> expanded,          *)
(*               pre |-> projection onto Velocity's variables,              *)
(*               e |-> << <<to, request index, ok>>, ... >>]                *)
(* ok: 1 approved, 0 refused, -1 the real entry point failed (error/panic). *)
(* IOEnv: VEL_NODES, VEL_CASES, VEL_REPORT, VEL_KEEP, VEL_PERSIST_FEE       *)
(* (the behaviour switches, what the code does at HEAD), VEL_MON ("pay",    *)
(* "fee" or "both"), VEL_LEVELS (e.g. "struct,approver").      *)
(***************************************************************************)
EXTENDS Velocity, Json, IOUtils, SequencesExt

Nodes == ndJsonDeserialize(IOEnv.VEL_NODES)
Cases == JsonDeserialize(IOEnv.VEL_CASES)
Mon   == IOEnv.VEL_MON

ParamsOf(c) == [level |-> c.level, pay |-> c.pay, fee |-> c.fee,
                keep |-> IOEnv.VEL_KEEP = "true", persistFee |-> IOEnv.VEL_PERSIST_FEE = "true", ns |-> c.ns]
PS == [i \in DOMAIN Cases |-> ParamsOf(Cases[i])]

InLevels(l) == \/ IOEnv.VEL_LEVELS = "all"
               \/ l = IOEnv.VEL_LEVELS
               \/ IOEnv.VEL_LEVELS = "struct,approver" /\ l \in {"struct", "approver"}
Selected(nd) == InLevels(Cases[nd.c].level)
\* a graph whose alphabet has no request counted by the monitored control cannot violate it
HasOps(c, ops) == \E k \in DOMAIN c.reqs : c.reqs[k].op \in ops
Relevant(c) == CASE Mon = "pay" -> HasOps(c, PayOps) [] Mon = "fee" -> HasOps(c, FeeOps) [] OTHER -> TRUE
Roots == {i \in DOMAIN Nodes : Nodes[i].root = 1 /\ Selected(Nodes[i]) /\ Relevant(Cases[Nodes[i].c])}

RespOf(e) == [ok |-> e[3] = 1, err |-> e[3] < 0]

VARIABLES node, g, last

Init == \E i \in Roots :
          /\ node = Nodes[i].id
          /\ g = InitGhost(PS[Nodes[i].c])
          /\ last = [case |-> Cases[Nodes[i].c].id, from |-> -1, op |-> "init", dt |-> 0, a |-> 0, h |-> 0, ok |-> 1]

Next == \E j \in DOMAIN Nodes[node + 1].e :
          LET nd == Nodes[node + 1]
              e  == nd.e[j]
              r  == Cases[nd.c].reqs[e[2]] IN
          /\ e[1] >= 0
          /\ node' = e[1]
          /\ g' = GhostFor(Mon, g, r, RespOf(e), PS[nd.c])
          /\ last' = [case |-> Cases[nd.c].id, from |-> node, op |-> r.op, dt |-> r.dt, a |-> r.a, h |-> r.h, ok |-> e[3]]

Spec == Init /\ [][Next]_<<node, g, last>>
View == <<node, g>>

\* the property monitor (on observations of the real implementation only)
C12 == LET P == PS[Nodes[node + 1].c] IN
       /\ (Mon # "fee" => Inv_C12_pay(g, P))
       /\ (Mon # "pay" => Inv_C12_fee(g, P))

---------------------------------------------------------------------------
\* conformance of every implementation edge with the specification
BadAt(i, Bad(_, _)) == {<<i, j>> : j \in {k \in DOMAIN Nodes[i].e : Bad(Nodes[i], Nodes[i].e[k])}}
\* VEL_STRIDE = n: on a very large graph only every n-th state's edges are compared (bounded time)
Stride == CHOOSE n \in 1..1000 : ToString(n) = IOEnv.VEL_STRIDE
EdgesWhere(Bad(_, _)) == UNION {BadAt(i, Bad) : i \in {k \in DOMAIN Nodes : Selected(Nodes[k]) /\ k % Stride = 0}}

Conforms(nd, e) ==
  LET P == PS[nd.c]
      o == Step(nd.pre, Cases[nd.c].reqs[e[2]], P) IN
  /\ e[3] = Code(o.resp)
  /\ e[1] >= 0 => Norm(o.s, P) = Norm(Nodes[e[1] + 1].pre, P)

\* (TLC evaluates constant definitions eagerly at start-up: the switch has to be inside them)
Full      == IOEnv.VEL_CONFORM # "no"
Divergent == IF Full THEN EdgesWhere(LAMBDA nd, e : ~Conforms(nd, e)) ELSE {}
Failed    == IF Full THEN EdgesWhere(LAMBDA nd, e : e[3] < 0 /\ ~Step(nd.pre, Cases[nd.c].reqs[e[2]], PS[nd.c]).resp.err)
             ELSE {}
InitBad   == {i \in Roots : Norm(Nodes[i].pre, PS[Nodes[i].c]) # Norm(InitState(PS[Nodes[i].c]), PS[Nodes[i].c])}

Sel    == {k \in DOMAIN Nodes : Selected(Nodes[k])}
NEdges == FoldLeft(LAMBDA acc, nd : IF Selected(nd) THEN acc + Len(nd.e) ELSE acc, 0, Nodes)
NOk    == FoldLeft(LAMBDA acc, nd : IF Selected(nd)
                                    THEN acc + Cardinality({k \in DOMAIN nd.e : nd.e[k][3] = 1}) ELSE acc, 0, Nodes)

Describe(p) == LET nd == Nodes[p[1]] e == nd.e[p[2]] P == PS[nd.c] IN
  [case |-> Cases[nd.c].id, node |-> nd.id, pre |-> nd.pre, req |-> Cases[nd.c].reqs[e[2]], ok |-> e[3],
   post |-> IF e[1] >= 0 THEN Nodes[e[1] + 1].pre ELSE nd.pre,
   expected |-> LET o == Step(nd.pre, Cases[nd.c].reqs[e[2]], P) IN [ok |-> Code(o.resp), post |-> o.s]]

\* VEL_CONFORM = "no": a repeated run over the same graph (other monitor) skips the edge comparison
Report ==
  [ nodes       |-> Cardinality(Sel),
    expanded    |-> Cardinality({i \in Sel : Nodes[i].x}),
    roots       |-> Cardinality(Roots),
    edges       |-> NEdges,
    stride      |-> Stride,
    approved    |-> NOk,
    ndivergent  |-> IF Full THEN Cardinality(Divergent) ELSE 0,
    divergences |-> IF Full THEN LET q == SetToSeq(Divergent) IN
                                 [k \in 1..Lesser(Len(q), 40) |-> Describe(q[k])] ELSE <<>>,
    nfailed     |-> IF Full THEN Cardinality(Failed) ELSE 0,
    failed      |-> IF Full THEN LET q == SetToSeq(Failed) IN
                                 [k \in 1..Lesser(Len(q), 40) |-> Describe(q[k])] ELSE <<>>,
    init_bad    |-> SetToSeq({Cases[Nodes[i].c].id : i \in InitBad}) ]

ASSUME JsonSerialize(IOEnv.VEL_REPORT, Report)
=============================================================================
