------------------------------ MODULE AuthCases ------------------------------
(* Prints the case matrix of AuthGen as ndjson (first case: NewNonce): the     *)
(* harness explores the real implementation with exactly these requests.       *)
EXTENDS AuthGen, Json, IOUtils, SequencesExt

Tier  == IOEnv.AUTH_TIER
Cases == <<NewNonceReq>> \o CaseSeq(Tier, SetToSeq)

VARIABLE x
Init == x = 0
Next == UNCHANGED x
ASSUME ndJsonSerialize(IOEnv.AUTH_OUT, Cases)
ASSUME PrintT(<<"CASES", Len(Cases)>>)
=============================================================================
