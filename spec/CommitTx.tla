------------------------------ MODULE CommitTx ------------------------------
(***************************************************************************)
(* C04 - commitment signatures bind to the BOLT-3 transaction of the        *)
(* validated content.                                                       *)
(*                                                                         *)
(* Byte-exact serialisation, SHA-256 and ECDSA are outside TLA+.  What this *)
(* module decides is the STRUCTURAL half of the property:                   *)
(*                                                                         *)
(*   1. the ABSTRACT BOLT-3 commitment transaction  Canon(S, C)  that is    *)
(*      determined by a channel setup S (commitment type, direction,        *)
(*      contest delays, key set, funding outpoint) and a commitment content *)
(*      C (number, per-commitment point, fee rate, the two balances, the    *)
(*      two HTLC lists): version, obscured number split over lock time and  *)
(*      sequence, the single funding input, which outputs exist, each       *)
(*      output's script TEMPLATE with NAMED keys / delay / expiry / payment *)
(*      hash, the BOLT-3 order; and its second-level HTLC transactions      *)
(*      CanonHtlcTx.  Transcribed from BOLT-3 and the property text, not    *)
(*      from the code;                                                      *)
(*   2. the REFERENCE PREDICATE  Rules(tx, S, C, pool) / MustRefuse  for    *)
(*      the raw entry point: a submitted transaction must be that           *)
(*      transaction field for field; every rule is a separately named       *)
(*      conjunct (names follow docs/policy-controls.md "Validating a        *)
(*      Commitment Transaction") so that coverage can show that every rule  *)
(*      was the SOLE reason of a refusal;                                   *)
(*   3. the single-field MUTATIONS of a transaction and of the supplied     *)
(*      witness scripts (Mutate, MutateWs);                                 *)
(*   4. code-shaped operators  StepRaw / StepSem  listing the refusals of   *)
(*      channel.rs sign_counterparty_commitment_tx[_phase2], tx/tx.rs       *)
(*      handle_output and simple_validator.rs decode_commitment_tx in the   *)
(*      code's order (conformance only);                                    *)
(*   5. the property as monitors over ONE observation (the Bad_ operators); *)
(*   6. the HISTORY dimension of a case (Histories): a fresh number, a      *)
(*      retry of a signed number, and both again AFTER A SIGNER RESTART     *)
(*      (Restart: the signer restored from its store) - the same monitors   *)
(*      judge the requests made after the restart.                          *)
(*                                                                         *)
(* The same operators judge the abstract cases of the model (MC_CommitTx,   *)
(* leg A) and the records LOGGED BY THE HARNESS from the real crates with   *)
(* the values it really used (ImplCommitTx, leg B).                         *)
(*                                                                         *)
(* Shapes.                                                                  *)
(*  S  = [ct "static"|"zerofee", outbound, hdelay, cdelay, ks, fo [t, i],   *)
(*        value, push, of [hc <<hi,lo>>, ch <<hi,lo>>]]                     *)
(*       of: lower 48 bits of SHA256(payment basepoints) in both orders     *)
(*       (holder first / counterparty first) as two 24-bit limbs: a         *)
(*       concrete observation (the hash is outside TLA+)                    *)
(*  C  = [n, pt, fr, to_h, to_c, off <<[v,h,cl]>>, rcv <<[v,h,cl]>>]         *)
(*       to_h: value to the holder = countersignatory of the counterparty's *)
(*       commitment; to_c: to the counterparty = broadcaster; off / rcv:    *)
(*       HTLCs offered / received BY THE BROADCASTER                        *)
(*  Out = [vc "n"|"top", v, tp, k1, k2, k3, d, h, cl, sk <<a,b>>]           *)
(*       vc = "top": the u64 value 2^64-1-v (TLC integers are 32-bit);      *)
(*       tp script template; k1..k3 key NAMES; d delay / expiry inside the  *)
(*       script; h payment-hash id; cl the HTLC's cltv_expiry (tie-break of *)
(*       the order, lock time of the HTLC-timeout transaction: not part of  *)
(*       an offered HTLC's script); sk a 48-bit prefix of the scriptPubKey  *)
(*       bytes (an observation: BOLT-3 orders equal amounts by script)      *)
(*  tx = [ver, lt <<hi8,lo24>>, ins <<[op [t,i], seq <<hi8,lo24>>, ss,     *)
(*        wit]>>, outs <<Out>>]                                             *)
(***************************************************************************)
EXTENDS Naturals, Integers, Sequences, FiniteSets, TLC

---------------------------------------------------------------------------
\* numbers
M24 == 16777216
RECURSIVE XorN(_, _, _)
XorN(a, b, k) == IF k = 0 THEN 0 ELSE (((a % 2) + (b % 2)) % 2) + 2 * XorN(a \div 2, b \div 2, k - 1)
Xor24(a, b) == XorN(a, b, 24)
MinOf(S) == CHOOSE x \in S : \A y \in S : x <= y
RangeOf(s) == {s[i] : i \in DOMAIN s}

\* constants of BOLT-3 and of the rules
ANCHOR_SAT == 330
DUST_CHAN == 354            \* MIN_CHAN_DUST_LIMIT_SATOSHIS
DUST_MIN == 330             \* MIN_DUST_LIMIT_SATOSHIS
MAX_DELAY == 2016
HtlcTimeoutWeight(anch) == IF anch THEN 666 ELSE 663
HtlcSuccessWeight(anch) == IF anch THEN 706 ELSE 703
CommitWeight(anch, nh) == (IF anch THEN 1124 ELSE 724) + 172 * nh
MINRATE == 253
MAXRATE == 333333           \* regtest default policy

Anch(S) == S.ct = "zerofee"

---------------------------------------------------------------------------
\* outputs
KnownTps   == {"p2wpkh", "remote_anchors", "revokeable", "anchor", "offered", "offered_ax", "received", "received_ax"}
UnknownTps == {"optrue", "p2pkh", "opreturn", "p2tr"}
RemoteTps  == {"p2wpkh", "remote_anchors"}
OfferedTps == {"offered", "offered_ax"}
ReceivedTps == {"received", "received_ax"}
HtlcTps    == OfferedTps \cup ReceivedTps
P2wshTps   == {"remote_anchors", "revokeable", "anchor", "offered", "offered_ax", "received", "received_ax", "optrue"}

NOSK == <<0, 0>>
Amt(vc, v) == [vc |-> vc, v |-> v]
NAmt(v) == Amt("n", v)
AmtPos(a) == a.vc = "top" \/ a.v > 0
MkOut(a, tp, k1, k2, k3, d, h, cl) ==
  [vc |-> a.vc, v |-> a.v, tp |-> tp, k1 |-> k1, k2 |-> k2, k3 |-> k3, d |-> d, h |-> h, cl |-> cl, sk |-> NOSK]
NoOut == MkOut(NAmt(0), "none", "none", "none", "none", -1, 0, 0)

\* what of an output is in the serialized transaction (sk is derived from it, cl is not in it)
ScriptOf(o) == <<o.tp, o.k1, o.k2, o.k3, o.d, o.h>>
BV(o)       == <<o.vc, o.v, ScriptOf(o)>>
BVSeq(s)    == [i \in DOMAIN s |-> BV(s[i])]
Count(s, x) == Cardinality({i \in DOMAIN s : s[i] = x})
SameBag(s, t) == /\ Len(s) = Len(t)
                 /\ \A i \in DOMAIN s : Count(s, s[i]) = Count(t, s[i])

\* the fields a template does not use carry fixed values
Norm(o) ==
  CASE o.tp \in {"p2wpkh", "remote_anchors", "anchor", "p2pkh", "p2tr"} ->
         [o EXCEPT !.k2 = "none", !.k3 = "none", !.d = -1, !.h = 0]
    [] o.tp = "revokeable" -> [o EXCEPT !.k3 = "none", !.h = 0]
    [] o.tp \in OfferedTps -> [o EXCEPT !.d = -1]
    [] o.tp \in ReceivedTps -> o
    [] OTHER -> [o EXCEPT !.k1 = "none", !.k2 = "none", !.k3 = "none", !.d = -1, !.h = 0]

\* BOLT-3 "Transaction Output Ordering": amount, then scriptPubKey bytes, then cltv_expiry
OutLess(a, b) ==
  \/ a.vc = "n" /\ b.vc = "top"
  \/ a.vc = b.vc /\ (IF a.vc = "n" THEN a.v < b.v ELSE a.v > b.v)
  \/ a.vc = b.vc /\ a.v = b.v /\ a.sk[1] < b.sk[1]
  \/ a.vc = b.vc /\ a.v = b.v /\ a.sk[1] = b.sk[1] /\ a.sk[2] < b.sk[2]
  \/ a.vc = b.vc /\ a.v = b.v /\ a.sk = b.sk /\ a.cl < b.cl
RECURSIVE Insert(_, _)
Insert(s, o) == IF s = << >> THEN <<o>>
                ELSE IF OutLess(o, Head(s)) THEN <<o>> \o s
                ELSE <<Head(s)>> \o Insert(Tail(s), o)
RECURSIVE SortOuts(_)
SortOuts(s) == IF s = << >> THEN << >> ELSE Insert(SortOuts(Tail(s)), Head(s))
Sorted(s) == \A i \in 1..(Len(s) - 1) : ~OutLess(s[i + 1], s[i])

\* the script prefix of an output as observed on some output with the same script
FillSk(o, pool) ==
  LET same == {q \in pool : ScriptOf(q) = ScriptOf(o)} IN
  IF same = {} THEN [o EXCEPT !.sk = <<-1, -1>>] ELSE [o EXCEPT !.sk = (CHOOSE q \in same : TRUE).sk]
FillSkSeq(s, pool) == [i \in DOMAIN s |-> FillSk(s[i], pool)]

---------------------------------------------------------------------------
(***************************************************************************)
(* THE CANONICAL TRANSACTION (BOLT-3 "Commitment Transaction").  In this    *)
(* code base the semantic request carries the NET output values and the     *)
(* list of untrimmed HTLCs: fee and trimming are policy questions (C05).    *)
(* Key names: rev = revocation key (holder's revocation base point, this    *)
(* commitment's point), dly = broadcaster's delayed key, bhtlc / chtlc =    *)
(* broadcaster's / countersignatory's HTLC keys, cpay = holder's payment    *)
(* point (static remote key), bfund / cfund = funding keys.                 *)
(***************************************************************************)
HtlcOut(S, x, offered) ==
  MkOut(NAmt(x.v), (IF offered THEN "offered" ELSE "received") \o (IF Anch(S) THEN "_ax" ELSE ""),
        "rev", "bhtlc", "chtlc", IF offered THEN -1 ELSE x.cl, x.h, x.cl)

\* model order: to_remote, to_local, anchors, offered HTLCs, received HTLCs
CanonOutsV(S, C, ah, ac) ==
  LET nh == Len(C.off) + Len(C.rcv) IN
     (IF AmtPos(ah)
      THEN << MkOut(ah, IF Anch(S) THEN "remote_anchors" ELSE "p2wpkh", "cpay", "none", "none", -1, 0, 0) >>
      ELSE << >>)
  \o (IF AmtPos(ac)
      \* the to_local output is delayed by what the OTHER side (here: the holder) selected
      THEN << MkOut(ac, "revokeable", "rev", "dly", "none", S.hdelay, 0, 0) >> ELSE << >>)
  \o (IF Anch(S) /\ (AmtPos(ac) \/ nh > 0)
      THEN << MkOut(NAmt(ANCHOR_SAT), "anchor", "bfund", "none", "none", -1, 0, 0) >> ELSE << >>)
  \o (IF Anch(S) /\ (AmtPos(ah) \/ nh > 0)
      THEN << MkOut(NAmt(ANCHOR_SAT), "anchor", "cfund", "none", "none", -1, 0, 0) >> ELSE << >>)
  \o [i \in 1..Len(C.off) |-> HtlcOut(S, C.off[i], TRUE)]
  \o [i \in 1..Len(C.rcv) |-> HtlcOut(S, C.rcv[i], FALSE)]
CanonOuts(S, C) == CanonOutsV(S, C, NAmt(C.to_h), NAmt(C.to_c))

\* 48-bit obscured commitment number <<hi24, lo24>>: the commitment number (counting up from 0,
\* below 2^24 here) XOR factor; the factor hashes the payment base point of the channel OPENER first
Factor(S) == IF S.outbound THEN S.of.hc ELSE S.of.ch
Obscured(S, n) == <<Factor(S)[1], Xor24(Factor(S)[2], n)>>
CanonLt(S, n)  == <<32, Obscured(S, n)[2]>>        \* upper 8 bits 0x20, lower 24 bits of the obscured number
CanonSeq(S, n) == <<128, Obscured(S, n)[1]>>       \* upper 8 bits 0x80, upper 24 bits of the obscured number
CanonIn(S, C)  == [op |-> S.fo, seq |-> CanonSeq(S, C.n), ss |-> "empty", wit |-> "empty"]

\* pool: outputs whose observed script prefixes may be used
CanonV(S, C, ah, ac, pool) ==
  [ver |-> 2, lt |-> CanonLt(S, C.n), ins |-> << CanonIn(S, C) >>,
   outs |-> SortOuts(FillSkSeq(CanonOutsV(S, C, ah, ac), pool))]
Canon(S, C, pool) == CanonV(S, C, NAmt(C.to_h), NAmt(C.to_c), pool)

\* the second-level transaction of the HTLC output at position p of the sorted canonical outputs
CanonHtlcTx(S, C, outs, p) ==
  LET o == outs[p]
      offered == o.tp \in OfferedTps
      w == IF offered THEN HtlcTimeoutWeight(Anch(S)) ELSE HtlcSuccessWeight(Anch(S))
      fee == IF Anch(S) THEN 0 ELSE (C.fr * w) \div 1000 IN
  [ver |-> 2, lt |-> IF offered THEN o.cl ELSE 0, vout |-> p - 1, seq |-> IF Anch(S) THEN 1 ELSE 0,
   v |-> o.v - fee, tp |-> "revokeable", k1 |-> "rev", d |-> S.hdelay, k2 |-> "dly"]
HtlcPositions(outs) == {p \in DOMAIN outs : outs[p].tp \in HtlcTps}
\* the counterparty's signature on a second-level transaction commits to everything without
\* anchors and to its own input and output only with anchors
HtlcSighashType(S) == IF Anch(S) THEN "single_acp" ELSE "all"

---------------------------------------------------------------------------
(***************************************************************************)
(* THE REFERENCE for the raw entry point.  The raw request carries the      *)
(* transaction, one witness script per output, the per-commitment point,    *)
(* the number, the fee rate and the two HTLC lists; the two balances are    *)
(* read from the transaction (the value of its to_local-shaped and          *)
(* to_remote-shaped output, 0 when absent).  "The semantic content that     *)
(* passed validation" is therefore C with those two values, and the         *)
(* transaction must be Canon of it.                                         *)
(***************************************************************************)
Infer(tx, tps) ==
  LET I == {i \in DOMAIN tx.outs : tx.outs[i].tp \in tps} IN
  IF I = {} THEN NAmt(0) ELSE Amt(tx.outs[MinOf(I)].vc, tx.outs[MinOf(I)].v)
Expected(tx, S, C, pool) ==
  CanonV(S, C, Infer(tx, RemoteTps), Infer(tx, {"revokeable"}), pool \cup RangeOf(tx.outs))

HeaderRules(tx, S, C) ==
     (IF tx.ver # 2 THEN {"version"} ELSE {})
  \cup (IF tx.lt # CanonLt(S, C.n) THEN {"locktime"} ELSE {})
  \cup (IF Len(tx.ins) # 1 THEN {"input.single"} ELSE {})
  \cup (IF Len(tx.ins) >= 1 /\ tx.ins[1].op # S.fo THEN {"input.funding"} ELSE {})
  \cup (IF Len(tx.ins) >= 1 /\ tx.ins[1].seq # CanonSeq(S, C.n) THEN {"sequence"} ELSE {})
  \* byte for byte: an unsigned transaction has neither scriptSig nor witness
  \cup (IF \E i \in DOMAIN tx.ins : tx.ins[i].ss # "empty" \/ tx.ins[i].wit # "empty" THEN {"input.clean"} ELSE {})

FieldRules(t, k) ==   \* outputs at the same position with the same template
     (IF <<t.vc, t.v>> # <<k.vc, k.v>> /\ t.tp \in HtlcTps THEN {"value.htlc"} ELSE {})
  \cup (IF <<t.vc, t.v>> # <<k.vc, k.v>> /\ t.tp = "anchor" THEN {"value.anchor"} ELSE {})
  \cup (IF t.tp = "revokeable" /\ t.k1 # k.k1 THEN {"to_local.revocation_pubkey"} ELSE {})
  \cup (IF t.tp = "revokeable" /\ t.d # k.d THEN {"to_local.to_self_delay"} ELSE {})
  \cup (IF t.tp = "revokeable" /\ t.k2 # k.k2 THEN {"to_local.delayed_pubkey"} ELSE {})
  \cup (IF t.tp \in RemoteTps /\ t.k1 # k.k1 THEN {"to_remote.pubkey"} ELSE {})
  \cup (IF t.tp = "anchor" /\ t.k1 # k.k1 THEN {"anchor.pubkey"} ELSE {})
  \cup (IF t.tp \in HtlcTps /\ t.k1 # k.k1 THEN {"htlc.revocation_pubkey"} ELSE {})
  \cup (IF t.tp \in HtlcTps /\ t.k2 # k.k2 THEN {"htlc.broadcaster_htlc_pubkey"} ELSE {})
  \cup (IF t.tp \in HtlcTps /\ t.k3 # k.k3 THEN {"htlc.countersignatory_htlc_pubkey"} ELSE {})
  \cup (IF t.tp \in HtlcTps /\ t.h # k.h THEN {"htlc.payment_hash"} ELSE {})
  \cup (IF t.tp \in ReceivedTps /\ t.d # k.d THEN {"htlc.cltv_expiry"} ELSE {})

OutputRules(T, K) ==
  IF BVSeq(T) = BVSeq(K) THEN {}
  ELSE IF Len(T) # Len(K) THEN {"outputs.count"}
  ELSE IF SameBag(BVSeq(T), BVSeq(K)) THEN {"outputs.order"}
  ELSE LET D == {i \in DOMAIN T : BV(T[i]) # BV(K[i])}
           named == UNION {IF T[i].tp \in UnknownTps THEN {"outputs.unrecognized"}
                           ELSE IF T[i].tp # K[i].tp THEN {"outputs.template"}
                           ELSE FieldRules(T[i], K[i]) : i \in D} IN
       IF named = {} THEN {"outputs.other"} ELSE named

Rules(tx, S, C, pool) == HeaderRules(tx, S, C) \cup OutputRules(tx.outs, Expected(tx, S, C, pool).outs)
MustRefuse(tx, S, C, pool) == Rules(tx, S, C, pool) # {}

\* every rule that some single-field mutation can break on its own ("outputs.other" is the catch-all)
RuleNames == {"version", "locktime", "input.single", "input.funding", "sequence", "input.clean",
              "outputs.count", "outputs.order", "outputs.unrecognized", "outputs.template",
              "value.htlc", "value.anchor", "to_local.revocation_pubkey", "to_local.to_self_delay",
              "to_local.delayed_pubkey", "to_remote.pubkey", "anchor.pubkey", "htlc.revocation_pubkey",
              "htlc.broadcaster_htlc_pubkey", "htlc.countersignatory_htlc_pubkey", "htlc.payment_hash",
              "htlc.cltv_expiry"}

\* the canonical transaction as such (used for the transaction the harness built as "canonical")
IsCanon(tx, S, C, pool) ==
  /\ HeaderRules(tx, S, C) = {}
  /\ BVSeq(tx.outs) = BVSeq(Canon(S, C, pool \cup RangeOf(tx.outs)).outs)
  /\ Sorted(tx.outs)

---------------------------------------------------------------------------
(***************************************************************************)
(* MUTATIONS.  m = [k, p, p2, f, x, n, rs, o]: kind, positions in the       *)
(* sorted outputs, field, new string / number, re-sort afterwards, an       *)
(* output to insert.  Lock time and sequence are given symbolically and     *)
(* resolved against the obscured number.                                    *)
(***************************************************************************)
NoMut == [k |-> "none", p |-> 0, p2 |-> 0, f |-> "none", x |-> "none", n |-> 0, rs |-> FALSE, o |-> NoOut]
Mut(k, p, p2, f, x, n) == [NoMut EXCEPT !.k = k, !.p = p, !.p2 = p2, !.f = f, !.x = x, !.n = n]

ResolveLt(S, C, m) ==
  CASE m.f = "hi" -> <<m.n, CanonLt(S, C.n)[2]>>
    [] m.f = "lo" -> <<32, (CanonLt(S, C.n)[2] + m.n + M24) % M24>>
    [] OTHER      -> <<32, Obscured(S, C.n + m.n)[2]>>       \* the lock time of another commitment number
ResolveSeq(S, C, m) ==
  CASE m.f = "hi" -> <<m.n, CanonSeq(S, C.n)[2]>>
    [] OTHER      -> <<128, (CanonSeq(S, C.n)[2] + m.n + M24) % M24>>

SetField(o, m) ==
  CASE m.f = "v"    -> [o EXCEPT !.vc = "n", !.v = m.n]
    [] m.f = "vtop" -> [o EXCEPT !.vc = "top", !.v = m.n]
    [] m.f = "tp"   -> Norm([o EXCEPT !.tp = m.x, !.d = IF m.x \in ReceivedTps THEN o.cl ELSE o.d])
    [] m.f = "k1"   -> [o EXCEPT !.k1 = m.x]
    [] m.f = "k2"   -> [o EXCEPT !.k2 = m.x]
    [] m.f = "k3"   -> [o EXCEPT !.k3 = m.x]
    [] m.f = "d"    -> [o EXCEPT !.d = m.n]
    [] m.f = "h"    -> [o EXCEPT !.h = m.n]
    [] OTHER        -> o

ForeignIn == [op |-> [t |-> 9, i |-> 0], seq |-> <<255, M24 - 3>>, ss |-> "empty", wit |-> "empty"]
Without(s, p) == [i \in 1..(Len(s) - 1) |-> IF i < p THEN s[i] ELSE s[i + 1]]
InsAfter(s, p, o) == [i \in 1..(Len(s) + 1) |-> IF i <= p THEN s[i] ELSE IF i = p + 1 THEN o ELSE s[i - 1]]

\* the outputs before a possible re-sort (script prefixes of new scripts are not known to the model)
MutateOuts(outs, m) ==
  CASE m.k = "out"   -> [outs EXCEPT ![m.p] = SetField(@, m)]
    [] m.k = "drop"  -> Without(outs, m.p)
    [] m.k = "dup"   -> InsAfter(outs, m.p, outs[m.p])
    [] m.k = "extra" -> outs \o << m.o >>
    [] m.k = "swap"  -> [outs EXCEPT ![m.p] = outs[m.p2], ![m.p2] = outs[m.p]]
    [] OTHER         -> outs
MutateHeader(tx, m, S, C) ==
  CASE m.k = "ver"     -> [tx EXCEPT !.ver = m.n]
    [] m.k = "lt"      -> [tx EXCEPT !.lt = ResolveLt(S, C, m)]
    [] m.k = "seq"     -> [tx EXCEPT !.ins[1].seq = ResolveSeq(S, C, m)]
    [] m.k = "op"      -> [tx EXCEPT !.ins[1].op = IF m.f = "t" THEN [@ EXCEPT !.t = m.n] ELSE [@ EXCEPT !.i = m.n]]
    [] m.k = "ss"      -> [tx EXCEPT !.ins[1].ss = "x"]
    [] m.k = "wit"     -> [tx EXCEPT !.ins[1].wit = "x"]
    [] m.k = "indup"   -> [tx EXCEPT !.ins = @ \o @]
    [] m.k = "inextra" -> [tx EXCEPT !.ins = IF m.n = 0 THEN @ \o << ForeignIn >> ELSE << ForeignIn >> \o @]
    [] m.k = "noin"    -> [tx EXCEPT !.ins = << >>]
    [] OTHER           -> tx
\* the model's own application of a mutation (scripts carry the prefixes given by `skf`)
Mutate(tx, m, S, C, skf(_)) ==
  LET t1 == MutateHeader(tx, m, S, C)
      o1 == [i \in DOMAIN MutateOuts(tx.outs, m) |-> [MutateOuts(tx.outs, m)[i] EXCEPT !.sk = skf(MutateOuts(tx.outs, m)[i])]] IN
  [t1 EXCEPT !.outs = IF m.rs THEN SortOuts(o1) ELSE o1]
\* did a logged transaction come out of `canon` by mutation m followed by mutation m2? (prefixes are
\* the harness's)
IsMutant(tx, canon, m, m2, S, C) ==
  LET t1 == MutateHeader(MutateHeader(canon, m, S, C), m2, S, C)
      o1 == MutateOuts(MutateOuts(canon.outs, m), m2) IN
  /\ tx.ver = t1.ver /\ tx.lt = t1.lt /\ tx.ins = t1.ins
  /\ IF m.rs \/ m2.rs THEN SameBag(BVSeq(tx.outs), BVSeq(o1)) /\ Sorted(tx.outs)
     ELSE BVSeq(tx.outs) = BVSeq(o1)

(***************************************************************************)
(* Witness scripts: one per output; ws element = [tp, k1, k2, k3, d, h],    *)
(* tp = "empty" for none.  w = [k, p, p2, f, x, n, base]: base "sub" takes  *)
(* the scripts of the submitted outputs (an adversary who keeps scripts and *)
(* outputs consistent), "canon" those of the canonical outputs.             *)
(***************************************************************************)
EmptyWs == [tp |-> "empty", k1 |-> "none", k2 |-> "none", k3 |-> "none", d |-> -1, h |-> 0]
WsOfOut(o) == IF o.tp \in P2wshTps THEN [tp |-> o.tp, k1 |-> o.k1, k2 |-> o.k2, k3 |-> o.k3, d |-> o.d, h |-> o.h]
              ELSE EmptyWs
WsScript(w) == <<w.tp, w.k1, w.k2, w.k3, w.d, w.h>>
CanonWs(outs) == [i \in DOMAIN outs |-> WsOfOut(outs[i])]
NoWsMut == [k |-> "none", p |-> 0, p2 |-> 0, f |-> "none", x |-> "none", n |-> 0, base |-> "sub"]
WsMut(k, p, p2, f, x, n, base) == [k |-> k, p |-> p, p2 |-> p2, f |-> f, x |-> x, n |-> n, base |-> base]
GarbageWs == [EmptyWs EXCEPT !.tp = "optrue"]
WsAsOut(w) == [NoOut EXCEPT !.tp = w.tp, !.k1 = w.k1, !.k2 = w.k2, !.k3 = w.k3, !.d = w.d, !.h = w.h]
MutateWs(ws, w) ==
  CASE w.k = "empty"    -> [ws EXCEPT ![w.p] = EmptyWs]
    [] w.k = "garbage"  -> [ws EXCEPT ![w.p] = GarbageWs]
    [] w.k = "other"    -> [ws EXCEPT ![w.p] = ws[w.p2]]
    [] w.k = "field"    -> [ws EXCEPT ![w.p] = WsOfOut(SetField(WsAsOut(@), w))]
    [] w.k = "droplast" -> SubSeq(ws, 1, Len(ws) - 1)
    [] w.k = "extra"    -> ws \o << GarbageWs >>
    [] OTHER            -> ws
WsFor(tx, canon, w) == MutateWs(CanonWs(IF w.base = "canon" THEN canon.outs ELSE tx.outs), w)

---------------------------------------------------------------------------
(***************************************************************************)
(* THE CODE, in its order of checks (conformance only).                     *)
(* Policy(S, C): the part of simple_validator.rs validate_commitment_tx     *)
(* that the contents of this matrix can meet (C05 is about it).             *)
(***************************************************************************)
SumHtlc(hs) == LET RECURSIVE F(_) F(i) == IF i = 0 THEN 0 ELSE hs[i].v + F(i - 1) IN F(Len(hs))
PolicyTag(S, C, ah, ac) ==
  LET nh == Len(C.off) + Len(C.rcv)
      offdust == IF Anch(S) THEN DUST_CHAN ELSE DUST_MIN + (C.fr * HtlcTimeoutWeight(FALSE)) \div 1000
      rcvdust == IF Anch(S) THEN DUST_CHAN ELSE DUST_MIN + (C.fr * HtlcSuccessWeight(FALSE)) \div 1000 IN
  IF ac.vc = "n" /\ ac.v > 0 /\ ac.v < DUST_CHAN THEN "policy"
  ELSE IF ah.vc = "n" /\ ah.v > 0 /\ ah.v < DUST_CHAN THEN "policy"
  ELSE IF \E i \in DOMAIN C.off : C.off[i].v < offdust THEN "policy"
  ELSE IF \E i \in DOMAIN C.rcv : C.rcv[i].v < rcvdust THEN "policy"
  ELSE IF ah.vc = "top" \/ ac.vc = "top" THEN "policy"                 \* sum overflow / above the channel value
  ELSE LET outs == ah.v + ac.v + SumHtlc(C.off) + SumHtlc(C.rcv) IN
       IF outs > S.value THEN "policy"
       ELSE IF S.value - outs > 2000000 THEN "policy"
       ELSE LET rate == ((S.value - outs) * 1000 + 999) \div CommitWeight(Anch(S), nh) IN
            IF rate < MINRATE \/ rate > MAXRATE THEN "policy"
            ELSE IF C.n = 0 /\ nh > 0 THEN "policy"
            ELSE IF C.n = 0 /\ S.outbound /\ ac.v > S.push THEN "policy"
            ELSE "ok"

\* tx.rs handle_output, folded over the outputs in order; st = [hasb, hasc, ah, ac, err]
DecodeOut(st, o, w, S) ==
  LET a == Amt(o.vc, o.v) IN
  IF st.err THEN st
  ELSE IF o.tp = "p2wpkh" THEN
         IF Anch(S) \/ st.hasc THEN [st EXCEPT !.err = TRUE] ELSE [st EXCEPT !.hasc = TRUE, !.ah = a]
  ELSE IF o.tp \in P2wshTps THEN
         IF w.tp = "empty" \/ WsScript(w) # ScriptOf(o) THEN [st EXCEPT !.err = TRUE]
         ELSE CASE o.tp = "revokeable" ->
                     IF st.hasb \/ o.d < 0 \/ o.d > MAX_DELAY THEN [st EXCEPT !.err = TRUE]
                     ELSE [st EXCEPT !.hasb = TRUE, !.ac = a]
                [] o.tp \in HtlcTps ->
                     \* the parsers expect the form of the channel's own anchor mode
                     IF (o.tp \in {"offered_ax", "received_ax"}) # Anch(S) THEN [st EXCEPT !.err = TRUE]
                     ELSE IF o.tp \in ReceivedTps /\ o.d < 0 THEN [st EXCEPT !.err = TRUE] ELSE st
                [] o.tp = "anchor" ->
                     IF <<o.vc, o.v>> # <<"n", ANCHOR_SAT>> \/ o.k1 \notin {"bfund", "cfund"}
                     THEN [st EXCEPT !.err = TRUE] ELSE st
                [] o.tp = "remote_anchors" ->
                     IF ~Anch(S) \/ st.hasc THEN [st EXCEPT !.err = TRUE] ELSE [st EXCEPT !.hasc = TRUE, !.ah = a]
                [] OTHER -> [st EXCEPT !.err = TRUE]
  ELSE [st EXCEPT !.err = TRUE]
RECURSIVE DecodeFrom(_, _, _, _, _)
DecodeFrom(st, outs, ws, S, i) ==
  IF i > Len(outs) THEN st ELSE DecodeFrom(DecodeOut(st, outs[i], ws[i], S), outs, ws, S, i + 1)
Decode(outs, ws, S) ==
  DecodeFrom([hasb |-> FALSE, hasc |-> FALSE, ah |-> NAmt(0), ac |-> NAmt(0), err |-> FALSE], outs, ws, S, 1)

\* sign_counterparty_commitment_tx: [tag, signed] - signed = the transaction the signature is made for
NoTx == [ver |-> 0, lt |-> <<0, 0>>, ins |-> << >>, outs |-> << >>]
TxBV(tx) == <<tx.ver, tx.lt, tx.ins, BVSeq(tx.outs)>>
\* K = [voutTruncated]: behaviour switch (spec/committx_switches.json).  LDK's OutPoint carries a
\* 16-bit output index; TRUE: setup_channel accepts any 32-bit index and the transactions are built
\* on the index modulo 2^16; FALSE: setup_channel refuses an index that does not fit.
WideVout(S) == S.fo.i > 65535
SetupTag(S, K) == IF WideVout(S) /\ ~K.voutTruncated THEN "refused" ELSE "ok"
CodeSetup(S, K) == IF K.voutTruncated THEN [S EXCEPT !.fo.i = @ % 65536] ELSE S

\* retry: commitment C.n was already signed with content C (the request is a retry of it)
\* Before anything is validated the code computes the holder's claimable balance, which ABORTS
\* (panic) for a channel the holder opened when the outputs exceed the channel value; with u64
\* extremes the sums wrap: tag "top" stands for "panic or policy refusal".
StepRaw(tx, ws, S, C, pool, retry, K) ==
  IF Len(tx.outs) # Len(ws) THEN [tag |-> "len", signed |-> NoTx]
  ELSE IF tx.ver # 2 THEN [tag |-> "version", signed |-> NoTx]
  ELSE LET dec == Decode(tx.outs, ws, S) IN
       IF dec.err THEN [tag |-> "decode", signed |-> NoTx]
       ELSE IF dec.ah.vc = "top" \/ dec.ac.vc = "top" THEN [tag |-> "top", signed |-> NoTx]
       ELSE IF S.outbound /\ dec.ah.v + dec.ac.v + SumHtlc(C.off) + SumHtlc(C.rcv) > S.value
            THEN [tag |-> "panic", signed |-> NoTx]
       ELSE IF PolicyTag(S, C, dec.ah, dec.ac) # "ok" THEN [tag |-> "policy", signed |-> NoTx]
       ELSE IF retry /\ (dec.ah # NAmt(C.to_h) \/ dec.ac # NAmt(C.to_c)) THEN [tag |-> "state", signed |-> NoTx]
       ELSE LET re == CanonV(CodeSetup(S, K), C, dec.ah, dec.ac, pool \cup RangeOf(tx.outs)) IN
            IF TxBV(re) # TxBV(tx) THEN [tag |-> "mismatch", signed |-> NoTx]
            ELSE [tag |-> "ok", signed |-> re]
\* sign_counterparty_commitment_tx_phase2: validates the content, rebuilds, signs what it rebuilt
StepSem(S, C, pool, K) ==
  IF PolicyTag(S, C, NAmt(C.to_h), NAmt(C.to_c)) # "ok" THEN [tag |-> "policy", signed |-> NoTx]
  ELSE [tag |-> "ok", signed |-> Canon(CodeSetup(S, K), C, pool)]

---------------------------------------------------------------------------
(***************************************************************************)
(* RESTARTS.  The signer may be stopped and restored from its store between *)
(* any two requests (node.rs Node::restore_nodes / new_from_persistence:    *)
(* every channel is rebuilt from its persisted entry - channel id, funding  *)
(* value, setup, enforcement state - and gets a NEWLY DERIVED key object).  *)
(* What the two entry points read of a channel is                           *)
(*    sg = [S, rec]   the negotiated setup - INCLUDING the funding value:   *)
(*                    the BIP-143 signature hash of a commitment commits to *)
(*                    the amount of the funding output it spends            *)
(*                    (SighashAmount), so a signature made with another     *)
(*                    amount is a signature for NO transaction spending the *)
(*                    real funding output - and the content recorded for    *)
(*                    the current number ("none" before its first request). *)
(* All of it is persisted before a request is answered, so a restart is the *)
(* step  sg' = Restart(sg) = sg : it is NOT observable through the entry    *)
(* points.  StepSem / StepRaw / StepRetry therefore apply unchanged to the  *)
(* restored signer and - this is the property - so do the monitors below:   *)
(* a signature returned after a restart verifies under the channel's        *)
(* funding key against the canonical transaction with the real funding      *)
(* amount, the raw entry point accepts exactly the canonical transaction    *)
(* and returns the semantic entry point's signature, HTLC signatures are    *)
(* for the second-level transactions.                                       *)
(*                                                                         *)
(* The HISTORY of a case (state dimension of the matrix) says where the     *)
(* requests are made:                                                       *)
(*   "fresh"          number n not yet signed (commitments 0..n-1 signed    *)
(*                    and revoked before)                                   *)
(*   "retry"          raw requests after the accepted semantic request for  *)
(*                    n (they are retries)                                  *)
(*   "restart"        as "fresh", but the signer is RESTARTED after the     *)
(*                    channel was set up and brought to n: the semantic     *)
(*                    request, its repetition, the retries and all raw      *)
(*                    requests are made on the restored signer              *)
(*   "restart_retry"  as "retry", but the signer is RESTARTED after the     *)
(*                    accepted first semantic request for n: its            *)
(*                    repetition, the retries and all raw requests (retries *)
(*                    of the number signed BEFORE the restart) are made on  *)
(*                    the restored signer                                   *)
(***************************************************************************)
Histories == {"fresh", "retry", "restart", "restart_retry"}
RetryHist(h)   == h \in {"retry", "restart_retry"}
RestartHist(h) == h \in {"restart", "restart_retry"}
NoRec == "none"
Signer(S, rec) == [S |-> S, rec |-> rec]
Restart(sg) == sg
\* the signer a history leaves for the requests that are judged
SignerAt(S, rec, h) == IF RestartHist(h) THEN Restart(Signer(S, rec)) ELSE Signer(S, rec)
\* the input amount the commitment signature commits to
SighashAmount(S) == S.value

---------------------------------------------------------------------------
(***************************************************************************)
(* THE PROPERTY as monitors over one observation.                           *)
(*   raw  : resp = [ok, tag, sub, canon, same]  - sub / canon: the returned *)
(*          signature verifies, under the holder's funding key, against     *)
(*          the sighash of the submitted / of the canonical transaction     *)
(*          spending the funding output of SighashAmount(S) satoshi;        *)
(*          same: it is byte for byte the signature the semantic entry      *)
(*          point returned for this content                                 *)
(*   sem  : resp = [ok, tag, canon, hs <<[j, typ]>>] - hs[k]: the k-th HTLC *)
(*          signature verifies, under the holder's HTLC key of this         *)
(*          commitment, against the second-level transaction of the j-th    *)
(*          HTLC output (0: none) with sighash type typ                     *)
(***************************************************************************)
Bad_RawAccepts(tx, S, C, pool, resp) == resp.ok /\ MustRefuse(tx, S, C, pool)
\* an accepted transaction is canonical, so the signature has to be for exactly it
Bad_RawSignature(tx, S, C, pool, resp) == resp.ok /\ ~MustRefuse(tx, S, C, pool) /\ ~resp.sub
\* on what the semantic entry point accepts, the raw one accepts the canonical transaction with
\* the same signature
Bad_RawEquiv(semok, isCanonReq, resp) == semok /\ isCanonReq /\ ~(resp.ok /\ resp.same)
Bad_SemSignature(resp) == resp.ok /\ ~resp.canon
\* htx: the second-level transactions in output order, hs: the verdicts on the returned signatures
Bad_SemHtlc(S, htx, resp) ==
  resp.ok /\ \/ Len(resp.hs) # Len(htx)
             \* the k-th signature is for the k-th HTLC output (each second-level transaction spends
             \* its own output index, so even identical HTLCs have distinct transactions)
             \/ \E k \in DOMAIN resp.hs : resp.hs[k].j # k \/ resp.hs[k].typ # HtlcSighashType(S)

---------------------------------------------------------------------------
(***************************************************************************)
(* RETRIES.  After commitment C.n was signed with content C (the content    *)
(* the signer RECORDED for that number), a second request for the same      *)
(* number carries content C2 through entry point ep ("sem": the semantic    *)
(* one; "raw": the raw one, given the canonical transaction of C2).         *)
(* The code at HEAD (simple_validator.rs validate_counterparty_commitment_tx,*)
(* policy-commitment-retry-same): the policy checks on C2, then the point   *)
(* and the WHOLE content (balances, both HTLC sets, fee rate) must equal    *)
(* what was recorded; an identical retry is accepted and signs again what   *)
(* was signed the first time.                                               *)
(***************************************************************************)
ContentKey(C) == <<C.fr, C.to_h, C.to_c, C.off, C.rcv>>
SameHtlcs(a, b) == SameBag(a, b)
SameContent(C, C2) == /\ C.n = C2.n /\ C.pt = C2.pt /\ C.fr = C2.fr /\ C.to_h = C2.to_h /\ C.to_c = C2.to_c
                      /\ SameHtlcs(C.off, C2.off) /\ SameHtlcs(C.rcv, C2.rcv)
StepRetry(S, C, C2) ==
  IF S.outbound /\ C2.to_h + C2.to_c + SumHtlc(C2.off) + SumHtlc(C2.rcv) > S.value THEN "panic"
  ELSE IF PolicyTag(S, C2, NAmt(C2.to_h), NAmt(C2.to_c)) # "ok" THEN "policy"
  ELSE IF ~SameContent(C, C2) THEN "state"
  ELSE "ok"

(***************************************************************************)
(* The property on a retry: whatever a second request for an already signed *)
(* number returns must be for the transactions of the content RECORDED by   *)
(* the first accepted request - not for transactions determined by what the *)
(* caller supplied the second time (a fee rate or an offered HTLC's expiry  *)
(* is invisible in the commitment transaction but determines the            *)
(* second-level transactions).                                              *)
(*   resp = [ok, tag, canon, hs, ...]: canon / hs[k]: the returned          *)
(*   commitment / k-th HTLC signature verifies against the canonical        *)
(*   commitment / k-th second-level transaction OF THE RECORDED CONTENT     *)
(*   (htx); the raw entry point returns no HTLC signatures.                 *)
(***************************************************************************)
Bad_RetrySignature(resp) == resp.ok /\ ~resp.canon
Bad_RetryHtlc(S, htx, ep, resp) ==
  ep = "sem" /\ resp.ok /\ \/ Len(resp.hs) # Len(htx)
                           \/ \E k \in DOMAIN resp.hs : resp.hs[k].j # k \/ resp.hs[k].typ # HtlcSighashType(S)
\* rec: the content the signer holds for the number after a request, read back from its state
RecordedIs(rec, C) == /\ rec.fr = C.fr /\ rec.to_h = C.to_h /\ rec.to_c = C.to_c
                      /\ SameHtlcs(rec.off, C.off) /\ SameHtlcs(rec.rcv, C.rcv)
=============================================================================
