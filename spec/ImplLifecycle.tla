---------------------------- MODULE ImplLifecycle ----------------------------
(***************************************************************************)
(* Leg B for Lifecycle.tla: the state graph EXTRACTED FROM THE REAL          *)
(* IMPLEMENTATION (`lifecycle explore`: every request of the TLC-generated   *)
(* alphabet that the environment can issue, applied to every reachable       *)
(* concrete state of a real Node + ChainTracker + ChainMonitors + store).    *)
(*   1. every implementation edge is compared with Lifecycle!Step            *)
(*      (conformance; divergences go to LC_REPORT, they are not alarms);     *)
(*   2. TLC explores the product of that graph with the ghost monitor and    *)
(*      checks C15a / C15b on it: a violation comes with a shortest request  *)
(*      sequence of the REAL signer.                                         *)
(* Nodes[i+1] = [id, pre, p, r0, e]: pre = projection of the concrete state, *)
(* p = request path, r0 = 1 iff a signer restored from the store equals the  *)
(* running one, e = edges <<to, request index, 1 ok | 0 refused | 2 panic>>; *)
(* to = -1: no post-state (abort), -2: not explored (state cap).             *)
(* Very deep burial (plans with `around`): the graph holds Bury(k) edges for *)
(* k around MIN_DEPTH and MAX_CLOSING_DEPTH (K.DX) - the harness mined k     *)
(* real blocks; Step evaluates them in closed form (BuryK).  The monitors    *)
(* are the same: C15a fails on the first heartbeat that drops a channel      *)
(* whose history the reference does not accept, at whatever depth.  The      *)
(* kept_beyond_DX_* counters say which insufficient situations were kept at  *)
(* K.DX confirmations and more (vacuity guards of the check).  The channel   *)
(* field oosh (our_output_swept_height) is conformance-checked like the rest.*)
(***************************************************************************)
EXTENDS Lifecycle, Json, IOUtils

Nodes == ndJsonDeserialize(IOEnv.LC_NODES)
Cases == JsonDeserialize(IOEnv.LC_CASES)
Plan  == Cases.plan
K == WithDeep(WithSwitches(WithCrash(MkK(Plan.D, Plan.S, Plan.W, Plan.maxd, SeqToSet(Plan.cd), SeqToSet(Plan.kinds), Plan.pairs,
         SeqToSet(Plan.bury), Plan.rev, Plan.mir, Plan.mode, Plan.empty), Plan.crash), Plan.markFirst, Plan.dropOrphans),
         Plan.DX, SeqToSet(Plan.around))
Reqs == Cases.requests
RC(c) == CASE c = 1 -> "ok" [] c = 2 -> "panic" [] OTHER -> "err"

ChanFields == {"ph", "bh", "fg", "fh", "dsh", "mch", "uch", "ct", "our", "ht", "sl", "csh", "oosh"}
Abs(p) == [h |-> p.h, hw |-> p.hw, ev |-> p.ev, mark |-> p.mark, su |-> SeqToSet(p.su),
           chans |-> [d \in 1..K.maxd |-> [f \in ChanFields |-> p.chans[d][f]]]]
ObsOf(p) == [h |-> p.h, ph |-> [d \in 1..K.maxd |-> p.chans[d].ph]]
\* the store and the tracker agree with the channel map
Consistent(p) == /\ \A d \in 1..K.maxd : p.pst[d] = p.chans[d].ph
                 /\ SeqToSet(p.lis) = {d \in 1..K.maxd : p.chans[d].ph = "ready"}

VARIABLES node, g, last
Init == node = 0 /\ g = InitGhost /\ last = [op |-> "init"]
Next == \E j \in DOMAIN Nodes[node + 1].e :
          LET nd == Nodes[node + 1] e == nd.e[j] IN
          /\ e[1] >= 0
          /\ node' = e[1]
          /\ g' = Ghost(K, g, Reqs[e[2]], RC(e[3]), ObsOf(nd.pre), ObsOf(Nodes[e[1] + 1].pre))
          /\ last' = [from |-> node, ri |-> e[2], req |-> Reqs[e[2]], rc |-> RC(e[3])]
Spec == Init /\ [][Next]_<<node, g, last>>
View == <<node, g>>
C15a == Inv_C15a(g)
C15b == Inv_C15b(g)
C15c == Inv_C15c(g)
\* C15r ("... survives any number of heartbeats and restarts", "... also after a restart"): in every
\* reachable state a signer restored from a copy of the store has the same channels (phase, forget flag,
\* monitor heights, stub height), the same id high-water mark, store entries and tracker listeners as the
\* running one.  rs is the harness's observation of such a restored signer; a restore that returned an error
\* or panicked (rs.failed) leaves no signer at all and counts as unequal.
RestartEq(nd) == /\ ~nd.rs.failed
                 /\ nd.rs.mark = nd.pre.mark
                 /\ \A d \in 1..K.maxd : \A f \in ChanFields : nd.rs.chans[d][f] = nd.pre.chans[d][f]
                 /\ nd.rs.pst = nd.pre.pst /\ nd.rs.lis = nd.pre.lis
                 \* the persisted tracker holds exactly the running tracker's listeners (a listener left in
                 \* the store after its channel was pruned is a change that never became durable); only an
                 \* interrupted setup_channel (crash plans) may legitimately leave one behind
                 /\ (K.crash \/ nd.pre.pl = nd.pre.lis)
                 /\ nd.rs.feq
\* (a state without a signer is only reached through a restore that failed)
C15r == ~Nodes[node + 1].pre.dead /\ RestartEq(Nodes[node + 1])

---------------------------------------------------------------------------
\* (no set of ALL edges is ever built)
BadAt(i, Bad(_, _)) == {<<i, j>> : j \in {k \in DOMAIN Nodes[i].e : Bad(Nodes[i], Nodes[i].e[k])}}
EdgesWhere(Bad(_, _)) == UNION {BadAt(i, Bad) : i \in DOMAIN Nodes}

Conforms(nd, e) ==
  LET s == Abs(nd.pre)
      o == Step(K, s, Reqs[e[2]]) IN
  /\ Enabled(K, s, Reqs[e[2]])
  /\ o.rc = RC(e[3])
  /\ e[1] >= 0 /\ ~Nodes[e[1] + 1].pre.dead => /\ o.s = Abs(Nodes[e[1] + 1].pre)
                                                /\ Consistent(Nodes[e[1] + 1].pre)
  /\ e[1] >= 0 /\ Nodes[e[1] + 1].pre.dead => o.rc = "err"      \* no signer afterwards
Divergent == EdgesWhere(LAMBDA nd, e : e[1] # -2 /\ ~nd.pre.dead /\ ~Conforms(nd, e))
Aborts    == EdgesWhere(LAMBDA nd, e : e[3] = 2)
RootOk    == Abs(Nodes[1].pre) = InitState(K) /\ Consistent(Nodes[1].pre)
NEdges    == FoldLeft(LAMBDA acc, nd : acc + Len(nd.e), 0, Nodes)

Describe(p) == LET nd == Nodes[p[1]] e == nd.e[p[2]]
                   o == Step(K, Abs(nd.pre), Reqs[e[2]]) IN
  [node |-> nd.id, ri |-> e[2], path |-> nd.p, req |-> Reqs[e[2]], rc |-> RC(e[3]), expected_rc |-> o.rc,
   pre |-> nd.pre, post |-> IF e[1] >= 0 THEN Nodes[e[1] + 1].pre ELSE nd.pre,
   expected |-> [h |-> o.s.h, hw |-> o.s.hw, mark |-> o.s.mark, chans |-> o.s.chans]]

DivNodes == {p[1] : p \in Divergent}
Shown    == {i \in DivNodes : Cardinality({j \in DivNodes : j < i}) < 8}

\* what the graph exercised (vacuity guards are evaluated by the check)
PrunedReady == EdgesWhere(LAMBDA nd, e : e[1] >= 0 /\ \E d \in 1..K.maxd :
                  nd.pre.chans[d].ph = "ready" /\ Nodes[e[1] + 1].pre.chans[d].ph = "none")
PrunedStub  == EdgesWhere(LAMBDA nd, e : e[1] >= 0 /\ Reqs[e[2]].op = "Heartbeat" /\ \E d \in 1..K.maxd :
                  nd.pre.chans[d].ph = "stub" /\ Nodes[e[1] + 1].pre.chans[d].ph = "none")
\* heartbeats that kept a forgotten ready channel although an event was confirmed: the boundary cases
KeptForgotten == EdgesWhere(LAMBDA nd, e : e[1] >= 0 /\ Reqs[e[2]].op = "Heartbeat" /\ \E d \in 1..K.maxd :
                  LET c == nd.pre.chans[d] IN
                  c.ph = "ready" /\ c.fg /\ (c.dsh # -1 \/ c.mch # -1 \/ c.csh # -1)
                  /\ Nodes[e[1] + 1].pre.chans[d].ph = "ready")
KeptAtDepth(x) == EdgesWhere(LAMBDA nd, e : e[1] >= 0 /\ Reqs[e[2]].op = "Heartbeat" /\ \E d \in 1..K.maxd :
                  LET c == nd.pre.chans[d]
                      ee == Max2(Max2(c.dsh, c.mch), c.csh) IN
                  c.ph = "ready" /\ c.fg /\ ee # -1 /\ nd.pre.h + 1 - ee = x
                  /\ Nodes[e[1] + 1].pre.chans[d].ph = "ready")
\* VERY DEEP BURIAL: heartbeats in a state where a ready channel's latest on-chain event has x or more
\* confirmations and the monitor holds no event that suffices for discarding the channel (no double-spend,
\* no mutual close, the close - if any - not fully swept).  Which of them kept the channel is counted per
\* situation; the check demands that each situation was exercised at MAX_CLOSING_DEPTH and beyond.
\*   "funding"  funding confirmed, no close          "closing"  unilateral close, main output unswept
\*   "ourswept" unilateral close, the node's main output swept (oosh set), an HTLC-side output unswept
LastEvH(p) == IF p.ev = <<>> THEN -1 ELSE p.ev[Len(p.ev)].h
Insufficient(c, sit) ==
  /\ c.ph = "ready" /\ c.dsh = -1 /\ c.mch = -1 /\ c.csh = -1 /\ c.fh # -1
  /\ CASE sit = "funding"  -> c.uch = -1
       [] sit = "closing"  -> c.uch # -1 /\ c.oosh = -1
       [] sit = "ourswept" -> c.uch # -1 /\ c.oosh # -1
KeptDeep(x, sit, fg) == EdgesWhere(LAMBDA nd, e : e[1] >= 0 /\ Reqs[e[2]].op = "Heartbeat" /\ \E d \in 1..K.maxd :
                  LET c == nd.pre.chans[d] IN
                  Insufficient(c, sit) /\ c.fg = fg /\ LastEvH(nd.pre) # -1 /\ nd.pre.h + 1 - LastEvH(nd.pre) >= x
                  /\ Nodes[e[1] + 1].pre.chans[d].ph = "ready")
RefusedNew  == EdgesWhere(LAMBDA nd, e : Reqs[e[2]].op = "New" /\ e[3] = 0)
Tainted     == {i \in DOMAIN Nodes : Nodes[i].r0 = 0 /\ ~Nodes[i].pre.dead}
RestartBad  == {i \in DOMAIN Nodes : ~Nodes[i].pre.dead /\ ~RestartEq(Nodes[i])}
RestoreFails == {i \in DOMAIN Nodes : ~Nodes[i].pre.dead /\ Nodes[i].rs.failed}
\* one heartbeat that prunes a ready channel and a stub together
MixedPrune  == EdgesWhere(LAMBDA nd, e : e[1] >= 0 /\ Reqs[e[2]].op = "Heartbeat" /\
                  (\E d \in 1..K.maxd : nd.pre.chans[d].ph = "ready" /\ Nodes[e[1] + 1].pre.chans[d].ph = "none") /\
                  (\E d \in 1..K.maxd : nd.pre.chans[d].ph = "stub" /\ Nodes[e[1] + 1].pre.chans[d].ph = "none"))
MixedPruneStubAbove == EdgesWhere(LAMBDA nd, e : e[1] >= 0 /\ Reqs[e[2]].op = "Heartbeat" /\
                  \E d, x \in 1..K.maxd : d < x /\ nd.pre.chans[d].ph = "ready" /\ Nodes[e[1] + 1].pre.chans[d].ph = "none"
                                          /\ nd.pre.chans[x].ph = "stub" /\ Nodes[e[1] + 1].pre.chans[x].ph = "none")

Report == [ nodes |-> Len(Nodes), edges |-> NEdges, root_ok |-> RootOk,
            n_divergences |-> Cardinality(Divergent),
            divergences |-> SetToSeq({Describe(p) : p \in {q \in Divergent : q[1] \in Shown}}),
            aborts |-> Cardinality(Aborts),
            pruned_ready_edges |-> Cardinality(PrunedReady),
            pruned_stub_edges |-> Cardinality(PrunedStub),
            kept_forgotten_edges |-> Cardinality(KeptForgotten),
            kept_at_depth_Dm1 |-> Cardinality(KeptAtDepth(K.D - 1)),
            refused_new |-> Cardinality(RefusedNew),
            restart_unequal_states |-> Cardinality(Tainted),
            restart_bad_states |-> Cardinality(RestartBad),
            restore_fails_states |-> Cardinality(RestoreFails),
            mixed_prune_edges |-> Cardinality(MixedPrune),
            mixed_prune_stub_above_edges |-> Cardinality(MixedPruneStubAbove),
            kept_beyond_DX_funding_only  |-> Cardinality(KeptDeep(K.DX, "funding", TRUE)),
            kept_beyond_DX_close_unswept |-> Cardinality(KeptDeep(K.DX, "closing", TRUE)),
            kept_beyond_DX_main_output_swept |-> Cardinality(KeptDeep(K.DX, "ourswept", TRUE)),
            kept_beyond_DX_not_asked |-> Cardinality(KeptDeep(K.DX, "funding", FALSE) \cup KeptDeep(K.DX, "closing", FALSE)
                                                     \cup KeptDeep(K.DX, "ourswept", FALSE)) ]
ASSUME JsonSerialize(IOEnv.LC_REPORT, Report)
=============================================================================
