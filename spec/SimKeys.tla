------------------------------ MODULE SimKeys ------------------------------
(* Leg C (spec -> impl): random behaviours of the Keys model, printed as       *)
(* request sequences that the harness replays through the real implementation. *)
(* Run with  tlc -simulate num=K -depth D+2.  Requests that change the state    *)
(* are weighted up; every reply that carries a key is worth observing.          *)
EXTENDS Keys, Json, IOUtils

CONSTANTS NIds, NMax, Fam, Depth
VARIABLES s, hist, w

K == [style |-> "native", nids |-> NIds, nmax |-> NMax, oid |-> OidOf(Fam)]
Reqs == Requests(K, {"id0", "perm"}, {"A", "B"})

Weight(st, r) == LET o == Step(st, r, K) IN
                 IF Visible(o.s) # Visible(st) THEN 40
                 ELSE IF o.resp.ok /\ r.op \in (ObsOps \cup {"Restart"}) THEN 6 ELSE 1

Init == s = Init0(K) /\ hist = <<>> /\ w = 0
Next == /\ Len(hist) < Depth
        /\ \E r \in Reqs : \E k \in 1..Weight(s, r) :
              /\ s' = Step(s, r, K).s
              /\ hist' = Append(hist, r)
              /\ w' = k
Spec == Init /\ [][Next]_<<s, hist, w>>

Emit == Len(hist) = Depth => PrintT(<<"SIM", ToJson(hist)>>)
=============================================================================
