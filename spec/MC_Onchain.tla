----------------------------- MODULE MC_Onchain -----------------------------
(***************************************************************************)
(* Leg A of C08: TLC explores the specification itself.                     *)
(*   - every case of the stateless matrix (OnchainGen!Stateless) is one     *)
(*     transition from the initial state: the implementation-shaped Step    *)
(*     is applied to the case's expected concretisation (Facts) and the      *)
(*     reference predicate judges the verdict;                               *)
(*   - the fee-velocity sessions are explored as a state graph: every step  *)
(*     of the session alphabet from every reachable (velocity, ghost) state  *)
(*     up to MaxSteps steps.                                                 *)
(* Inv_C08: no verdict of Step (and of StepApprove) violates a rule of the   *)
(* reference.  With WrapArith = FALSE (exact arithmetic, saturating          *)
(* conversions - the intended algorithm) the invariant must hold: this is    *)
(* the design-level check that the documented order of checks implies the    *)
(* property.  With WrapArith = TRUE (u64 wrapping multiplication, `as u32`   *)
(* cast) or FlatWitness = TRUE (every input charged the witness of a P2WPKH  *)
(* spend, also a taproot one) - whatever spec/onchain_switches.json says the *)
(* code does at HEAD - a counterexample is a HYPOTHESIS about the code; leg  *)
(* B decides.  The intended algorithm is WrapArith = FlatWitness = FALSE.    *)
(***************************************************************************)
EXTENDS OnchainGen
CONSTANTS Tier, WrapArith, FlatWitness, MaxSteps
VARIABLES vel, acc, n, mode, last, part

vars == <<vel, acc, n, mode, last, part>>
NoLast == [case |-> <<>>, grp |-> "", fee |-> "", fam |-> "", jump |-> FALSE, v |-> VOk, vio |-> {}, rules |-> {}]

\* the matrix is split into the parts of OnchainGen!GroupNames, one initial state each, so that
\* TLC's workers share it; the session graph (G6) is explored from its own initial state
Init == /\ vel = Big0 /\ acc = Big0 /\ n = 0 /\ mode = "start" /\ last = NoLast
        /\ part \in RangeOf(GroupNames)

Apply(s) ==
  LET c  == Facts(s)
      v0 == IF s.jump THEN Big0 ELSE vel
      a0 == IF s.jump THEN Big0 ELSE acc
      sw == Sw(WrapArith, FlatWitness)
      r  == Step(c, v0, sw)
      a2 == StepApprove(c, v0, sw, s.approve) IN
  /\ vel' = r.vel
  /\ acc' = IF Judge(c, a0, r.v) # {} THEN a0 ELSE AccAfter(c, a0, r.v)   \* a violation is reported once
  /\ n' = n + 1
  /\ last' = [case |-> <<s>>, grp |-> s.grp, fee |-> s.fee, fam |-> s.fam, jump |-> s.jump, v |-> r.v,
              vio |-> Judge(c, a0, r.v) \cup JudgeApprove(c, a0, a2), rules |-> Rules(c, a0)]

One  == /\ mode = "start" /\ part # "G6"
        /\ \E s \in GroupSteps(Tier, part) : Apply(s) /\ mode' = "done"
        /\ UNCHANGED part
Sess == /\ part = "G6" /\ n < MaxSteps
        /\ \E s \in SessAlphabet : Apply(s) /\ mode' = "session"
        /\ UNCHANGED part
Next == One \/ Sess
Spec == Init /\ [][Next]_vars

Inv_C08 == last.vio = {}
\* the order of checks never lets a must-refuse case through unnoticed AND never reports
\* fewer unknown destinations than there are
TypeOK == /\ mode \in {"start", "done", "session"} /\ n \in 0..MaxSteps /\ last.v.t \in {"ok", "err", "unknown"}
=============================================================================
