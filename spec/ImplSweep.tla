----------------------------- MODULE ImplSweep -----------------------------
(***************************************************************************)
(* Legs B and C of C09: what the harness (`sweep run`) RECORDED FROM THE    *)
(* REAL IMPLEMENTATION is loaded here - for every signing request the       *)
(* concrete values it contained, the concrete state it met (height of the   *)
(* node's chain tracker, allowlist as the node reports it, contest delays   *)
(* of the real setup) and the real verdict - and                            *)
(*   1. the property monitor Inv_C09 (reference predicate + signature       *)
(*      target) is evaluated on every record        -> VIOLATIONS           *)
(*   2. the real verdict is compared with the code-shaped Sweep!Step and    *)
(*      the real allowlist / height with Sweep!EnvStep along every          *)
(*      behaviour                                    -> divergences (no     *)
(*      alarm), impl_stricter counts                                        *)
(*   3. per-rule coverage: how often each reference rule was the SOLE       *)
(*      reason of a refusal                          -> vacuity guard       *)
(*   4. the numbers the harness used are compared with the numbers the      *)
(*      model chose (concretisation check).                                 *)
(* IOEnv: SWEEP_LOG (ndjson), SWEEP_CASES (json of SweepCases / SimSweep),  *)
(* SWEEP_REPORT, SWEEP_SIGNED_INPUT_SEQ (behaviour switch: *)
(* what Step says the code does at HEAD).                                   *)
(***************************************************************************)
EXTENDS Sweep, Json, IOUtils, SequencesExt, FiniteSetsExt

Log   == ndJsonDeserialize(IOEnv.SWEEP_LOG)
Doc   == JsonDeserialize(IOEnv.SWEEP_CASES)
K     == [signedInputSeq |-> IOEnv.SWEEP_SIGNED_INPUT_SEQ = "true"]
Names == Log[1].names

\* the query of a record, in the shape Sweep's operators judge
QOf(rec) ==
  IF rec.q.fam = "sweep"
  THEN [cnok |-> rec.q.cn <= rec.q.nh + 1] @@ [rec.q EXCEPT !.allow = ToSet(@)]
  ELSE [pcpok |-> ~rec.q.byn \/ rec.q.n <= rec.q.nh + 1] @@ rec.q

SignIdx == {i \in DOMAIN Log : Log[i].k = "sign"}
\* every record is judged ONCE here (reference rules, code-shaped verdict)
Judged == {[i |-> i, rules |-> Rules(QOf(Log[i])), tag |-> Step(QOf(Log[i]), K),
            ok |-> Log[i].resp.ok, bad |-> ~Inv_C09(QOf(Log[i]), Log[i].resp)] : i \in SignIdx}

---------------------------------------------------------------------------
\* 1: TLC walks the log; the monitor is an invariant
VARIABLES l
Init == l = 0
Next == l < Len(Log) /\ l' = l + 1
Spec == Init /\ [][Next]_l
C09 == (l >= 1 /\ Log[l].k = "sign") => Inv_C09(QOf(Log[l]), Log[l].resp)

\* 2(env): every record carries the real state AFTER its operation (chain height, allowlist as the
\* node reports it); a behaviour starts from a fresh node; requests must not change the state
AbsTok(s) == IF s = Names.S THEN "S" ELSE IF s = Names.X THEN "X" ELSE s
RealEnv(rec) == [h |-> rec.env.h, allow |-> {AbsTok(rec.env.allow[k]) : k \in DOMAIN rec.env.allow}]
PrevEnv(i) == IF Log[i - 1].b # Log[i].b THEN InitEnv ELSE RealEnv(Log[i - 1])
EnvConforms(i) ==
  LET rec == Log[i] IN
  \/ /\ RealEnv(rec) = (IF rec.k = "env" THEN EnvStep(PrevEnv(i), rec.op) ELSE PrevEnv(i))
     /\ rec.k = "env" => rec.ok
     \* every channel's monitor follows the tracker
     /\ \A ct \in DOMAIN rec.env.mh : rec.env.mh[ct] = rec.env.h
     /\ (rec.k = "sign" /\ rec.q.fam = "sweep" /\ rec.resp.tag # "panic") => rec.q.height = rec.env.h
EnvDivergent == {i \in DOMAIN Log : i > 1 /\ ~EnvConforms(i)}

---------------------------------------------------------------------------
\* the static report
ReqOf(rec) == Doc.behaviours[rec.b].ops[rec.i].r
ConcOK(rec) ==
  LET r == ReqOf(rec) q == rec.q IN
  /\ r.fam = q.fam /\ r.api = q.api /\ r.ct = q.ct /\ r.rs = q.rs /\ r.ver = q.ver /\ r.lt = q.lt
  /\ IF q.fam = "sweep"
     THEN r.input = q.input /\ r.seqs = q.seqs /\ r.path = q.path /\ r.exp = q.exp /\ Len(r.outs) = Len(q.outs)
          /\ (r.cn = "ok") = (q.cn = 0)
     ELSE r.nin = q.nin /\ r.nout = q.nout /\ r.amount = q.amount /\ (q.nin > 0 => r.seq0 = q.seq0)
          /\ (q.nout > 0 => r.value0 = q.value0)
          /\ (q.oform = "revokeable" => q.odelay = r.out.delay)
ConcBad == {i \in SignIdx : ~ConcOK(Log[i])}

\* edge class of a query (part of the finding key)
ClassOf(q) == IF q.fam = "sweep"
              THEN "in" \o ToString(q.input) \o "/" \o ToString(Len(q.seqs))
              ELSE "in" \o ToString(q.nin) \o "/out" \o ToString(q.nout)
Describe(j) == LET rec == Log[j.i] q == QOf(rec) IN
  [line |-> j.i, b |-> rec.b, i |-> rec.i, api |-> q.api, ct |-> q.ct, class |-> ClassOf(q),
   kind |-> IF GrantedBad(q, rec.resp) THEN "granted" ELSE "signature",
   rules |-> SetToSeq(j.rules), expected |-> j.tag, q |-> rec.q, resp |-> rec.resp, req |-> ReqOf(rec)]
First(S, n) == LET q == SetToSeq(S) IN [k \in 1..Min({Len(q), n}) |-> q[k]]

Violating == {j \in Judged : j.bad}
Divergent == {j \in Judged : j.tag # Log[j.i].resp.tag}
Stricter  == {j \in Judged : ~j.ok /\ j.rules = {}}
DivKinds  == {<<Log[j.i].q.api, j.tag, Log[j.i].resp.tag>> : j \in Divergent}
StrKinds  == {<<Log[j.i].q.api, Log[j.i].resp.tag>> : j \in Stricter}
Sole(n)   == Cardinality({j \in Judged : j.rules = {n} /\ ~j.ok})
AnyOf(n)  == Cardinality({j \in Judged : n \in j.rules})
Granted   == {j \in Judged : j.ok}
GrantKinds == {<<Log[j.i].q.api, Log[j.i].q.ct>> : j \in Granted}

Report ==
  [ records     |-> Len(Log),
    signs       |-> Cardinality(SignIdx),
    env_steps   |-> Cardinality({i \in DOMAIN Log : Log[i].k = "env"}),
    granted     |-> Cardinality(Granted),
    distinct_queries |-> Cardinality({Log[i].q : i \in SignIdx}),
    nviolations |-> Cardinality(Violating),
    violations  |-> [k \in DOMAIN First(Violating, 60) |-> Describe(First(Violating, 60)[k])],
    ndivergent  |-> Cardinality(Divergent),
    divergence_kinds |-> [k \in DOMAIN SetToSeq(DivKinds) |->
                            LET t == SetToSeq(DivKinds)[k] IN
                            [api |-> t[1], expected |-> t[2], real |-> t[3],
                             n |-> Cardinality({j \in Divergent : <<Log[j.i].q.api, j.tag, Log[j.i].resp.tag>> = t})]],
    divergences |-> [k \in DOMAIN First(Divergent, 30) |-> Describe(First(Divergent, 30)[k])],
    nstricter   |-> Cardinality(Stricter),
    stricter_kinds |-> [k \in DOMAIN SetToSeq(StrKinds) |->
                          LET t == SetToSeq(StrKinds)[k] IN
                          [api |-> t[1], tag |-> t[2],
                           n |-> Cardinality({j \in Stricter : <<Log[j.i].q.api, Log[j.i].resp.tag>> = t})]],
    sole        |-> [n \in RuleNames |-> Sole(n)],
    any         |-> [n \in RuleNames |-> AnyOf(n)],
    uncovered   |-> SetToSeq({n \in RuleNames : Sole(n) = 0}),
    granted_kinds |-> [k \in DOMAIN SetToSeq(GrantKinds) |->
                         LET t == SetToSeq(GrantKinds)[k] IN
                         [api |-> t[1], ct |-> t[2],
                          n |-> Cardinality({j \in Granted : <<Log[j.i].q.api, Log[j.i].q.ct>> = t})]],
    env_divergences |-> First(EnvDivergent, 20),
    conc_bad    |-> [k \in DOMAIN First(ConcBad, 10) |-> [line |-> First(ConcBad, 10)[k], q |-> Log[First(ConcBad, 10)[k]].q,
                                                          req |-> ReqOf(Log[First(ConcBad, 10)[k]])]],
    nconc_bad   |-> Cardinality(ConcBad),
    sample      |-> LET S1 == {j \in Granted : Log[j.i].q.fam = "sweep" /\ Len(Log[j.i].q.outs) > 1}
                        S2 == {j \in Granted : Log[j.i].q.fam = "htlc"}
                        S3 == {j \in Judged : ~j.ok /\ Cardinality(j.rules) = 1}
                        pick == First(S1, 1) \o First(S2, 1) \o First(S3, 1) IN
                    [k \in DOMAIN pick |-> Describe(pick[k])] ]

ASSUME JsonSerialize(IOEnv.SWEEP_REPORT, Report)
=============================================================================
