----------------------------- MODULE SimTracker -----------------------------
(* Leg C (spec -> impl): random behaviours of the Tracker model, printed as    *)
(* request sequences that the harness replays on one long-lived real tracker.  *)
(* Run with  tlc -simulate num=K -depth D+2.  Requests that move the tip are    *)
(* weighted so that behaviours contain reorganisations across the retarget     *)
(* boundary; refused requests are interleaved with them.                       *)
EXTENDS Tracker, Json, IOUtils

CONSTANTS Interval, MaxReorg, Trusted, NL, H0, PreWin, Below, Deep, TipFh, MaxDev, PopFirst, KeepDecode, Depth
VARIABLES s, hist, w

K == [interval |-> Interval, maxReorg |-> MaxReorg, trusted |-> Trusted, deep |-> Deep,
      popFirst |-> PopFirst, keepDecode |-> KeepDecode]
Contents == IF NL = 2 THEN {"e", "f1", "d1", "f2", "d2"} ELSE {"e", "f1", "d1"}
Reqs == Requests(MaxDev, Contents, {0, 2, 3, -1, -2})

Hdr(i, fh) == [id |-> "A" \o ToString(i), p |-> IF i = 0 THEN "?" ELSE "A" \o ToString(i - 1),
               c |-> "b", lvl |-> 0, fh |-> fh]
Listener(k) == [w |-> {NameI(k)}, s |-> {}, tw |-> 1,
                m |-> [h |-> H0, fund |-> -1, ds |-> -1, fo |-> "-", sb |-> FALSE, other |-> FALSE]]
\* base chain A0 .. A(PreWin+1+Below); the tip is the last one, PreWin headers below it are
\* remembered, Below+1 more are known to the node only (Deep: removals may go down there)
Top == PreWin + 1 + Below
InitState == [h |-> H0, tip |-> Hdr(Top, TipFh),
              win |-> [i \in 1..PreWin |-> Hdr(Top - i, "ok")],
              anc |-> [i \in 1..(Below + 1) |-> Hdr(Below + 1 - i, "ok")],
              ls |-> [k \in 1..NL |-> Listener(k)], tds |-> FALSE, mds |-> FALSE]

Weight(st, r) == LET o == Step(st, r, K) IN
                 IF o.resp.ok = 2 THEN 0
                 ELSE IF o.resp.ok = 1 THEN (IF r.op = "rm" THEN 40 ELSE 25)
                 ELSE IF Obs(o.s) # Obs(st) THEN 6 ELSE 1

Init == s = InitState /\ hist = <<>> /\ w = 0
Next == /\ Len(hist) < Depth
        /\ \E r \in Reqs : \E k \in 1..Weight(s, r) :
              /\ Enabled(s, r)
              /\ s' = Step(s, r, K).s
              /\ hist' = Append(hist, r)
              /\ w' = k
Spec == Init /\ [][Next]_<<s, hist, w>>

Emit == (Len(hist) = Depth /\ w = 1) => PrintT(<<"SIM", ToJson(hist)>>)
=============================================================================
