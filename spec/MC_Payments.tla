---------------------------- MODULE MC_Payments ----------------------------
(* Leg A: TLC explores the Payments model itself (design level).  A          *)
(* counterexample here is a hypothesis about the code; leg B decides.        *)
EXTENDS Payments

CONSTANTS CfgName,            \* which request alphabet (Payments!Config)
          Fee, Pct,           \* routing-fee allowance (units) and max fee percentage
          RevokeValidates,    \* behaviour switch (see Payments.tla)
          Mon                 \* "a" or "b": which clause's history is kept

VARIABLES s, g, last

Cfg == Config(CfgName)
K   == [fee |-> Fee, pct |-> Pct, revokeValidates |-> RevokeValidates, vlim |-> Cfg.vlim]

Init == /\ s = InitState(Cfg.chans, Cfg.hashes)
        /\ g = InitGhost(Cfg.chans, Cfg.hashes)
        /\ last = [op |-> "init"]

Next == \E r \in Cfg.reqs :
          LET o == Step(s, r, K) IN
          /\ s' = o.s
          /\ g' = Ghost(g, r, o.resp, s, o.s, Mon)
          /\ last' = [req |-> r, ok |-> o.resp.ok]

Spec == Init /\ [][Next]_<<s, g, last>>
View == <<s, g>>

C06a == Inv_C06a(g, K)
C06b == Inv_C06b(g)

\* structural invariants of the ledger (extra)
TypeOK == /\ \A h \in Cfg.hashes : s.inv[h].amt >= 0 => s.pay[h].has
          /\ \A h \in Cfg.hashes : ~s.pay[h].has => (Tot(s.pay[h].in) = 0 /\ Tot(s.pay[h].out) = 0 /\ ~s.pay[h].pre)
          /\ \A h \in Cfg.hashes : s.ppre[h] \in BOOLEAN
          \* the velocity window never holds more than the limit; memory and store agree on it
          /\ s.vel >= 0 /\ s.pvel = s.vel /\ (K.vlim > 0 => s.vel <= K.vlim) /\ (K.vlim = 0 => s.vel = 0)

\* C10 at design level: a refused request leaves the abstract state unchanged
Frame == [][ (last'.ok = FALSE) => (s' = s) ]_<<s, g, last>>
=============================================================================
