---------------------------- MODULE TraceChannel ----------------------------
(***************************************************************************)
(* Leg C (impl -> spec): validates steps recorded from the real            *)
(* implementation (`chan run`: TLC-generated behaviours, replay files or    *)
(* random walks).  One record per step:                                     *)
(*   [seq, step, pre, req, resp, post, changed, restart]                    *)
(* Every step is compared with Channel!Step, the ghost monitors run along   *)
(* each sequence (invariants C01 C02 C03), frame and restart observations   *)
(* are evaluated.                                                           *)
(***************************************************************************)
EXTENDS Channel, Json, IOUtils, SequencesExt

Steps == ndJsonDeserialize(IOEnv.CH_STEPS)
K == [revokeChecksClosed |-> IOEnv.CH_REVOKE_CHECKS_CLOSED = "true",
      atomicRevocation   |-> IOEnv.CH_ATOMIC_REVOCATION = "true"]
RespOf(e) == [ok |-> e.resp.ok, sec |-> e.resp.sec, pt |-> e.resp.pt, flag |-> e.resp.flag]

VARIABLES l, g
Init == l = 1 /\ g = InitGhost
Next == /\ l <= Len(Steps)
        /\ LET e == Steps[l] IN
           g' = Ghost(IF e.step = 0 THEN InitGhost ELSE g, e.req, RespOf(e), e.pre.phase, e.pre.nh,
                      IOEnv.CH_MON)
        /\ l' = l + 1
Spec == Init /\ [][Next]_<<l, g>>

C01 == Inv_C01(g)
C02 == Inv_C02(g)
C03 == Inv_C03(g)

Conforms(e) == LET o == Step(e.pre, e.req, K) IN o.resp = RespOf(e) /\ o.s = e.post
Idx == DOMAIN Steps
Divergent  == {i \in Idx : ~Conforms(Steps[i])}
FrameBad   == {i \in Idx : ~Steps[i].resp.ok /\ Len(Steps[i].changed) > 0}
RestartBad == {i \in Idx : ~Steps[i].restart.equal}
Broken     == {i \in Idx : i > 1 /\ Steps[i].step > 0 /\ Steps[i].pre # Steps[i - 1].post}

Describe(i) == LET e == Steps[i] IN
  [line |-> i, seq |-> e.seq, step |-> e.step, pre |-> e.pre, req |-> e.req, resp |-> e.resp, post |-> e.post,
   changed |-> e.changed, restart |-> e.restart,
   expected |-> LET o == Step(e.pre, e.req, K) IN [resp |-> o.resp, post |-> o.s]]

Report == [ steps |-> Len(Steps),
            divergences |-> SetToSeq({Describe(i) : i \in Divergent}),
            frame_bad   |-> SetToSeq({Describe(i) : i \in FrameBad}),
            restart_bad |-> SetToSeq({Describe(i) : i \in RestartBad}),
            broken      |-> SetToSeq({Describe(i) : i \in Broken}) ]
ASSUME JsonSerialize(IOEnv.CH_REPORT, Report)
=============================================================================
