------------------------------ MODULE ImplKeys ------------------------------
(***************************************************************************)
(* Leg B: the state graphs EXTRACTED FROM THE REAL IMPLEMENTATION (harness  *)
(* `keys explore`: every request of the alphabet applied to every reachable *)
(* state of a real node, one graph per configuration x id family) are       *)
(* loaded here and                                                          *)
(*   1. every implementation edge is compared with Keys!Step (conformance;  *)
(*      divergences are written to KEYS_REPORT, they are not alarms),       *)
(*   2. the observations made on ALL states of ALL graphs are collected and *)
(*      the C18 monitors are evaluated: TLC walks the graphs and checks at  *)
(*      every state that what it shows agrees with what any other state     *)
(*      (= any other history, before/after setup, before/after restart)     *)
(*      showed first.                                                       *)
(*                                                                         *)
(* Nodes[k+1] = [id, g, gi, root, x, cid, pre, e, path] is the state with   *)
(* id k of graph number gi (configuration g); cid the concrete channel ids; *)
(* pre its projection [ch, hwm, rs, st]; e its outgoing edges               *)
(*   <<to, request index, ok, values>>   (values: interned byte strings).   *)
(***************************************************************************)
EXTENDS Keys, Json, IOUtils, SequencesExt

Nodes == ndJsonDeserialize(IOEnv.KEYS_NODES)
Alpha == JsonDeserialize(IOEnv.KEYS_ALPHABET)
Reqs  == Alpha.requests
Mon   == IOEnv.KEYS_MON          \* "C18" | "none"

KOf(nd) == LET gr == Alpha.graphs[nd.gi] IN
           [style |-> gr.cfg.style, nids |-> gr.nids, nmax |-> gr.nmax, oid |-> OidOf(gr.fam)]

RespOk(e) == e[3] = 1

\* observations of one edge / at one state (channel slots name the configuration and the CONCRETE
\* id; node-level slots are the NAMES NodeKey(style, seed, net, which))
CfgOf(nd) == Alpha.graphs[nd.gi].cfg
ObsEdge(nd, e) == ObsOf(ToString(nd.g), LAMBDA i : nd.cid[i], Reqs[e[2]], RespOk(e), e[4])
                  \cup NodeObsOf(CfgOf(nd), Reqs[e[2]], RespOk(e), e[4])
ObsAt(nd) == UNION { ObsEdge(nd, nd.e[j]) : j \in DOMAIN nd.e }
\* what the reference terms evaluate to (asked in the initial state of every graph)
RefObs == UNION { UNION { IF Reqs[Nodes[k].e[j][2]].op = "Ref" THEN ObsEdge(Nodes[k], Nodes[k].e[j]) ELSE {}
                          : j \in DOMAIN Nodes[k].e } : k \in {k \in DOMAIN Nodes : Nodes[k].root} }
PtSecAt(nd) == UNION { PtOfSecOf(ToString(nd.g), LAMBDA i : nd.cid[i], Reqs[nd.e[j][2]], RespOk(nd.e[j]), nd.e[j][4])
                       : j \in DOMAIN nd.e }
AllObs == UNION { ObsAt(Nodes[k]) : k \in DOMAIN Nodes }

\* C18a / C18b over everything observed anywhere
BadStable   == Clash(AllObs)
BadDistinct == Collide(AllObs)
\* the value a clashing slot showed in the state discovered first (breadth-first = shortest history)
BadSlots == {p[1] : p \in BadStable}
Shows(k, sl) == \E p \in ObsAt(Nodes[k]) : p[1] = sl
FirstVal == [sl \in BadSlots |->
               \* for a node-level slot the reference is the specification
               IF \E p \in RefObs : p[1] = sl THEN (CHOOSE p \in RefObs : p[1] = sl)[2] ELSE
               LET k == CHOOSE k \in DOMAIN Nodes : Shows(k, sl) /\ \A j \in 1..(k - 1) : ~Shows(j, sl)
               IN (CHOOSE p \in ObsAt(Nodes[k]) : p[1] = sl)[2]]

---------------------------------------------------------------------------
\* abstraction of a projected state (src: native and LDK derive from the id; ctr is unobservable)
TreeName(nd, v, n) ==
  LET js == {j \in 1..Len(nd.cid) : <<<<ToString(nd.g), nd.cid[j], "sec", n>>, v>> \in AllObs} IN
  IF js = {} THEN "?" ELSE IdName(CHOOSE j \in js : TRUE)
AbsSlots(nd, sl) == [k \in 1..Len(sl) |-> [t |-> TreeName(nd, sl[k][1], sl[k][2]), n |-> sl[k][2]]]
ModelState(nd) ==
  [ ch  |-> [i \in 1..Len(nd.pre.ch) |->
               [ph |-> nd.pre.ch[i][1], nh |-> nd.pre.ch[i][2], al |-> nd.pre.ch[i][3], v |-> nd.pre.ch[i][4],
                src |-> IF nd.pre.ch[i][1] = "none" THEN "-" ELSE IdName(i)]],
    hwm |-> nd.pre.hwm, rs |-> nd.pre.rs, ctr |-> 0,
    st  |-> [i \in 1..Len(nd.pre.st) |-> AbsSlots(nd, nd.pre.st[i])] ]
\* comparison of what is visible of two model states (written out: sequences vs functions)
SameVisible(a, b) ==
  /\ a.hwm = b.hwm /\ a.rs = b.rs
  /\ DOMAIN a.ch = DOMAIN b.ch
  /\ \A i \in DOMAIN a.ch : /\ a.ch[i].ph = b.ch[i].ph /\ a.ch[i].nh = b.ch[i].nh
                            /\ a.ch[i].al = b.ch[i].al /\ a.ch[i].v = b.ch[i].v
  /\ \A i \in DOMAIN a.st : /\ Len(a.st[i]) = Len(b.st[i])
                            /\ \A k \in 1..Len(a.st[i]) : a.st[i][k] = b.st[i][k]

\* the concrete value the model's abstract reply stands for, if it was ever observed
ValOf(nd, a) ==   \* a = <<"sec"|"pt", "i<j>", n>>
  LET js == {j \in 1..Len(nd.cid) : IdName(j) = a[2]}
      vs == IF js = {} THEN {} ELSE
            {p[2] : p \in {q \in AllObs : q[1] = <<ToString(nd.g), nd.cid[CHOOSE j \in js : TRUE], a[1], a[3]>>}} IN
  vs

\* 1. conformance of an implementation edge with the specification
Conforms(nd, e) ==
  LET r == Reqs[e[2]]
      o == Step(ModelState(nd), r, KOf(nd)) IN
  /\ o.resp.ok = RespOk(e)
  /\ (e[1] >= 0 => SameVisible(o.s, ModelState(Nodes[e[1] + 1])))
  /\ Len(e[4]) = Len(o.resp.a)
  \* the store returns the value the model store says it returns
  /\ (r.op = "Get" /\ Len(e[4]) = 1 => e[4][1] \in ValOf(nd, o.resp.a[1]))
  \* the point of a released secret is the point the channel shows for that number
  /\ (r.op = "Secret" /\ RespOk(e) /\ Len(e[4]) = 2
        => \A v \in ValOf(nd, <<"pt", IdName(r.id), r.n>>) : v = e[4][2])

\* 2. the monitors, per state (so that TLC's counterexample is a shortest history)
BadObs(p)      == p \in BadStable /\ p[2] # FirstVal[p[1]]
StableAt(nd)   == \A p \in ObsAt(nd) : ~IsNodeSlot(p[1]) => ~BadObs(p)
NodeKeysAt(nd) == \A p \in ObsAt(nd) : IsNodeSlot(p[1]) => ~BadObs(p)
DistinctAt(nd) == \A p \in ObsAt(nd) : p \notin BadDistinct
TreeBadEdge(nd, e) ==
  LET r == Reqs[e[2]] IN
  /\ r.op \in {"Provide", "Get"}
  /\ LET sl == nd.pre.st[r.to]
         Own(v, n) == <<<<ToString(nd.g), nd.cid[r.to], "sec", n>>, v>> \in AllObs IN
     \/ (r.op = "Provide" /\
         TreeRefused(sl, Own, r, RespOk(e), Secret(ModelState(nd), r.from, r.n, "id0").resp.ok))
     \/ TreeWrong(sl, Own, r, e[4])
TreeAt(nd) == \A j \in DOMAIN nd.e : ~TreeBadEdge(nd, nd.e[j])

VARIABLES node, last

Roots == {Nodes[k].id : k \in {k \in DOMAIN Nodes : Nodes[k].root}}
Init == /\ node \in Roots
        /\ last = [op |-> "init"]
Next == \E j \in DOMAIN Nodes[node + 1].e :
          LET e == Nodes[node + 1].e[j] IN
          /\ e[1] >= 0 /\ e[1] # node
          /\ node' = e[1]
          /\ last' = [from |-> node, req |-> Reqs[e[2]], ok |-> RespOk(e)]
Spec == Init /\ [][Next]_<<node, last>>
View == node

C18a == Mon = "C18" => StableAt(Nodes[node + 1])
C18b == Mon = "C18" => DistinctAt(Nodes[node + 1])
C18c == Mon = "C18" => TreeAt(Nodes[node + 1])
C18d == Mon = "C18" => NodeKeysAt(Nodes[node + 1])

---------------------------------------------------------------------------
\* report (no set of ALL edges is built: per node)
BadAt(i, Bad(_, _)) == {<<i, j>> : j \in {k \in DOMAIN Nodes[i].e : Bad(Nodes[i], Nodes[i].e[k])}}
EdgesWhere(Bad(_, _)) == UNION {BadAt(i, Bad) : i \in DOMAIN Nodes}
Divergent == EdgesWhere(LAMBDA nd, e : ~Conforms(nd, e))
TreeBad   == EdgesWhere(LAMBDA nd, e : TreeBadEdge(nd, e))
\* the edges whose reply is a clashing / colliding observation (only computed when there is one)
StableBadEdges   == IF BadStable = {} THEN {} ELSE EdgesWhere(LAMBDA nd, e : \E p \in ObsEdge(nd, e) : BadObs(p))
DistinctBadEdges == IF BadDistinct = {} THEN {} ELSE EdgesWhere(LAMBDA nd, e : \E p \in ObsEdge(nd, e) : p \in BadDistinct)
NEdges    == FoldLeft(LAMBDA acc, nd : acc + Len(nd.e), 0, Nodes)
NObsEdges == FoldLeft(LAMBDA acc, nd : acc + Cardinality({j \in DOMAIN nd.e : RespOk(nd.e[j]) /\ Len(nd.e[j][4]) > 0}), 0, Nodes)

Describe(p) == LET nd == Nodes[p[1]] e == nd.e[p[2]] IN
  [node |-> nd.id, g |-> nd.g, path |-> nd.path, pre |-> nd.pre, req |-> Reqs[e[2]], ok |-> RespOk(e), vals |-> e[4],
   to |-> e[1], post |-> IF e[1] >= 0 THEN Nodes[e[1] + 1].pre ELSE nd.pre,
   expected |-> LET o == Step(ModelState(nd), Reqs[e[2]], KOf(nd)) IN [ok |-> o.resp.ok, a |-> o.resp.a]]
DescribeObs(p) == [g |-> p[1][1], cid |-> p[1][2], comp |-> p[1][3], n |-> p[1][4], val |-> p[2], first |-> 0]

Report ==
  [ nodes        |-> Len(Nodes),
    expanded     |-> Cardinality({i \in DOMAIN Nodes : Nodes[i].x}),
    edges        |-> NEdges,
    obs_edges    |-> NObsEdges,
    slots        |-> Cardinality({p[1] : p \in AllObs}),
    observations |-> Cardinality(AllObs),
    divergences  |-> SetToSeq({Describe(p) : p \in Divergent}),
    unstable     |-> SetToSeq({[DescribeObs(p) EXCEPT !.first = FirstVal[p[1]]] : p \in BadStable}),
    colliding    |-> SetToSeq({DescribeObs(p) : p \in BadDistinct}),
    tree_bad     |-> SetToSeq({Describe(p) : p \in TreeBad}),
    stable_bad   |-> SetToSeq({Describe(p) : p \in StableBadEdges}),
    distinct_bad |-> SetToSeq({Describe(p) : p \in DistinctBadEdges}) ]

ASSUME JsonSerialize(IOEnv.KEYS_REPORT, Report)
=============================================================================
