--------------------------- MODULE MC_MutualClose ---------------------------
(* Leg A of C07: TLC explores the MODEL itself.  A channel walks through its  *)
(* history (no commitment -> one side's initial commitment -> both -> updated *)
(* contents), and in every abstract state every abstract close request of the *)
(* case matrix is applied: the implementation-shaped ImplStep decides whether *)
(* the model signs, the reference predicate MustRefuse judges it.  A          *)
(* counterexample here is a HYPOTHESIS about the code (the model signs what   *)
(* the reference must refuse); it becomes a finding only when leg B observes  *)
(* it on the real crates.                                                     *)
EXTENDS MutualClose

CONSTANTS KS,        \* abstract states: at most KS fields deviate from the good state
          KR,        \* abstract requests: at most KR fields deviate from the good request
          Mags,      \* channel magnitudes explored
          Saturate   \* behaviour switch of ImplStep (see CodeRate in MutualClose.tla)

VARIABLES s, closed, g, last

\* the states of the case matrix, plus the states a channel passes through on its way to them
Base(t, h) == [t EXCEPT !.hist = h, !.nb = "typ", !.skew = "0", !.htlc = "none"]
Target == {t \in AbsStates(KS, Mags) \cup GuessStates : t.pre = "none"}
States == Target \cup {Base(t, h) : t \in Target, h \in {"fresh", "noC", "noH", "init"}}
SameChannel(a, b) == a.dir = b.dir /\ a.pol = b.pol /\ a.mag = b.mag /\ a.upfront = b.upfront
HistNext(h1, h2) == \/ h1 = "fresh" /\ h2 \in {"noC", "noH"}
                    \/ h1 \in {"noC", "noH"} /\ h2 = "init"
                    \/ h1 = "init" /\ h2 \in {"upd", "updp"}
                    \/ h1 \in {"upd", "updp"} /\ h2 = "upd"

Init == /\ s \in {t \in States : t.hist = "fresh"}
        /\ closed = FALSE
        /\ g = <<"ok", {}, "">>
        /\ last = [op |-> "init"]

\* a commitment update (or the initial commitments) accepted by the signer
Advance == /\ ~closed
           /\ \E t \in States : /\ SameChannel(s, t) /\ HistNext(s.hist, t.hist) /\ t # s
                                /\ s' = t
           /\ UNCHANGED closed
           /\ g' = <<"ok", {}, "">>
           /\ last' = [op |-> "Advance"]

\* states of the "guess" block that are farther than KS from the good state get the narrow request set
Dist(t) == Cardinality({f \in StateFields : t[f] # GoodState(t.dir, t.pol)[f]})
Close == \E r \in PlausibleReqs(s, IF Dist(s) <= KS THEN KR ELSE 1) \cup GuessReqsOf(s, KR >= 2) :
           LET w == WorldOf(s, r.allow)
               c == ConcReq(s, r)
               q == JudgedReq(c)
               o == ImplStep(w, q, [saturate |-> Saturate])
               fs == FailSets(w, q)
               must == MustRefuseF(fs) IN
           /\ c.ok
           /\ closed' = (closed \/ o.ok)
           /\ g' = IF o.ok /\ must THEN <<"signed_must_refuse", MinFailF(fs), FeeNote(w, q)>> ELSE <<"ok", {}, "">>
           /\ last' = [op |-> "Close", r |-> r, ok |-> o.ok, tag |-> o.tag, must |-> must,
                       fail |-> IF must THEN MinFailF(fs) ELSE {}]
           /\ UNCHANGED s

Next == Advance \/ Close
Spec == Init /\ [][Next]_<<s, closed, g, last>>
View == <<s, closed, g>>

\* the property at design level: the model never signs what the reference must refuse ...
\* (g describes the last step only, so that `-continue` lists every distinct hypothesis once per state)
C07 == g[1] = "ok"
\* ... and a signed close leaves the channel marked closed (last is not in the view: checked as an action property)
ClosedAfterSign == [][last'.op = "Close" /\ last'.ok => closed']_<<s, closed, g, last>>
=============================================================================
