INIT Init
NEXT Next
