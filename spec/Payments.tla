------------------------------ MODULE Payments ------------------------------
(***************************************************************************)
(* Payment ledger of ONE signer node over SEVERAL channels (C06).           *)
(*                                                                         *)
(* Mirrors vls-core/src/node.rs (NodeState::validate_payments,              *)
(* apply_payments, htlc_fulfilled, prune_*, add_invoice, add_keysend,       *)
(* restore), policy/validator.rs (payments_summary = max of views,          *)
(* incoming_payments_summary = min of views), policy/simple_validator.rs    *)
(* (validate_payment_balance) and the call sites in channel.rs              *)
(* (sign_counterparty_commitment_tx_phase2: validate, advance, apply;       *)
(* validate_holder_commitment_tx_phase2: validate, store, NO apply;         *)
(* revoke_previous_holder_commitment: advance, apply, NO validation;        *)
(* restore_payments on restart).                                            *)
(*                                                                         *)
(* Written to be bound: Step(s, r, k) -> [resp, s] is a pure operator, one  *)
(* arm per entry point, in the code's order of checks and mutations.        *)
(* Ghost(..) is a ledger recomputed from observations only; the property is *)
(* Inv_C06a / Inv_C06b over it.                                             *)
(*                                                                         *)
(* Abstract values                                                          *)
(*   amounts    small naturals (1 = UNIT satoshi in the harness); the       *)
(*              invoice amount and the routing-fee allowance k.fee are in   *)
(*              the same unit, k.pct = max_feerate_percentage               *)
(*   HTLC       [d, h, a]: d = "o" offered by the holder (outgoing),        *)
(*              "r" received by the holder (incoming); h payment hash name  *)
(*   content    [some, htlcs]: a commitment's HTLCs from the HOLDER's point *)
(*              of view (for a counterparty commitment the code's           *)
(*              received_htlcs are the "o" ones), canonically sorted        *)
(*   commitment numbers are abstracted away: the harness always presents    *)
(*   the next number (and the matching counterparty revocation), retries    *)
(*   present the current one                                                *)
(* Switch k.revokeValidates: FALSE = the code (a revocation applies the     *)
(*   validated holder commitment to the ledger without re-validation);      *)
(*   TRUE = the proposed repair (re-validate, refuse to revoke).            *)
(* Policy k.vlim: the node-wide payment velocity limit (SimplePolicy        *)
(*   global_velocity_control, hourly window) in units; 0 = unlimited (the   *)
(*   default policy).  With a finite limit add_invoice / add_keysend DECLINE *)
(*   (reply Ok(false)) an approval whose amount does not fit into what is    *)
(*   left of the window: nothing is registered for the hash - no invoice,    *)
(*   no payment entry - so for the ledger the hash stays unknown and an      *)
(*   unbacked outgoing HTLC for it must be refused like for any other        *)
(*   unknown hash (C06, second sentence).                                    *)
(***************************************************************************)
EXTENDS Naturals, Integers, Sequences, FiniteSets, TLC

NoneC   == [some |-> FALSE, htlcs |-> <<>>]
Cont(x) == [some |-> TRUE, htlcs |-> x]
Max(a, b) == IF a >= b THEN a ELSE b
Min(a, b) == IF a <= b THEN a ELSE b

RECURSIVE AmtFrom(_, _, _, _)
AmtFrom(x, d, h, i) == IF i > Len(x) THEN 0
                       ELSE (IF x[i].d = d /\ x[i].h = h THEN x[i].a ELSE 0) + AmtFrom(x, d, h, i + 1)
\* summarize_payments: HTLCs of one payment hash are summed
Amt(x, d, h) == AmtFrom(x, d, h, 1)
Has(x, d, h) == \E i \in DOMAIN x : x[i].d = d /\ x[i].h = h
VAmt(c, d, h) == IF c.some THEN Amt(c.htlcs, d, h) ELSE 0
VKey(c, d, h)  == c.some /\ Has(c.htlcs, d, h)
HashesOf(x)   == {x[i].h : i \in DOMAIN x}

RECURSIVE SumOver(_, _)
SumOver(f, S) == IF S = {} THEN 0 ELSE LET x == CHOOSE y \in S : TRUE IN f[x] + SumOver(f, S \ {x})
Tot(f) == SumOver(f, DOMAIN f)

(***************************************************************************)
(* State                                                                   *)
(*   inv[h]  = [amt, ks, old]  approved invoice (amt = -1: none; amt = 0: an *)
(*             amountless invoice / a keysend registered with 0), keysend?,   *)
(*             past its prune time?                                         *)
(*   pay[h]  = [has, in, out, pre]  RoutedPayment: entry exists, incoming /  *)
(*             outgoing per channel, preimage known                         *)
(*   ppre[h] = preimage of h is in the PERSISTED node entry (the node state *)
(*             is written by add_invoice / add_keysend / a pruning          *)
(*             heartbeat, not by htlcs_fulfilled)                           *)
(*   iss[h]  = [amt, old]  invoice the node ISSUED (signed) itself for h, to *)
(*             be paid TO the node (amt = 0: none).  Bookkeeping for incoming *)
(*             value only: it gives no allowance for outgoing HTLCs.          *)
(*             sign_bolt11_invoice does not write the node entry, so          *)
(*   piss[h] = the issued invoice in the PERSISTED node entry                 *)
(*   ch[c]   = [curH, nextH, curC]  accepted commitment contents            *)
(*   time    = 0, or 1 after the clock was advanced past every prune time   *)
(*   vel     = what the approvals registered in the current velocity window  *)
(*             add up to (NodeState.velocity_control, in memory), as it       *)
(*             counts at the current clock (the buckets are rotated lazily,   *)
(*             at the next insert; a Tick moves every bucket out of the       *)
(*             window).  Tracked only under a finite limit (k.vlim > 0): an   *)
(*             unlimited control accepts everything and is left out (0).      *)
(*   pvel    = the same in the PERSISTED node entry (what a restart restores) *)
(***************************************************************************)
NoInv == [amt |-> -1, ks |-> FALSE, old |-> FALSE]
NoIss == [amt |-> 0, old |-> FALSE]
Zero(Cs) == [c \in Cs |-> 0]
NoPay(Cs) == [has |-> FALSE, in |-> Zero(Cs), out |-> Zero(Cs), pre |-> FALSE]
Fresh(Cs) == [has |-> TRUE, in |-> Zero(Cs), out |-> Zero(Cs), pre |-> FALSE]

\* both channels funded, commitment 0 exchanged (no HTLCs), nothing pending
InitState(Cs, Hs) ==
  [ inv |-> [h \in Hs |-> NoInv], pay |-> [h \in Hs |-> NoPay(Cs)], ppre |-> [h \in Hs |-> FALSE],
    iss |-> [h \in Hs |-> NoIss], piss |-> [h \in Hs |-> NoIss],
    ch |-> [c \in Cs |-> [curH |-> Cont(<<>>), nextH |-> NoneC, curC |-> Cont(<<>>)]],
    time |-> 0, vel |-> 0, pvel |-> 0 ]

Err(s)       == [resp |-> [ok |-> FALSE, flag |-> -1], s |-> s]
Ok(s)        == [resp |-> [ok |-> TRUE, flag |-> -1], s |-> s]
OkFlag(s, b) == [resp |-> [ok |-> TRUE, flag |-> IF b THEN 1 ELSE 0], s |-> s]

---------------------------------------------------------------------------
\* EnforcementState::payments_summary(new_holder_tx, new_counterparty_tx): a partial map,
\* -1 = the hash is not a key.  The greater of the two views is in flight; hashes of the
\* CURRENT commitments are always keys (value 0 when they left both views).
OutSum(cs, nH, nC, Hs) ==
  [h \in Hs |->
     LET hv == IF nH.some THEN nH ELSE cs.curH
         cv == IF nC.some THEN nC ELSE cs.curC IN
     IF ~(VKey(hv, "o", h) \/ VKey(cv, "o", h) \/ VKey(cs.curH, "o", h) \/ VKey(cs.curC, "o", h)) THEN -1
     ELSE Max(VAmt(hv, "o", h), VAmt(cv, "o", h))]

\* EnforcementState::incoming_payments_summary: only what BOTH views contain, the smaller value
InSum(cs, nH, nC, Hs) ==
  [h \in Hs |->
     LET hv == IF nH.some THEN nH ELSE cs.curH
         cv == IF nC.some THEN nC ELSE cs.curC
         both == VKey(hv, "r", h) /\ VKey(cv, "r", h) IN
     IF ~(both \/ VKey(cs.curH, "r", h) \/ VKey(cs.curC, "r", h)) THEN -1
     ELSE IF both THEN Min(VAmt(hv, "r", h), VAmt(cv, "r", h)) ELSE 0]

\* SimpleValidator::validate_payment_balance (amounts in units; inv = -1: no invoice).  An approval
\* of amount 0 (amountless invoice) is Some(0) in the code: no allowance beyond the routing fee, and
\* the fee percentage is taken over max(invoiced msat, 1), so ANY excess over the incoming value
\* exceeds every percentage: such an approval covers outgoing value up to the incoming value only.
BalanceErr(in, out, inv, k) ==
  \/ in + (IF inv >= 0 THEN inv + k.fee ELSE 0) < out              \* policy-routing-balanced
  \/ /\ inv >= 0 /\ ~(inv + in > out)
     /\ IF inv = 0 THEN out - in > 0
        ELSE ((out - inv - in) * 100) \div inv > k.pct              \* policy-htlc-fee-range

\* NodeState::validate_payments: the hashes reported as unbalanced
Unbalanced(s, c, inS, outS, k) ==
  {h \in DOMAIN s.inv :
     /\ inS[h] >= 0 \/ outS[h] >= 0
     /\ LET p == s.pay[h]
            ic == Max(inS[h], 0)
            oc == Max(outS[h], 0)
            in  == IF p.has THEN Tot(p.in) + ic - p.in[c] ELSE ic
            out == IF p.has THEN Tot(p.out) + oc - p.out[c] ELSE oc IN
        /\ BalanceErr(in, out, s.inv[h].amt, k)
        \* TODO(331): an existing payment without invoice may go out of balance (warning only)
        /\ ~(p.has /\ s.inv[h].amt < 0)}

\* NodeState::apply_payments: every key of either summary gets this channel's values
Apply(pay, c, inS, outS) ==
  [h \in DOMAIN pay |->
     IF inS[h] >= 0 \/ outS[h] >= 0
     THEN [pay[h] EXCEPT !.has = TRUE, !.in[c] = Max(inS[h], 0), !.out[c] = Max(outS[h], 0)]
     ELSE pay[h]]

Hs(s) == DOMAIN s.inv
Cs(s) == DOMAIN s.ch

---------------------------------------------------------------------------
\* sign_counterparty_commitment_tx_phase2: (policy checks pass for every content of the alphabet)
\* validate_payments, set_next_counterparty_commit_num, apply_payments, persist channel
SignCp(s, c, x, k) ==
  LET cs == s.ch[c]
      inS == InSum(cs, NoneC, Cont(x), Hs(s))
      outS == OutSum(cs, NoneC, Cont(x), Hs(s)) IN
  IF Unbalanced(s, c, inS, outS, k) # {} THEN Err(s)
  ELSE Ok([s EXCEPT !.ch[c].curC = Cont(x), !.pay = Apply(s.pay, c, inS, outS)])

\* re-signing the current counterparty commitment (same number, point and content)
SignCpRetry(s, c, k) == SignCp(s, c, s.ch[c].curC.htlcs, k)

\* validate_holder_commitment_tx_phase2 for the next number: validate_payments, store the
\* commitment as next_holder_commit_info, persist channel.  The ledger is NOT updated.
ValidateHolder(s, c, x, k) ==
  LET cs == s.ch[c]
      inS == InSum(cs, Cont(x), NoneC, Hs(s))
      outS == OutSum(cs, Cont(x), NoneC, Hs(s)) IN
  IF Unbalanced(s, c, inS, outS, k) # {} THEN Err(s)
  ELSE Ok([s EXCEPT !.ch[c].nextH = Cont(x)])

\* re-validating the current holder commitment: validate_payments only
ValidateHolderRetry(s, c, k) ==
  LET cs == s.ch[c]
      inS == InSum(cs, cs.curH, NoneC, Hs(s))
      outS == OutSum(cs, cs.curH, NoneC, Hs(s)) IN
  IF Unbalanced(s, c, inS, outS, k) # {} THEN Err(s) ELSE Ok(s)

\* revoke_previous_holder_commitment(next number): take next_holder_commit_info, summaries
\* with it as the new holder tx, advance, apply_payments, persist channel
Revoke(s, c, k) ==
  LET cs == s.ch[c]
      inS == InSum(cs, cs.nextH, NoneC, Hs(s))
      outS == OutSum(cs, cs.nextH, NoneC, Hs(s)) IN
  IF ~cs.nextH.some THEN Err(s)                           \* policy-revoke-new-commitment-signed
  ELSE IF k.revokeValidates /\ Unbalanced(s, c, inS, outS, k) # {} THEN Err(s)
  ELSE Ok([s EXCEPT !.ch[c].curH = cs.nextH, !.ch[c].nextH = NoneC,
                    !.pay = Apply(s.pay, c, inS, outS)])

\* what update_node writes: the preimages, the issued invoices and the velocity control currently in memory
Persist(s) == [s EXCEPT !.ppre = [h \in Hs(s) |-> s.pay[h].pre], !.piss = s.iss, !.pvel = s.vel]

\* VelocityControl::insert(now, amount) on NodeState.velocity_control: the amount is added to the
\* window unless the total would exceed the limit (then nothing is inserted and the caller declines)
VelFits(s, a, k) == k.vlim = 0 \/ s.vel + a <= k.vlim
VelAdd(s, a, k)  == IF k.vlim = 0 THEN 0 ELSE s.vel + a

\* add_invoice: an identical invoice is accepted again without change; a different one for the
\* same hash is refused.  The harness stamps invoices relative to the clock, so the invoice
\* registered before the clock was advanced is a different one afterwards.
\* A new invoice is then put to the node-wide velocity control: when its amount does not fit into
\* the window the answer is Ok(false) and NOTHING is registered - no invoice, no payment entry,
\* nothing persisted (the hash stays unknown to validate_payments: an uninvoiced hash without
\* payment entry must balance).  Only an approved invoice gets its payment entry.
AddInvoice(s, h, a, k) ==
  LET e == s.inv[h] IN
  IF e.amt >= 0 THEN (IF ~e.ks /\ e.amt = a /\ ~e.old THEN OkFlag(s, TRUE) ELSE Err(s))
  ELSE IF ~VelFits(s, a, k) THEN OkFlag(s, FALSE)           \* policy-commitment-payment-velocity (warning, declined)
  ELSE OkFlag(Persist([s EXCEPT !.inv[h] = [amt |-> a, ks |-> FALSE, old |-> FALSE],
                                !.pay[h] = IF @.has THEN @ ELSE Fresh(Cs(s)),
                                !.vel = VelAdd(s, a, k)]), TRUE)
\* an invoice that is past its expiry when it is proposed: the approver's has_payment shortcut refuses
\* it as a different invoice when the hash has an approval (it cannot be the registered one: that one
\* was not expired when it was registered and carries another timestamp), add_invoice's
\* validate_invoice refuses it otherwise (policy-invoice-not-expired), before anything is touched
ExpiredInvoice(s, h, a) == Err(s)
\* an invoice the approver declines (Approve::handle_proposed_invoice): the shortcut for an already
\* registered identical invoice still answers true; nothing is registered otherwise
DeclineInvoice(s, h, a) ==
  LET e == s.inv[h] IN
  IF e.amt >= 0 THEN (IF ~e.ks /\ e.amt = a /\ ~e.old THEN OkFlag(s, TRUE) ELSE Err(s))
  ELSE OkFlag(s, FALSE)
\* sign_bolt11_invoice: the node signs an invoice of its own (amount a > 0) and remembers it in
\* issued_invoices; the identical invoice is signed again, a different one for the same hash is
\* refused.  No payment entry is created and nothing is persisted.
IssueInvoice(s, h, a) ==
  LET e == s.iss[h] IN
  IF e.amt > 0 THEN (IF e.amt = a /\ ~e.old THEN Ok(s) ELSE Err(s))
  ELSE Ok([s EXCEPT !.iss[h] = [amt |-> a, old |-> FALSE]])
\* add_keysend: the "invoice hash" of a keysend is the payment hash itself, so any keysend for a
\* hash that has one is the same one (the registered amount stays); a new one is put to the velocity
\* control like an invoice (declined: Ok(false), nothing registered)
AddKeysend(s, h, a, k) ==
  LET e == s.inv[h] IN
  IF e.amt >= 0 THEN (IF e.ks THEN OkFlag(s, TRUE) ELSE Err(s))
  ELSE IF ~VelFits(s, a, k) THEN OkFlag(s, FALSE)
  ELSE OkFlag(Persist([s EXCEPT !.inv[h] = [amt |-> a, ks |-> TRUE, old |-> FALSE],
                                !.pay[h] = IF @.has THEN @ ELSE Fresh(Cs(s)),
                                !.vel = VelAdd(s, a, k)]), TRUE)

\* Channel::htlcs_fulfilled -> NodeState::htlc_fulfilled (not persisted)
Fulfill(s, h) ==
  IF s.pay[h].has /\ ~s.pay[h].pre THEN Ok([s EXCEPT !.pay[h].pre = TRUE]) ELSE Ok(s)

\* the harness sets the clock to a fixed instant past every prune time (and past the velocity window:
\* what was inserted before no longer counts, in memory and after a restart alike)
Tick(s) ==
  LET age(f, none) == [h \in Hs(s) |-> IF s.time = 0 /\ f[h].amt # none THEN [f[h] EXCEPT !.old = TRUE] ELSE f[h]] IN
  Ok([s EXCEPT !.time = 1, !.inv = age(s.inv, -1), !.iss = age(s.iss, 0), !.piss = age(s.piss, 0),
               !.vel = IF s.time = 0 THEN 0 ELSE @, !.pvel = IF s.time = 0 THEN 0 ELSE @])

\* get_heartbeat: prune_invoices, prune_issued_invoices (by time only), prune_forwarded_payments
\* (an entry is kept while an issued invoice for its hash exists), persist when something was pruned
Heartbeat(s) ==
  LET P1 == {h \in Hs(s) : s.inv[h].amt >= 0 /\ s.inv[h].old
                            /\ (s.pay[h].pre \/ Tot(s.pay[h].out) = 0)}
      inv1 == [h \in Hs(s) |-> IF h \in P1 THEN NoInv ELSE s.inv[h]]
      pay1 == [h \in Hs(s) |-> IF h \in P1 THEN NoPay(Cs(s)) ELSE s.pay[h]]
      PI == {h \in Hs(s) : s.iss[h].amt > 0 /\ s.iss[h].old}
      iss1 == [h \in Hs(s) |-> IF h \in PI THEN NoIss ELSE s.iss[h]]
      P2 == {h \in Hs(s) : inv1[h].amt < 0 /\ iss1[h].amt = 0 /\ pay1[h].has
                            /\ Tot(pay1[h].in) = 0 /\ Tot(pay1[h].out) = 0}
      pay2 == [h \in Hs(s) |-> IF h \in P2 THEN NoPay(Cs(s)) ELSE pay1[h]]
      s2 == [s EXCEPT !.inv = inv1, !.iss = iss1, !.pay = pay2] IN
  IF P1 \cup PI \cup P2 = {} THEN Ok(s) ELSE Ok(Persist(s2))

\* restart: the node entry gives invoices, issued invoices, the velocity control (as last persisted) and preimages; every invoice gets a NEW payment
\* entry (the restored preimage of an invoiced hash is dropped); every channel then rebuilds
\* its part from its CURRENT commitments (restore_payments; a pending next holder commitment
\* is not counted)
RECURSIVE RestoreChans(_, _, _)
RestoreChans(pay, s, S) ==
  IF S = {} THEN pay
  ELSE LET c == CHOOSE y \in S : TRUE IN
       RestoreChans(Apply(pay, c, InSum(s.ch[c], NoneC, NoneC, Hs(s)),
                          OutSum(s.ch[c], NoneC, NoneC, Hs(s))), s, S \ {c})
Restart(s) ==
  LET pay0 == [h \in Hs(s) |-> IF s.inv[h].amt >= 0 THEN Fresh(Cs(s))
                               ELSE IF s.ppre[h] THEN [Fresh(Cs(s)) EXCEPT !.pre = TRUE]
                               ELSE NoPay(Cs(s))] IN
  Ok([s EXCEPT !.pay = RestoreChans(pay0, s, Cs(s)), !.iss = s.piss, !.vel = s.pvel])

Step(s, r, k) ==
  CASE r.op = "SignCp"              -> SignCp(s, r.ch, r.c, k)
    [] r.op = "SignCpRetry"         -> SignCpRetry(s, r.ch, k)
    [] r.op = "ValidateHolder"      -> ValidateHolder(s, r.ch, r.c, k)
    [] r.op = "ValidateHolderRetry" -> ValidateHolderRetry(s, r.ch, k)
    [] r.op = "Revoke"              -> Revoke(s, r.ch, k)
    [] r.op = "AddInvoice"          -> AddInvoice(s, r.h, r.a, k)
    [] r.op = "DeclineInvoice"      -> DeclineInvoice(s, r.h, r.a)
    [] r.op = "ExpiredInvoice"      -> ExpiredInvoice(s, r.h, r.a)
    [] r.op = "AddKeysend"          -> AddKeysend(s, r.h, r.a, k)
    [] r.op = "IssueInvoice"        -> IssueInvoice(s, r.h, r.a)
    [] r.op = "Fulfill"             -> Fulfill(s, r.h)
    [] r.op = "Tick"                -> Tick(s)
    [] r.op = "Heartbeat"           -> Heartbeat(s)
    [] r.op = "Restart"             -> Restart(s)
    [] OTHER                        -> Err(s)

(***************************************************************************)
(* Ghost ledger, from observations only: the contents of the ACCEPTED       *)
(* updates per channel (H current holder, X validated and pending, C        *)
(* current counterparty), the approved amount per hash (the amount of the   *)
(* accepted registration request, for as long as the signer reports the     *)
(* approval as registered; -1 = none, 0 = an amountless invoice / a keysend *)
(* of 0, which approves nothing), the hashes seen in accepted updates.      *)
(* An approval request that the signer DECLINES (answer Ok(false): the      *)
(* approver said no, or the payment velocity limit would be exceeded) or    *)
(* refuses (a different invoice for the hash, an expired invoice) approves  *)
(* nothing: appr[h] stays -1 and clause (b) keeps applying to the hash.     *)
(*   taint[h]: the approval was registered while the hash was already out   *)
(*   of balance as an uninvoiced payment (TODO(331) tolerance, which the    *)
(*   property excludes): clause (a) is not evaluated for it.                *)
(*   carry[h]: outgoing value that was in flight under an approval when the *)
(*   signer pruned that approval (possible once the payment is fulfilled    *)
(*   and expired, while its HTLC still sits in the commitments).  It was    *)
(*   covered by the pruned approval and is not charged to a later approval  *)
(*   of the same hash; it only shrinks (with the value in flight).          *)
(* mon = "a" | "b" | "ab" selects the history that is kept.                 *)
(***************************************************************************)
InitGhost(ChanSet, HashSet) ==
  [ H |-> [c \in ChanSet |-> <<>>], X |-> [c \in ChanSet |-> NoneC], C |-> [c \in ChanSet |-> <<>>],
    appr |-> [h \in HashSet |-> -1], taint |-> [h \in HashSet |-> FALSE],
    carry |-> [h \in HashSet |-> 0], seen |-> [h \in HashSet |-> FALSE], bad |-> FALSE ]

\* value in flight from the node / to the node for hash h, all channels, current commitments
GOut(g, h) == SumOver([c \in DOMAIN g.H |-> Max(Amt(g.H[c], "o", h), Amt(g.C[c], "o", h))], DOMAIN g.H)
GIn(g, h)  == SumOver([c \in DOMAIN g.H |-> Min(Amt(g.H[c], "r", h), Amt(g.C[c], "r", h))], DOMAIN g.H)

\* pre / post: the abstract state read back from the implementation before / after the request
Ghost(g, r, resp, pre, post, mon) ==
  LET a == mon \in {"a", "ab"}
      b == mon \in {"b", "ab"}
      newAppr == [h \in DOMAIN g.appr |->
                    IF post.inv[h].amt < 0 THEN -1
                    ELSE IF pre.inv[h].amt < 0 /\ r.op \in {"AddInvoice", "AddKeysend"} /\ r.h = h
                              /\ resp.ok /\ resp.flag = 1 THEN r.a
                    ELSE g.appr[h]]
      g1 == [g EXCEPT !.appr = newAppr,
                      !.taint = [h \in DOMAIN g.taint |->
                                   IF newAppr[h] < 0 THEN FALSE
                                   ELSE IF g.appr[h] < 0 THEN a /\ GOut(g, h) > GIn(g, h)
                                   ELSE g.taint[h]]]
      unbacked(x) == \E h \in DOMAIN g.appr :
                        /\ g.appr[h] <= 0 /\ ~g.seen[h]      \* no approval, or an approval of amount 0
                        /\ Amt(x, "o", h) > Amt(x, "r", h)
      sees(x) == [h \in DOMAIN g.seen |-> g.seen[h] \/ (b /\ h \in HashesOf(x))]
      g2 == IF ~resp.ok THEN g1
            ELSE CASE r.op = "SignCp" ->
                        [g1 EXCEPT !.C[r.ch] = IF a THEN r.c ELSE @, !.seen = sees(r.c),
                                   !.bad = @ \/ (b /\ unbacked(r.c))]
                   [] r.op = "ValidateHolder" ->
                        [g1 EXCEPT !.X[r.ch] = IF a THEN Cont(r.c) ELSE @, !.seen = sees(r.c),
                                   !.bad = @ \/ (b /\ unbacked(r.c))]
                   [] r.op = "Revoke" ->
                        IF a /\ g.X[r.ch].some
                        THEN [g1 EXCEPT !.H[r.ch] = g.X[r.ch].htlcs, !.X[r.ch] = NoneC] ELSE g1
                   [] OTHER -> g1
  IN
  [g2 EXCEPT !.carry = [h \in DOMAIN g.carry |->
                          IF ~a THEN 0
                          ELSE IF g.appr[h] >= 0 /\ newAppr[h] < 0 THEN GOut(g, h)
                          ELSE Min(g.carry[h], GOut(g2, h))]]

(***************************************************************************)
(* C06                                                                     *)
(* (a) for every hash with an approved invoice / keysend: the value in      *)
(*     flight towards it over all channels <= value in flight to the node   *)
(*     for it + approved amount + routing-fee allowance                     *)
(* (b) no accepted update carries outgoing value for a hash without         *)
(*     approval that was never seen before, beyond the incoming value the   *)
(*     same update carries for that hash                                    *)
(***************************************************************************)
Inv_C06a(g, k) == \A h \in DOMAIN g.appr :
                    (g.appr[h] >= 0 /\ ~g.taint[h]) => GOut(g, h) <= GIn(g, h) + g.appr[h] + k.fee + g.carry[h]
Inv_C06b(g)    == ~g.bad
Overpaid(g, k) == {h \in DOMAIN g.appr : g.appr[h] >= 0 /\ ~g.taint[h]
                                           /\ GOut(g, h) > GIn(g, h) + g.appr[h] + k.fee + g.carry[h]}

(***************************************************************************)
(* Request alphabets / case matrices (the single source of what the        *)
(* harness explores).  A configuration names the channels, the hashes, the  *)
(* contents each channel may be offered, the node-level requests and the    *)
(* policy's payment velocity limit (vlim, in units; absent = unlimited).    *)
(***************************************************************************)
O(h, a) == [d |-> "o", h |-> h, a |-> a]
R(h, a) == [d |-> "r", h |-> h, a |-> a]

ChanReqs(c, contents, retries) ==
       {[op |-> "SignCp", ch |-> c, c |-> x] : x \in contents}
  \cup {[op |-> "ValidateHolder", ch |-> c, c |-> x] : x \in contents}
  \cup {[op |-> "Revoke", ch |-> c]}
  \cup (IF retries THEN {[op |-> "SignCpRetry", ch |-> c], [op |-> "ValidateHolderRetry", ch |-> c]} ELSE {})

Config0(name) ==
  CASE name = "pay" ->        \* paying an invoice over two channels, overpayment attempts
         [chans |-> {"c1", "c2"}, hashes |-> {"h1"},
          reqs |-> ChanReqs("c1", {<<>>, <<O("h1", 1)>>, <<O("h1", 2)>>, <<O("h1", 1), O("h1", 1)>>}, FALSE)
              \cup ChanReqs("c2", {<<>>, <<O("h1", 1)>>, <<O("h1", 2)>>}, FALSE)
              \cup {[op |-> "AddInvoice", h |-> "h1", a |-> 1], [op |-> "DeclineInvoice", h |-> "h1", a |-> 1],
                    [op |-> "AddInvoice", h |-> "h1", a |-> 0], [op |-> "AddKeysend", h |-> "h1", a |-> 0],
                    [op |-> "Fulfill", h |-> "h1"], [op |-> "Heartbeat"], [op |-> "Restart"]}]
    [] name = "parts" ->      \* multi-part payments, two invoice amounts, keysend, retries, pruning
         [chans |-> {"c1", "c2"}, hashes |-> {"h1"},
          reqs |-> ChanReqs("c1", {<<>>, <<O("h1", 1)>>, <<O("h1", 1), O("h1", 1)>>}, TRUE)
              \cup ChanReqs("c2", {<<>>, <<O("h1", 1)>>}, TRUE)
              \cup {[op |-> "AddInvoice", h |-> "h1", a |-> 2], [op |-> "AddKeysend", h |-> "h1", a |-> 1],
                    [op |-> "Fulfill", h |-> "h1"], [op |-> "Tick"], [op |-> "Heartbeat"], [op |-> "Restart"]}]
    [] name \in {"issue", "issuex"} ->  \* the node's own (issued) invoices: no allowance for outgoing value;
                                        \* receiving; restart before they were persisted; "issuex": expiry too
         [chans |-> {"c1", "c2"}, hashes |-> {"h1"},
          reqs |-> ChanReqs("c1", {<<>>, <<O("h1", 1)>>, <<R("h1", 1)>>}, FALSE)
              \cup ChanReqs("c2", {<<>>, <<O("h1", 1)>>}, FALSE)
              \cup {[op |-> "IssueInvoice", h |-> "h1", a |-> 1],
                    [op |-> "AddInvoice", h |-> "h1", a |-> 1], [op |-> "Heartbeat"], [op |-> "Restart"]}
              \cup (IF name = "issuex" THEN {[op |-> "IssueInvoice", h |-> "h1", a |-> 2], [op |-> "Tick"],
                                             [op |-> "AddInvoice", h |-> "h1", a |-> 0]} ELSE {})]
    [] name = "route" ->      \* forwarding: incoming on c1 covers outgoing on c2; unbacked attempts
         [chans |-> {"c1", "c2"}, hashes |-> {"h1"},
          reqs |-> ChanReqs("c1", {<<>>, <<R("h1", 1)>>, <<R("h1", 2)>>}, FALSE)
              \cup ChanReqs("c2", {<<>>, <<O("h1", 1)>>, <<O("h1", 2)>>}, FALSE)
              \cup {[op |-> "AddInvoice", h |-> "h1", a |-> 1], [op |-> "Heartbeat"], [op |-> "Restart"]}]
    [] name = "loop" ->       \* one channel carries both directions; second hash; keysend
         [chans |-> {"c1", "c2"}, hashes |-> {"h1", "h2"},
          reqs |-> ChanReqs("c1", {<<>>, <<O("h1", 1), R("h1", 1)>>, <<R("h1", 1)>>}, FALSE)
              \cup ChanReqs("c2", {<<>>, <<O("h1", 2)>>, <<O("h1", 1), O("h2", 1)>>}, FALSE)
              \cup {[op |-> "AddInvoice", h |-> "h1", a |-> 1], [op |-> "AddKeysend", h |-> "h2", a |-> 1],
                    [op |-> "Restart"]}]
    [] name = "three" ->      \* three channels: two may pay the invoice, the third brings value in
         [chans |-> {"c1", "c2", "c3"}, hashes |-> {"h1"},
          reqs |-> ChanReqs("c1", {<<>>, <<O("h1", 1)>>}, FALSE)
              \cup ChanReqs("c2", {<<>>, <<O("h1", 1)>>}, FALSE)
              \cup ChanReqs("c3", {<<>>, <<R("h1", 1)>>}, FALSE)
              \cup {[op |-> "AddInvoice", h |-> "h1", a |-> 1], [op |-> "Restart"]}]
    [] name \in {"vel", "velx"} ->   \* a finite payment velocity limit of ONE unit per window: the second approval
                                      \* (and, "velx", an approval larger than the limit) is DECLINED by the node
                                      \* (Ok(false), nothing registered); outgoing HTLCs for the declined hash with
                                      \* and without the approval; the sibling refusals of an approval (a different
                                      \* invoice / a keysend for an approved hash, an expired invoice); the orphan
                                      \* pruning of a heartbeat and a restart in between; "velx": the window passing
                                      \* (Tick: the declined approval is then granted), an amountless keysend
         [chans |-> {"c1", "c2"}, hashes |-> {"h1", "h2"}, vlim |-> 1,
          reqs |-> ChanReqs("c1", {<<>>, <<O("h1", 1)>>, <<O("h2", 1)>>}, FALSE)
              \cup ChanReqs("c2", {<<>>, <<O("h2", 1)>>}, FALSE)
              \cup {[op |-> "AddInvoice", h |-> "h1", a |-> 1], [op |-> "AddInvoice", h |-> "h2", a |-> 1],
                    [op |-> "AddKeysend", h |-> "h2", a |-> 1], [op |-> "ExpiredInvoice", h |-> "h2", a |-> 1],
                    [op |-> "Heartbeat"], [op |-> "Restart"]}
              \cup (IF name = "velx" THEN {[op |-> "AddInvoice", h |-> "h1", a |-> 2], [op |-> "AddKeysend", h |-> "h1", a |-> 0],
                                           [op |-> "Tick"]} ELSE {})]
    [] OTHER -> [chans |-> {}, hashes |-> {}, reqs |-> {}]
Config(name) == LET c == Config0(name) IN
  [chans |-> c.chans, hashes |-> c.hashes, reqs |-> c.reqs, vlim |-> IF "vlim" \in DOMAIN c THEN c.vlim ELSE 0]

\* the large alphabet of the simulation leg: every content of at most `parts` HTLCs
HTLCs(HashSet, maxAmt) == {[d |-> d, h |-> h, a |-> a] : d \in {"o", "r"}, h \in HashSet, a \in 1..maxAmt}
=============================================================================
