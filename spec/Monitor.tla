------------------------------- MODULE Monitor -------------------------------
(***************************************************************************)
(* Per-channel chain view of the validating signer:                         *)
(*   vls-core/src/monitor.rs        ChainMonitor / State / PushListener     *)
(*   vls-core/src/chain/tracker.rs  notify_listeners_add / _remove          *)
(*                                  (ListenSlot.watches / .seen)            *)
(* and the part of the environment that decides what the monitor is shown:  *)
(*   txoo SpvProof::build           (which transactions a compact proof     *)
(*                                  built from the signer's own watches     *)
(*                                  contains)                               *)
(*   bitcoin consensus              (a block only spends unspent outputs)   *)
(*                                                                         *)
(* Written "to be bound": the transition function is the pure operator      *)
(*      Step(K, st, req) -> [resp, st]                                      *)
(* over st = [chain, s]; s is the projection of monitor State + ListenSlot; *)
(* req is Connect(block, mode) or Disconnect(mode).  The detection pass     *)
(* (Scan) runs on a temporary copy that is updated with forward changes     *)
(* while the block is scanned; Connect applies the changes forward;         *)
(* Disconnect re-derives the changes FROM THE POST-BLOCK STATE and applies  *)
(* the backward rules - in the order given by the behaviour switch K.rev    *)
(* (FALSE = in forward order, as the code at the pinned commit does).       *)
(*                                                                         *)
(* Property C14:  Inv_C14 : s = Replay(chain)  and no request aborts.       *)
(*                                                                         *)
(* Outpoints are strings "T:v" (transaction name, output index); heights    *)
(* are integers with -1 for None; a closing-outpoints record is flattened   *)
(* into the fields c* with ct = "none" for None.                            *)
(***************************************************************************)
EXTENDS Integers, Sequences, FiniteSets, SequencesExt, TLC

None == "none"
Op(t, v) == t \o ":" \o ToString(v)
SeqToSet(q) == {q[i] : i \in DOMAIN q}

(***************************************************************************)
(* Transaction catalogue.  A transaction is                                 *)
(*   [id, ins, nout, kind, our, htlcs, who, roles]                          *)
(*   ins    sequence of outpoints spent (input order matters: the second-   *)
(*          level outpoint of an HTLC spend is <txid, input index>)         *)
(*   nout   number of outputs                                               *)
(*   kind   "fund" | "plain" | "mutual" | "uni"                             *)
(*          uni = decodes as a commitment transaction of this channel       *)
(*   our    output index paying the holder, -1 if none        (uni only)    *)
(*   htlcs  spendable HTLC output indexes, ascending           (uni only)   *)
(*   who    how the harness builds the real transaction (opaque here)       *)
(*   roles  classification used in finding keys (opaque here)               *)
(***************************************************************************)
T(id, ins, nout, kind, our, htlcs, who, roles) ==
  [id |-> id, ins |-> ins, nout |-> nout, kind |-> kind, our |-> our, htlcs |-> htlcs,
   who |-> who, roles |-> roles]

F == "FUND:0"
\* CA: counterparty's current commitment: 0 our, 1 2 spendable HTLCs, 3 counterparty, 4 unspendable HTLC
\* CB: holder's current commitment:       0 our (delayed), 1 spendable HTLC, 2 counterparty
\* CC: counterparty commitment paying nothing to the holder, no HTLC: 0 counterparty
\* CD: counterparty commitment without holder output: 0 spendable HTLC, 1 counterparty
AllTxs == <<
  T("FUND",  <<"IN:1", "IN:2">>, 1, "fund",   -1, <<>>,     "fund",    <<"fund">>),
  T("DS1",   <<"IN:1">>,         1, "plain",  -1, <<>>,     "plain",   <<"ds">>),
  T("DS2",   <<"IN:2">>,         1, "plain",  -1, <<>>,     "plain",   <<"ds">>),
  T("MC",    <<F>>,              2, "mutual", -1, <<>>,     "mutual",  <<"mutual">>),
  T("CA",    <<F>>,              5, "uni",     0, <<1, 2>>, "cp-a",    <<"uni">>),
  T("CB",    <<F>>,              3, "uni",     0, <<1>>,    "holder-b",<<"uni">>),
  T("CC",    <<F>>,              1, "uni",    -1, <<>>,     "cp-c",    <<"uni">>),
  T("CD",    <<F>>,              2, "uni",    -1, <<0>>,    "cp-d",    <<"uni">>),
  T("SWA",   <<"CA:0">>,         1, "plain",  -1, <<>>,     "plain",   <<"our">>),
  T("HA1",   <<"CA:1">>,         1, "plain",  -1, <<>>,     "plain",   <<"htlc">>),
  T("HA2",   <<"CA:2">>,         1, "plain",  -1, <<>>,     "plain",   <<"htlc">>),
  T("HA12",  <<"CA:1", "CA:2">>, 2, "plain",  -1, <<>>,     "plain",   <<"htlc">>),
  T("XA",    <<"CA:0", "CA:1">>, 2, "plain",  -1, <<>>,     "plain",   <<"our", "htlc">>),
  T("SLA1",  <<"HA1:0">>,        1, "plain",  -1, <<>>,     "plain",   <<"sl">>),
  T("SLA2",  <<"HA2:0">>,        1, "plain",  -1, <<>>,     "plain",   <<"sl">>),
  T("SLA12", <<"HA12:0", "HA12:1">>, 1, "plain", -1, <<>>,  "plain",   <<"sl">>),
  T("SLX",   <<"XA:1">>,         1, "plain",  -1, <<>>,     "plain",   <<"sl">>),
  T("CPA",   <<"CA:3">>,         1, "plain",  -1, <<>>,     "plain",   <<"other">>),
  T("UHA",   <<"CA:4">>,         1, "plain",  -1, <<>>,     "plain",   <<"other">>),
  T("SWB",   <<"CB:0">>,         1, "plain",  -1, <<>>,     "plain",   <<"our">>),
  T("HB1",   <<"CB:1">>,         1, "plain",  -1, <<>>,     "plain",   <<"htlc">>),
  T("SLB1",  <<"HB1:0">>,        1, "plain",  -1, <<>>,     "plain",   <<"sl">>),
  T("HD0",   <<"CD:0">>,         1, "plain",  -1, <<>>,     "plain",   <<"htlc">>),
  T("SLD0",  <<"HD0:0">>,        1, "plain",  -1, <<>>,     "plain",   <<"sl">>),
  T("OTH",   <<"IN:9">>,         1, "plain",  -1, <<>>,     "plain",   <<"other">>) >>

CatIds(name) ==
  CASE name = "q"  -> {"FUND", "DS1", "MC", "CA", "CC", "SWA", "HA1", "SLA1"}
    [] name = "m"  -> {"FUND", "DS1", "DS2", "MC", "CA", "CB", "CC", "SWA", "HA1", "HA2", "SLA1", "SWB", "OTH"}
    [] name = "h"  -> {"FUND", "MC", "CA", "CD", "SWA", "HA1", "HA2", "HA12", "XA", "SLA1", "SLA2", "SLA12",
                       "SLX", "CPA", "UHA", "HD0", "SLD0"}
    [] name = "b"  -> {"FUND", "DS1", "DS2", "MC", "CB", "CC", "SWB", "HB1", "SLB1", "OTH"}
    [] name = "all" -> {AllTxs[i].id : i \in DOMAIN AllTxs}

Catalog(name) == SelectSeq(AllTxs, LAMBDA t : t.id \in CatIds(name))

(***************************************************************************)
(* Configuration record K (constant during a run)                           *)
(*   tx     id -> transaction          ids   sequence of ids (catalogue     *)
(*   fin    funding inputs the signer knows ("funder": it signed the        *)
(*          funding transaction; "fundee": none)                            *)
(*   ftx    funding txid, fvout funding output index                        *)
(*   utxo0  outputs that exist before the first block                       *)
(*   rev    backward changes applied in reverse order (FALSE at HEAD)       *)
(*   mir    backward HTLC / second-level changes mirror the forward         *)
(*          adds/removes (FALSE at HEAD: they are swapped)                  *)
(*   stale  a monitor that is not ready (never saw a block start) keeps the *)
(*          partial decode state of the block stream it joined (FALSE at    *)
(*          HEAD: on_*_streamed_block_end takes it before the early exit)   *)
(***************************************************************************)
MkKS(cat, variant, rev, mir, stale) ==
  LET c == Catalog(cat) IN
  [ tx    |-> [id \in {c[i].id : i \in DOMAIN c} |-> c[CHOOSE i \in DOMAIN c : c[i].id = id]],
    ids   |-> [i \in DOMAIN c |-> c[i].id],
    fin   |-> IF variant = "funder" THEN {"IN:1", "IN:2"} ELSE {},
    ftx   |-> "FUND",
    fvout |-> 0,
    utxo0 |-> {"IN:1", "IN:2", "IN:9"},
    rev   |-> rev,
    mir   |-> mir,
    stale |-> stale ]
MkK(cat, variant, rev, mir) == MkKS(cat, variant, rev, mir, FALSE)

Outs(t) == {Op(t.id, v) : v \in 0..(t.nout - 1)}

(***************************************************************************)
(* Environment: bitcoin consensus.  A block (sequence of ids) is valid on a *)
(* UTXO set iff every transaction only spends unspent outputs.              *)
(***************************************************************************)
ApplyTxUtxo(K, acc, id) ==
  LET t == K.tx[id] IN
  IF acc.ok /\ SeqToSet(t.ins) \subseteq acc.u /\ Cardinality(SeqToSet(t.ins)) = Len(t.ins)
  THEN [ok |-> TRUE, u |-> (acc.u \ SeqToSet(t.ins)) \cup Outs(t)]
  ELSE [ok |-> FALSE, u |-> acc.u]
ApplyBlockUtxo(K, acc, b) == FoldLeft(LAMBDA a, id : ApplyTxUtxo(K, a, id), acc, b)
UtxoOf(K, chain) == FoldLeft(LAMBDA a, b : ApplyBlockUtxo(K, a, b), [ok |-> TRUE, u |-> K.utxo0], chain)
ValidOn(K, chain, b) == ApplyBlockUtxo(K, UtxoOf(K, chain), b).ok
ValidChain(K, chain) == UtxoOf(K, chain).ok

\* what the harness needs to decide enabledness by table lookup
Creator(K, op) == {id \in DOMAIN K.tx : op \in Outs(K.tx[id])}
Needs(K, id) == UNION {Creator(K, K.tx[id].ins[i]) : i \in DOMAIN K.tx[id].ins}
Conflicts(K, id) == {o \in DOMAIN K.tx : o # id /\ SeqToSet(K.tx[o].ins) \cap SeqToSet(K.tx[id].ins) # {}}

\* a block that can be valid on some chain: no conflicts, creators first
Coherent(K, b) ==
  /\ \A i, j \in DOMAIN b : i # j => b[i] # b[j] /\ b[j] \notin Conflicts(K, b[i])
  /\ \A i, j \in DOMAIN b : b[j] \in Needs(K, b[i]) => j < i
RECURSIVE SeqsUpTo(_, _)
SeqsUpTo(S, n) == IF n = 0 THEN {<<>>}
                  ELSE LET P == SeqsUpTo(S, n - 1) IN P \cup {Append(p, x) : p \in {q \in P : Len(q) = n - 1}, x \in S}
Blocks(K, maxTx) == {b \in SeqsUpTo(DOMAIN K.tx, maxTx) : Coherent(K, b)}

(***************************************************************************)
(* The view                                                                *)
(***************************************************************************)
InitView(K) ==
  [ h |-> 0, fh |-> -1, fo |-> None, dsh |-> -1, mch |-> -1, uch |-> -1,
    ct |-> None, cour |-> -1, cos |-> FALSE, cho |-> <<>>, chs |-> <<>>, csl |-> <<>>,
    csh |-> -1, oosh |-> -1, w |-> K.fin, sn |-> {},
    sb |-> FALSE,   \* State.saw_block: a block start or a compact block was seen
    pd |-> <<>> ]   \* ChainMonitor.decode_state between requests: <<>> or <<snapshot of the state it was created from>>

NoClose(s) == [s EXCEPT !.ct = None, !.cour = -1, !.cos = FALSE, !.cho = <<>>, !.chs = <<>>, !.csl = <<>>]

\* ClosingOutpoints::is_all_spent / State::is_closing_swept / is_our_output_swept
ClosingSwept(s) == /\ s.ct # None
                   /\ (s.cour = -1 \/ s.cos)
                   /\ \A i \in DOMAIN s.chs : s.chs[i]
                   /\ \A i \in DOMAIN s.csl : s.csl[i].sp
OurSwept(s) == s.ct # None /\ (s.cour = -1 \/ s.cos)

FirstPos(q, P(_)) == IF \E i \in DOMAIN q : P(q[i])
                     THEN CHOOSE i \in DOMAIN q : P(q[i]) /\ \A j \in 1..(i - 1) : ~P(q[j])
                     ELSE 0

(***************************************************************************)
(* State changes.  [k, a, b, v, l]:                                         *)
(*  FC  a = funding outpoint            FIS a = funding input               *)
(*  UCC a = txid, b = funding outpoint, v = our output index, l = HTLCs     *)
(*  MCC a = txid, b = funding outpoint                                      *)
(*  OOS v = our output index            HOS v = HTLC index, a = 2nd level   *)
(*  SLS a = second-level outpoint                                           *)
(***************************************************************************)
Ch(k, a, b, v, l) == [k |-> k, a |-> a, b |-> b, v |-> v, l |-> l]
R(s, a, r, p) == [s |-> s, a |-> a, r |-> r, p |-> p]

\* State::apply_forward_change
Fwd(s, c) ==
  CASE c.k = "FC"  -> R([s EXCEPT !.fh = s.h, !.fo = c.a, !.dsh = -1], {c.a}, {}, "")
    [] c.k = "FIS" -> R([s EXCEPT !.dsh = IF @ = -1 THEN s.h ELSE @], {}, {c.a}, "")
    [] c.k = "UCC" -> R([s EXCEPT !.uch = s.h, !.ct = c.a, !.cour = c.v, !.cos = FALSE, !.cho = c.l,
                                  !.chs = [i \in DOMAIN c.l |-> FALSE], !.csl = <<>>],
                        (IF c.v >= 0 THEN {Op(c.a, c.v)} ELSE {}) \cup {Op(c.a, c.l[i]) : i \in DOMAIN c.l},
                        {c.b}, "")
    [] c.k = "MCC" -> R([s EXCEPT !.mch = s.h], {}, {c.b}, "")
    [] c.k = "OOS" -> IF s.ct = None THEN R(s, {}, {}, "unwrap of no closing outpoints (our output)")
                      ELSE IF s.cour # c.v THEN R(s, {}, {}, "our output index mismatch")
                      ELSE R([s EXCEPT !.cos = TRUE], {}, {Op(s.ct, c.v)}, "")
    [] c.k = "HOS" -> IF s.ct = None THEN R(s, {}, {}, "unwrap of no closing outpoints (htlc)")
                      ELSE LET i == FirstPos(s.cho, LAMBDA x : x = c.v) IN
                           IF i = 0 THEN R(s, {}, {}, "unknown htlc output")
                           ELSE R([s EXCEPT !.chs[i] = TRUE, !.csl = Append(@, [op |-> c.a, sp |-> FALSE])],
                                  {c.a}, {Op(s.ct, c.v)}, "")
    [] c.k = "SLS" -> IF s.ct = None THEN R(s, {}, {}, "unwrap of no closing outpoints (second level)")
                      ELSE LET i == FirstPos(s.csl, LAMBDA x : x.op = c.a) IN
                           IF i = 0 THEN R(s, {}, {}, "second-level HTLC outpoint")
                           ELSE R([s EXCEPT !.csl[i].sp = TRUE], {}, {c.a}, "")

\* State::apply_backward_change; "the caller will remove the adds and add the removes"
Bwd(K, s, c) ==
  CASE c.k = "FC"  -> IF s.fh # s.h THEN R(s, {}, {}, "funding height assertion")
                      ELSE R([s EXCEPT !.fh = -1, !.fo = None], {c.a}, {}, "")
    [] c.k = "FIS" -> R([s EXCEPT !.dsh = IF @ = s.h THEN -1 ELSE @], {}, {c.a}, "")
    [] c.k = "UCC" -> IF s.uch # s.h THEN R(s, {}, {}, "unilateral closing height assertion")
                      ELSE R(NoClose([s EXCEPT !.uch = -1]),
                             (IF c.v >= 0 THEN {Op(c.a, c.v)} ELSE {}) \cup {Op(c.a, c.l[i]) : i \in DOMAIN c.l},
                             {c.b}, "")
    [] c.k = "MCC" -> R([s EXCEPT !.mch = -1], {}, {c.b}, "")
    [] c.k = "OOS" -> IF s.ct = None THEN R(s, {}, {}, "unwrap of no closing outpoints (our output)")
                      ELSE IF s.cour # c.v THEN R(s, {}, {}, "our output index mismatch")
                      ELSE R([s EXCEPT !.cos = FALSE], {}, {Op(s.ct, c.v)}, "")
    [] c.k = "HOS" -> IF s.ct = None THEN R(s, {}, {}, "unwrap of no closing outpoints (htlc)")
                      ELSE LET i == FirstPos(s.cho, LAMBDA x : x = c.v) IN
                           IF i = 0 THEN R(s, {}, {}, "unknown htlc output")
                           ELSE LET s1 == [s EXCEPT !.chs[i] = FALSE,
                                                    !.csl = SelectSeq(@, LAMBDA x : x.op # c.a)] IN
                                IF K.mir THEN R(s1, {c.a}, {Op(s.ct, c.v)}, "")
                                ELSE R(s1, {Op(s.ct, c.v)}, {c.a}, "")
    [] c.k = "SLS" -> IF s.ct = None THEN R(s, {}, {}, "unwrap of no closing outpoints (second level)")
                      ELSE LET i == FirstPos(s.csl, LAMBDA x : x.op = c.a) IN
                           IF i = 0 THEN R(s, {}, {}, "second-level HTLC outpoint")
                           ELSE IF K.mir THEN R([s EXCEPT !.csl[i].sp = FALSE], {}, {c.a}, "")
                                ELSE R([s EXCEPT !.csl[i].sp = FALSE], {c.a}, {}, "")

(***************************************************************************)
(* Detection (PushListener) on a temporary copy ts of the state.            *)
(* acc = [ts, ch, cl, sh, p]: temporary state, changes so far, "this        *)
(* transaction spends the funding outpoint", HTLC outputs spent by this     *)
(* transaction <<vout, input index>>, panic message.                        *)
(***************************************************************************)
AddCh(acc, c) == LET f == Fwd(acc.ts, c) IN
  [acc EXCEPT !.ts = f.s, !.ch = Append(@, c), !.p = IF @ # "" THEN @ ELSE f.p]

ScanIn(K, acc, n, op) ==
  LET a1 == IF op \in K.fin THEN AddCh(acc, Ch("FIS", op, "", -1, <<>>)) ELSE acc
      a2 == IF a1.ts.fo = op THEN [a1 EXCEPT !.cl = op] ELSE a1
      ts == a2.ts
      iOur == ts.ct # None /\ ts.cour >= 0 /\ op = Op(ts.ct, ts.cour)
      iH   == IF ts.ct = None THEN 0 ELSE FirstPos(ts.cho, LAMBDA x : op = Op(ts.ct, x))
      iSl  == IF ts.ct = None THEN 0 ELSE FirstPos(ts.csl, LAMBDA x : x.op = op)
      a3 == IF iOur THEN AddCh(a2, Ch("OOS", "", "", ts.cour, <<>>))
            ELSE IF iH # 0 THEN [a2 EXCEPT !.sh = Append(@, <<ts.cho[iH], n - 1>>)]
            ELSE IF iSl # 0 THEN AddCh(a2, Ch("SLS", op, "", -1, <<>>))
            ELSE a2
  IN IF a3.cl # "" /\ n # 1 /\ a3.p = "" THEN [a3 EXCEPT !.p = "closing tx must have only one input"] ELSE a3

ScanTx(K, acc0, id) ==
  LET t  == K.tx[id]
      a0 == [acc0 EXCEPT !.cl = "", !.sh = <<>>]
      a1 == FoldLeft(LAMBDA acc, n : ScanIn(K, acc, n, t.ins[n]), a0, [n \in DOMAIN t.ins |-> n])
      a2 == IF id = K.ftx
            THEN IF K.fvout >= t.nout
                 THEN [a1 EXCEPT !.p = IF @ # "" THEN @ ELSE "funding output index out of range"]
                 ELSE AddCh(a1, Ch("FC", Op(id, K.fvout), "", -1, <<>>))
            ELSE a1
      a3 == IF a2.cl # ""
            THEN IF t.kind = "uni" THEN AddCh(a2, Ch("UCC", id, a2.cl, t.our, t.htlcs))
                 ELSE AddCh(a2, Ch("MCC", id, a2.cl, -1, <<>>))
            ELSE a2
  IN FoldLeft(LAMBDA acc, x : AddCh(acc, Ch("HOS", Op(id, x[2]), "", x[1], <<>>)), a3, a3.sh)

Scan(K, s, txs) ==
  FoldLeft(LAMBDA acc, id : IF acc.p # "" THEN acc ELSE ScanTx(K, acc, id),
           [ts |-> s, ch |-> <<>>, cl |-> "", sh |-> <<>>, p |-> ""], txs)

(***************************************************************************)
(* What the monitor is shown.  Streamed: the whole block.  Compact: the     *)
(* transactions a TXOO SPV proof built from the signer's own watches        *)
(* contains (forward watches for a connect, watches + seen for a            *)
(* disconnect): spends of watched outpoints, watched txids, and spends of   *)
(* outputs of matched transactions later in the block.                      *)
(***************************************************************************)
SpvMatch(K, b, W) ==
  FoldLeft(LAMBDA acc, id :
             LET t == K.tx[id]
                 hit == id = K.ftx \/ SeqToSet(t.ins) \cap acc.w # {} IN
             IF hit THEN [w |-> (acc.w \ SeqToSet(t.ins)) \cup Outs(t), out |-> Append(acc.out, id)]
             ELSE acc,
           [w |-> W, out |-> <<>>], b).out

Delivered(K, s, b, dir, m) ==
  IF m = "streamed" THEN b
  ELSE SpvMatch(K, b, IF dir = "C" THEN s.w ELSE s.w \cup s.sn)

(***************************************************************************)
(* Connect = ChainTracker::add_block -> on_add_block[_streamed_end] ->      *)
(*           State::on_add_block_end ; notify_listeners_add bookkeeping     *)
(***************************************************************************)
\* The block is scanned on a copy of the state: for a compact block a copy taken now
\* (push_transactions), for a streamed block the copy on_push made at the first push event of the
\* stream - or a LEFT-OVER copy if one was never consumed (get_or_insert_with re-uses it).
\* Either way the monitor has then seen a block; a streamed block end consumes the copy.
ScanBase(s, m) == IF m = "streamed" /\ s.pd # <<>> THEN [s.pd[1] EXCEPT !.w = s.w, !.sn = s.sn] ELSE s
After(s, m) == [s EXCEPT !.sb = TRUE, !.pd = IF m = "streamed" THEN <<>> ELSE @]

Connect(K, s, txs, m) ==
  LET sc   == Scan(K, ScanBase(s, m), txs)
      wasC == ClosingSwept(s)
      wasO == OurSwept(s)
      ap   == FoldLeft(LAMBDA acc, c : IF acc.p # "" THEN acc
                                       ELSE LET f == Fwd(acc.s, c) IN R(f.s, acc.a \cup f.a, acc.r \cup f.r, f.p),
                       R([s EXCEPT !.h = s.h + 1], {}, {}, sc.p), sc.ch)
      s2   == ap.s
      s3   == [s2 EXCEPT !.csh  = IF ~wasC /\ ClosingSwept(s2) THEN s2.h ELSE @,
                         !.oosh = IF ~wasO /\ OurSwept(s2) THEN s2.h ELSE @]
  IN IF ap.p # "" THEN [resp |-> "panic", s |-> s, why |-> ap.p]
     ELSE [resp |-> "ok", s |-> After([s3 EXCEPT !.w = (@ \cup ap.a) \ ap.r, !.sn = @ \cup ap.r], m), why |-> ""]

(***************************************************************************)
(* Disconnect = ChainTracker::remove_block -> on_remove_block[...] ->       *)
(*              State::on_remove_block_end ; notify_listeners_remove        *)
(* The scan runs on the post-block state; the change list is applied with   *)
(* the backward rules in forward order unless K.rev.                        *)
(***************************************************************************)
Disconnect(K, s, txs, m) ==
  LET sc   == Scan(K, ScanBase(s, m), txs)
      wasC == ClosingSwept(s)
      wasO == OurSwept(s)
      chs  == IF K.rev THEN Reverse(sc.ch) ELSE sc.ch
      ap   == FoldLeft(LAMBDA acc, c : IF acc.p # "" THEN acc
                                       ELSE LET f == Bwd(K, acc.s, c) IN R(f.s, acc.a \cup f.a, acc.r \cup f.r, f.p),
                       R(s, {}, {}, sc.p), chs)
      s2   == ap.s
      s3   == [s2 EXCEPT !.csh  = IF wasC /\ ~ClosingSwept(s2) THEN -1 ELSE @,
                         !.oosh = IF wasO /\ ~OurSwept(s2) THEN -1 ELSE @,
                         !.h = @ - 1]
  IN IF ap.p # "" THEN [resp |-> "panic", s |-> s, why |-> ap.p]
     ELSE [resp |-> "ok", s |-> After([s3 EXCEPT !.sn = @ \ ap.r, !.w = (@ \cup ap.r) \ ap.a], m), why |-> ""]

(***************************************************************************)
(* Requests:  [op |-> "C", b |-> block, m |-> mode]  /  [op |-> "D", m]     *)
(***************************************************************************)
ReqC(b, m) == [op |-> "C", b |-> b, m |-> m]
ReqD(m)    == [op |-> "D", b |-> <<>>, m |-> m]

Enabled(K, st, req) == IF req.op = "C" THEN ValidOn(K, st.chain, req.b) ELSE Len(st.chain) > 0

Step(K, st, req) ==
  IF req.op = "C"
  THEN LET o == Connect(K, st.s, Delivered(K, st.s, req.b, "C", req.m), req.m) IN
       [resp |-> o.resp, why |-> o.why,
        st |-> IF o.resp = "ok" THEN [chain |-> Append(st.chain, req.b), s |-> o.s] ELSE st]
  ELSE LET b == st.chain[Len(st.chain)]
           o == Disconnect(K, st.s, Delivered(K, st.s, b, "D", req.m), req.m) IN
       [resp |-> o.resp, why |-> o.why,
        st |-> IF o.resp = "ok" THEN [chain |-> SubSeq(st.chain, 1, Len(st.chain) - 1), s |-> o.s] ELSE st]

InitSt(K) == [chain |-> <<>>, s |-> InitView(K)]

(***************************************************************************)
(* A channel set up IN THE MIDDLE of a streamed block b1 (its listener is   *)
(* added to the tracker between two BlockChunk messages).  on_push creates  *)
(* a decode state for the new monitor from its initial state, the remaining *)
(* push events are ignored (no block start seen: is_not_ready_for_push),    *)
(* and on_add_streamed_block_end takes the decode state and bails out       *)
(* because saw_block is false: the monitor keeps its initial view - in      *)
(* particular its height, which from then on is one less than the           *)
(* tracker's - and (at HEAD) no decode state is left behind.                *)
(***************************************************************************)
InitStLate(K, b1) ==
  [chain |-> <<b1>>,
   s |-> [InitView(K) EXCEPT !.pd = IF K.stale THEN <<InitView(K)>> ELSE <<>>]]

\* the view obtained by connecting only the blocks of the chain, in order (ms: delivery per block)
ReplayM(K, chain, ms) ==
  FoldLeft(LAMBDA acc, i : IF acc.ok
                           THEN LET o == Connect(K, acc.s, Delivered(K, acc.s, chain[i], "C", ms[i]), ms[i]) IN
                                [ok |-> o.resp = "ok", s |-> o.s]
                           ELSE acc,
           [ok |-> TRUE, s |-> InitView(K)], [i \in DOMAIN chain |-> i])
Replay(K, chain, m) == ReplayM(K, chain, [i \in DOMAIN chain |-> m])

\* What C14 compares.  Exact: everything but the readiness flag and the (unobservable) decode state.
\* Late: a channel set up during block b1 is compared with one set up before b1; its height lags by
\* one, so heights are compared as depths below the monitor's own height.
Dep(s, x) == IF x = -1 THEN -1 ELSE s.h - x
PV(s) == [s EXCEPT !.sb = FALSE, !.pd = <<>>]
NV(s) == [PV(s) EXCEPT !.h = 0, !.fh = Dep(s, @), !.dsh = Dep(s, @), !.mch = Dep(s, @), !.uch = Dep(s, @),
                       !.csh = Dep(s, @), !.oosh = Dep(s, @)]
Cmp(late, s) == IF late THEN NV(s) ELSE PV(s)

\* C14 as a state predicate of the model
Inv_C14L(K, st, aborted, late) ==
  /\ ~aborted
  /\ LET r == Replay(K, st.chain, "streamed") IN r.ok /\ Cmp(late, r.s) = Cmp(late, st.s)
  /\ LET r == Replay(K, st.chain, "compact") IN r.ok /\ Cmp(late, r.s) = Cmp(late, st.s)
Inv_C14(K, st, aborted) == Inv_C14L(K, st, aborted, FALSE)

\* names of the view fields that differ (for reports)
Fields == <<"h", "fh", "fo", "dsh", "mch", "uch", "ct", "cour", "cos", "cho", "chs", "csl", "csh", "oosh", "w", "sn">>
DiffFields(a, b) == SelectSeq(Fields, LAMBDA f : a[f] # b[f])
=============================================================================
