-------------------------- MODULE MC_CommitPolicy --------------------------
(***************************************************************************)
(* Leg A of C05 and the CASE ENUMERATOR.                                    *)
(*                                                                         *)
(* TLC enumerates the finite matrix of edge classes of CommitPolicy.tla     *)
(* (bound-1 / bound / bound+1 of every rule, typical values, u64 / u32      *)
(* extremes, every single-field mutation of a good commitment, selected     *)
(* pairs, every policy-filter shape around the rules a case breaks), CHOOSES *)
(* the concrete numbers of every case (BigNat arithmetic below), writes the *)
(* cases as ndjson (IOEnv.CP_OUT) for the harness, and model-checks the      *)
(* life cycle of every case on the code-shaped model: one behaviour          *)
(* stub -> ready -> opened -> chained [-> pending [-> advanced] -> chained2] *)
(* -> done per case; invariant C05.                                          *)
(* A violation here is a HYPOTHESIS about the code (the model is code-       *)
(* shaped), it becomes a finding only when ImplCommitPolicy reproduces it on *)
(* the recorded behaviour of the real crates.                               *)
(*                                                                         *)
(* IOEnv: CP_TIER "quick" | "thorough", CP_OUT, CP_WRAP_FEERATE "true" |     *)
(* "false" (behaviour switch of the model, spec/switches_commitpolicy.json) *)
(***************************************************************************)
EXTENDS CommitPolicy, Json, IOUtils, SequencesExt

Thorough == IOEnv.CP_TIER = "thorough"
Sw == [wrapFeerate |-> IOEnv.CP_WRAP_FEERATE = "true"]

(***************************************************************************)
(* Symbolic specs of the numbers of a draft; Finish resolves them.          *)
(***************************************************************************)
A(v)        == [t |-> "abs", a |-> v, d |-> 0]
AI(n)       == A(N(n))
ABSORB      == [t |-> "absorb", a |-> Z, d |-> 0]      \* channel value - everything else - fee
ABSORB64    == [t |-> "absorb64", a |-> Z, d |-> 0]    \* the same + 2^64: the sum wraps to a good one
DUST(d)     == [t |-> "dust", a |-> Z, d |-> d]        \* trim threshold of this HTLC + d
TOP(k)      == [t |-> "top", a |-> Z, d |-> k]         \* u64::MAX - k
PUSH(d)     == [t |-> "push", a |-> Z, d |-> d]        \* push_msat / 1000 + d
FR(rate, d) == [t |-> "rate", a |-> rate, d |-> d]     \* fee = rate * weight / 1000 + d
FIMPL       == [t |-> "implied", a |-> Z, d |-> 0]     \* whatever the explicit outputs leave
FW32(r)     == [t |-> "wrap32", a |-> r, d |-> 0]      \* true rate 2^32 + r: the u32 cast gives r
FW64(r)     == [t |-> "wrap64", a |-> r, d |-> 0]      \* fee * 1000 + 999 wraps (mod 2^64) to rate r
FVT(k)      == [t |-> "vtop", a |-> Z, d |-> k]        \* channel value u64::MAX - k
CA(v)       == [t |-> "abs", a |-> v, d |-> 0]
CR(d)       == [t |-> "rel", a |-> Z, d |-> d]         \* height at the request + d
HT(v, c)    == [v |-> v, c |-> c, h |-> -1]           \* payment hash: the one of its position (distinct)
HTH(v, c, h) == [v |-> v, c |-> c, h |-> h]           \* payment hash number h of its direction
SAME        == [t |-> "same", a |-> Z, d |-> 0]       \* (adv histories) the expiry it had in the first commitment

AddI(a, d) == IF d >= 0 THEN Add(a, N(d)) ELSE Monus(a, N(-d))
BigL(a)    == ToString(ToInt(a, -1))
SpecL(s)   == s.t \o "(" \o BigL(s.a) \o "," \o ToString(s.d) \o ")"

ResAmt(sp, X, dust) ==
  CASE sp.t = "abs"  -> sp.a
    [] sp.t = "dust" -> AddI(dust, sp.d)
    [] sp.t = "top"  -> Sub(U64MAX, N(sp.d))
    [] sp.t = "push" -> AddI(Div(X.push_msat, 1000), sp.d)
    [] OTHER -> Z
ResCltv(sp, X) == IF sp.t = "abs" THEN sp.a ELSE N(X.chain.h0 + X.chain.blocks + sp.d)
ResHtlcs(hs, X, dust) ==
  [i \in 1..Len(hs) |-> [v |-> ResAmt(hs[i].v, X, dust), cltv |-> ResCltv(hs[i].c, X),
                          h |-> IF hs[i].h < 0 THEN i - 1 ELSE hs[i].h]]
IsAbs(sp) == sp.t \in {"absorb", "absorb64"}

INV125 == <<9781, 5546, 3362, 6035, 206>>                  \* 125^-1 mod 2^61
ASSUME ModPow2(MulInt(INV125, 125), 61) = N(1)
Wrap32Fee(r, w) == CeilDiv(MulInt(Add(Pow2(32), r), w), 1000)
Wrap64Fee(r, w) ==
  LET x0 == MulInt(r, w)
      x  == Add(x0, N((15 - DivMod(x0, 8).r) % 8))         \* smallest x >= r*w with x = 7 mod 8
      y  == ModPow2(Div(Sub(Add(x, Pow2(64)), N(999)), 8), 61)
  IN Add(ModPow2(Mul(y, INV125), 61), MulInt(Pow2(61), 6))
FeeOf(fs, w) ==
  CASE fs.t = "rate"   -> AddI(Div(MulInt(fs.a, w), 1000), fs.d)
    [] fs.t = "wrap32" -> Wrap32Fee(fs.a, w)
    [] fs.t = "wrap64" -> Wrap64Fee(fs.a, w)
    [] OTHER -> Z
\* the arithmetic above does what it says
ASSUME LET f == Wrap32Fee(N(1000), 724) IN
         ModPow2(Div(ModPow2(Add(MulInt(f, 1000), N(999)), 64), 724), 32) \in {N(1000), N(1001), N(1002)}
ASSUME LET f == Wrap64Fee(N(1000), 1124) IN
         /\ FitsU64(f)
         /\ ModPow2(Div(ModPow2(Add(MulInt(f, 1000), N(999)), 64), 1124), 32) = N(1000)

(***************************************************************************)
(* Contexts, drafts and patches.                                            *)
(*  X = [pol, ctype, outbound, push_msat, hdelay, cdelay, value, chain,     *)
(*       side, n]                                                           *)
(*  D = [feerate, hv, cv, offh, rcvh, fee]  in HOLDER terms (hv to holder,  *)
(*       offh offered by the holder); an HTLC draft is HT(value, expiry)    *)
(*       (its payment hash is the one of its position: all distinct) or     *)
(*       HTH(value, expiry, h) (explicit hash number: parts of one payment) *)
(***************************************************************************)
V0    == N(3000000)
PUSH0 == N(5000999)
ChainOK == [h0 |-> 0, blocks |-> 3, fund_at |-> 1, close_at |-> 0]
Strict == << >>
BasePol == [vk |-> "simple", min_delay |-> 5, max_delay |-> 20, max_chan |-> N(10000000),
            max_htlcs |-> 3, max_inflight |-> N(100000), use_chain |-> FALSE,
            min_fr |-> N(253), max_fr |-> N(25000), filter |-> Strict]
PolOn    == [BasePol EXCEPT !.vk = "onchain"]
PolUse   == [BasePol EXCEPT !.use_chain = TRUE]
PolOnUse == [BasePol EXCEPT !.vk = "onchain", !.use_chain = TRUE]
PolBig   == [BasePol EXCEPT !.max_chan = U64MAX]
PolWide  == [BasePol EXCEPT !.min_fr = Z, !.max_fr = U32MAX, !.max_inflight = U64MAX, !.max_htlcs = 6]
PolTight == [BasePol EXCEPT !.max_htlcs = 2, !.max_inflight = N(50000), !.min_fr = N(1000),
                            !.max_fr = N(1100), !.min_delay = 10, !.max_delay = 12]
Ctx(pol, ct, ob, push, value, chain, side, n) ==
  [pol |-> pol, ctype |-> ct, outbound |-> ob, push_msat |-> push,
   hdelay |-> pol.min_delay + 1, cdelay |-> pol.max_delay - 1,
   value |-> value, chain |-> chain, side |-> side, n |-> n]

Blank == [feerate |-> Z, hv |-> ABSORB, cv |-> ABSORB, offh |-> << >>, rcvh |-> << >>, fee |-> FIMPL]
MidRate(pol) == IF Le(pol.min_fr, N(1000)) /\ Ge(pol.max_fr, N(1002)) THEN N(1000) ELSE Add(pol.min_fr, N(2))
RelOK(pol) == (pol.min_delay + pol.max_delay) \div 2
BaseD(X) ==
  IF X.n = 0
    THEN [feerate |-> Z, hv |-> IF X.outbound THEN ABSORB ELSE PUSH(0),
          cv |-> IF X.outbound THEN PUSH(0) ELSE ABSORB,
          offh |-> << >>, rcvh |-> << >>, fee |-> FR(MidRate(X.pol), 0)]
    ELSE [feerate |-> N(1000), hv |-> IF X.outbound THEN ABSORB ELSE AI(200000),
          cv |-> IF X.outbound THEN AI(200000) ELSE ABSORB,
          offh |-> << HT(AI(20000), CR(RelOK(X.pol))) >>, rcvh |-> << HT(AI(30000), CR(RelOK(X.pol))) >>,
          fee |-> FR(MidRate(X.pol), 0)]

\* a patch overrides the fields named in `on`
Patch1(why, f, val) == [why |-> why, on |-> {f}, v |-> [Blank EXCEPT ![f] = val]]
Compose(p, q) == [why |-> p.why \o "+" \o q.why, on |-> p.on \cup q.on,
                  v |-> [f \in DOMAIN Blank |-> IF f \in q.on THEN q.v[f] ELSE p.v[f]]]
Apply(D, p)   == [f \in DOMAIN D |-> IF f \in p.on THEN p.v[f] ELSE D[f]]
NoPatch       == [why |-> "base", on |-> {}, v |-> Blank]
\* fix one main output, the other one absorbs
Main(f, sp) == [why |-> f \o "=" \o SpecL(sp), on |-> {"hv", "cv"},
                v |-> [Blank EXCEPT !.hv = IF f = "hv" THEN sp ELSE ABSORB,
                                    !.cv = IF f = "cv" THEN sp ELSE ABSORB]]
Mains(h, c) == [why |-> "hv=" \o SpecL(h) \o ",cv=" \o SpecL(c), on |-> {"hv", "cv", "fee"},
                v |-> [Blank EXCEPT !.hv = h, !.cv = c, !.fee = FIMPL]]
Hs(k, val, c) == [i \in 1..k |-> HT(AI(val + i), c)]
Shape(X, a, b, val) ==
  [why |-> "htlcs=" \o ToString(a) \o "/" \o ToString(b), on |-> {"offh", "rcvh"},
   v |-> [Blank EXCEPT !.offh = Hs(a, val, CR(RelOK(X.pol))), !.rcvh = Hs(b, val + 500, CR(RelOK(X.pol)))]]
PFee(fs) == Patch1("fee=" \o SpecL(fs), "fee", fs)

(***************************************************************************)
(* The families of patches of a context.                                    *)
(***************************************************************************)
Shapes(X) == IF X.n = 0 THEN {<<0, 0>>}
             ELSE {<<0, 0>>, <<1, 1>>, <<2, 1>>} \cup (IF Thorough THEN {<<3, 0>>, <<0, 3>>, <<1, 0>>} ELSE {})
FeeSpecs(X) ==
     {FR(X.pol.min_fr, d) : d \in -2..2}
  \cup {FR(Add(X.pol.max_fr, N(1)), d) : d \in -2..2}
  \cup (IF IsAnchors(X.ctype) THEN {FR(Add(X.pol.max_fr, N(1)), 2 * ANCHOR_SAT + d) : d \in -1..1} ELSE {})
  \cup {FR(N(1000), 0), FR(Z, 0)}
FamFee(X) == {Compose(Shape(X, s[1], s[2], 20000), PFee(fs)) : s \in Shapes(X), fs \in FeeSpecs(X)}

FamDustMain(X) == {Main(f, AI(x)) : f \in {"hv", "cv"}, x \in {0, 1, CHAN_DUST - 1, CHAN_DUST}}

Feerates == {Z, N(253), N(1000), N(25000)} \cup (IF Thorough THEN {N(3000000), N(7)} ELSE {})
FamDustHtlc(X) ==
  IF X.n = 0 THEN {}
  ELSE {Compose(Patch1("feerate=" \o BigL(fr), "feerate", fr),
                Patch1(who \o "=dust" \o ToString(d), who, << HT(DUST(d), CR(RelOK(X.pol))) >>))
          : fr \in Feerates, who \in {"offh", "rcvh"}, d \in {-1, 0, 1}}
FamFeerate(X) ==
  IF X.n = 0 THEN {}
  ELSE {Patch1("feerate=" \o BigL(fr), "feerate", fr)
          : fr \in {Z, N(252), N(253), N(25000), N(25001), U32MAX}}

FamCount(X) ==
  IF X.n = 0 THEN {}
  ELSE LET m == X.pol.max_htlcs IN
       {Shape(X, s[1], s[2], 10000) : s \in {t \in {<<m, 0>>, <<0, m>>, <<m + 1, 0>>, <<0, m + 1>>, <<1, m>>,
                                                   <<m, 1>>, <<m - 1, 1>>} : t[1] >= 0 /\ t[2] >= 0}}

FamInflight(X) ==
  IF X.n = 0 THEN {}
  ELSE LET T == X.pol.max_inflight
           c == CR(RelOK(X.pol)) IN
         {Compose(Patch1("offh=T" \o ToString(d), "offh", << HT(A(AddI(T, d)), c) >>), Patch1("rcvh=0", "rcvh", << >>))
            : d \in {-1, 0, 1}}
    \cup {Compose(Patch1("rcvh=T" \o ToString(d), "rcvh", << HT(A(AddI(T, d)), c) >>), Patch1("offh=0", "offh", << >>))
            : d \in {-1, 0, 1}}
    \cup {Compose(Patch1("offh=40000", "offh", << HT(AI(40000), c) >>),
                  Patch1("rcvh=T-40000" \o ToString(d), "rcvh", << HT(A(AddI(Monus(T, N(40000)), d)), c) >>))
            : d \in {-1, 0, 1}}
\* sums that do not fit 64 bits
FamOverflow(X) ==
  IF X.n = 0 THEN {Mains(TOP(0), AI(1)), Mains(A(Pow2(63)), A(Pow2(63))), Mains(TOP(0), TOP(0))}
  ELSE LET c == CR(RelOK(X.pol))
           M == Mains(AI(1000000), AI(200000)) IN
         {Compose(M, Patch1("offh=top", "offh", << HT(TOP(0), c) >>)),
          Compose(M, Patch1("rcvh=top", "rcvh", << HT(TOP(0), c) >>)),
          Compose(M, Compose(Patch1("offh=2^63", "offh", << HT(A(Pow2(63)), c) >>),
                             Patch1("rcvh=2^63", "rcvh", << HT(A(Pow2(63)), c) >>))),
          Compose(M, Patch1("rcvh=2^63,2^63", "rcvh", << HT(A(Pow2(63)), c), HT(A(Pow2(63)), c) >>)),
          Mains(TOP(0), AI(200000)), Mains(AI(200000), TOP(0)), Mains(A(Pow2(63)), A(Pow2(63))),
          \* the 64-bit sum wraps around to a perfectly good commitment
          [why |-> "wrapsum-main", on |-> {"hv", "cv"}, v |-> [Blank EXCEPT !.hv = ABSORB64, !.cv = A(Pow2(63))]],
          [why |-> "wrapsum-htlc", on |-> {"hv", "cv", "rcvh"},
           v |-> [Blank EXCEPT !.hv = ABSORB64, !.cv = AI(200000),
                               !.rcvh = << HT(A(Pow2(63)), c), HT(A(Pow2(63)), c) >>]],
          \* more outputs than the channel holds
          Mains(AI(2900000), AI(200000)), Mains(A(Sub(X.value, N(50000))), AI(1000))}

CltvSpecs(X) == {CA(N(MAX_CLTV - 1)), CA(N(MAX_CLTV)), CA(N(MAX_CLTV + 1)), CA(U32MAX), CA(Z),
                 CR(X.pol.min_delay - 1), CR(X.pol.min_delay), CR(X.pol.max_delay), CR(X.pol.max_delay + 1)}
FamCltv(X) ==
  IF X.n = 0 THEN {}
  ELSE {Patch1(who \o "=cltv:" \o SpecL(c), who, << HT(AI(20000), c) >>) : who \in {"offh", "rcvh"}, c \in CltvSpecs(X)}

FamInitial(X) ==
  IF X.n # 0 THEN {}
  ELSE   {Patch1("offh=1", "offh", << HT(AI(20000), CR(10)) >>), Patch1("rcvh=1", "rcvh", << HT(AI(20000), CR(10)) >>)}
    \cup {Main(IF X.outbound THEN "cv" ELSE "hv", PUSH(d)) : d \in {-1, 0, 1}}

\* two rules at once (two cooperating sites)
FamPairs(X) ==
  IF X.n = 0 THEN {}
  ELSE LET m == X.pol.max_htlcs
           c == CR(RelOK(X.pol))
           PA == {Main("cv", AI(CHAN_DUST - 1)), Main("hv", AI(CHAN_DUST - 1)),
                  PFee(FR(Add(X.pol.max_fr, N(1)), 2 * ANCHOR_SAT + 2)), PFee(FR(X.pol.min_fr, -2))}
           PB == {Shape(X, m + 1, 0, 10000),
                  Patch1("offh=cltv-abs", "offh", << HT(AI(20000), CA(N(MAX_CLTV))) >>),
                  Patch1("rcvh=dust-1", "rcvh", << HT(DUST(-1), c) >>),
                  Patch1("offh=dust-1,cltv-abs", "offh", << HT(DUST(-1), CA(N(MAX_CLTV))) >>),
                  Patch1("rcvh=T+1", "rcvh", << HT(A(AddI(X.pol.max_inflight, 1)), c) >>)} IN
       {Compose(p, q) : p \in PA, q \in PB}

\* thorough: every edge of the fee and of the main outputs against every edge of the HTLC fields
\* (the fee depends on the HTLC count through the weight, the trim threshold on the claimed fee rate)
FamCross(X) ==
  IF X.n = 0 \/ ~Thorough THEN {}
  ELSE LET PA == {PFee(fs) : fs \in FeeSpecs(X)} \cup FamDustMain(X)
           PB == FamDustHtlc(X) \cup FamCount(X) \cup FamCltv(X) \cup FamInflight(X) IN
       {Compose(p, q) : p \in PA, q \in PB}

\* thorough: random triples (fee edge x main-output edge x HTLC edge), drawn by TLC's generator
\* (seeded with VERIF_SEED through -seed)
FamRandom(X) ==
  IF X.n = 0 \/ ~Thorough THEN {}
  ELSE LET PA == {PFee(fs) : fs \in FeeSpecs(X)}
           PM == FamDustMain(X) \cup {NoPatch}
           PB == FamDustHtlc(X) \cup FamCount(X) \cup FamCltv(X) \cup FamInflight(X) \cup FamFeerate(X) IN
       {Compose(Compose(RandomElement(PM), RandomElement(PA)), RandomElement(PB)) : j \in 1..120}

\* fees whose rate estimate leaves 32 / 64 bits
FamExtreme(X) ==
  {Compose(Shape(X, s[1], s[2], 20000), PFee(fs))
     : s \in (IF X.n = 0 THEN {<<0, 0>>} ELSE {<<0, 0>>, <<1, 1>>}),
       fs \in {FW32(X.pol.min_fr), FW32(N(1000)), FW32(X.pol.max_fr), FW32(Z), FW32(Add(X.pol.max_fr, N(3))),
               FW64(N(1000)), FW64(X.pol.min_fr), FW64(Z), FVT(0), FVT(1)}}

(***************************************************************************)
(* Finish: resolve the draft to concrete numbers; {} when it cannot exist.  *)
(***************************************************************************)
NoSeq == [on |-> FALSE, adv |-> FALSE, req1 |-> [feerate |-> Z, to_b |-> Z, to_c |-> Z, off |-> << >>, rcv |-> << >>],
          chain2 |-> [h0 |-> 0, blocks |-> 0, fund_at |-> 0, close_at |-> 0]]
ReqOf(side, feerate, hv, cv, offh, rcvh) ==
  IF side = "holder"
    THEN [feerate |-> feerate, to_b |-> hv, to_c |-> cv, off |-> offh, rcv |-> rcvh]
    ELSE [feerate |-> feerate, to_b |-> cv, to_c |-> hv, off |-> rcvh, rcv |-> offh]

\* the initial commitments of the open step: the fundee gets the push, the funder the rest
PreOf(X, value) ==
  LET fee0  == FeeOf(FR(MidRate(X.pol), 0), Weight(X.ctype, 0))
      pushS == Div(X.push_msat, 1000)
      rest  == Monus(value, Add(pushS, fee0))
      hv    == IF X.outbound THEN rest ELSE pushS
      cv    == IF X.outbound THEN pushS ELSE rest
  IN [holder |-> ReqOf("holder", Z, hv, cv, << >>, << >>), cp |-> ReqOf("cp", Z, hv, cv, << >>, << >>)]

SetupOf(X, value) == [ctype |-> X.ctype, outbound |-> X.outbound, value |-> value, push_msat |-> X.push_msat,
                      hdelay |-> X.hdelay, cdelay |-> X.cdelay]

Finish(X, D, fam, why) ==
  LET offDir == IF X.side = "holder" THEN "off" ELSE "rcv"
      rcvDir == IF X.side = "holder" THEN "rcv" ELSE "off"
      offh   == ResHtlcs(D.offh, X, HtlcDust(X.ctype, offDir, D.feerate))
      rcvh   == ResHtlcs(D.rcvh, X, HtlcDust(X.ctype, rcvDir, D.feerate))
      hs     == Add(SumV(offh, 1), SumV(rcvh, 1))
      w      == Weight(X.ctype, Len(offh) + Len(rcvh))
      hv0    == ResAmt(D.hv, X, Z)
      cv0    == ResAmt(D.cv, X, Z)
      derived == D.fee.t \in {"wrap32", "wrap64", "vtop"}
      feeN   == IF derived THEN FeeOf(FR(MidRate(X.pol), 0), w) ELSE FeeOf(D.fee, w)
      need   == Add(Add(Add(hv0, cv0), hs), feeN)
      hasAbs == IsAbs(D.hv) \/ IsAbs(D.cv)
      is64   == D.hv.t = "absorb64" \/ D.cv.t = "absorb64"
      feasible == \/ ~hasAbs
                  \/ ~is64 /\ Le(need, X.value)
                  \/ is64 /\ Gt(need, X.value)
      absVal == IF ~hasAbs \/ ~feasible THEN Z
                ELSE IF is64 THEN Sub(Add(X.value, Pow2(64)), need) ELSE Sub(X.value, need)
      hv     == IF IsAbs(D.hv) THEN absVal ELSE hv0
      cv     == IF IsAbs(D.cv) THEN absVal ELSE cv0
      outs   == Add(Add(hv, cv), hs)
      value  == CASE D.fee.t = "wrap32" -> Add(outs, Wrap32Fee(D.fee.a, w))
                  [] D.fee.t = "wrap64" -> Add(outs, Wrap64Fee(D.fee.a, w))
                  [] D.fee.t = "vtop"   -> Sub(U64MAX, N(D.fee.d))
                  [] OTHER -> X.value
      fits   == /\ FitsU64(value) /\ FitsU64(hv) /\ FitsU64(cv) /\ FitsU32(D.feerate)
                /\ \A i \in 1..Len(offh) : FitsU64(offh[i].v) /\ FitsU32(offh[i].cltv)
                /\ \A i \in 1..Len(rcvh) : FitsU64(rcvh[i].v) /\ FitsU32(rcvh[i].cltv)
  IN IF ~feasible \/ ~fits \/ (IsAbs(D.hv) /\ IsAbs(D.cv)) THEN {}
     ELSE {[id |-> 0, fam |-> fam, why |-> why, kind |-> "commit", pol |-> X.pol, setup |-> SetupOf(X, value),
            chain |-> X.chain, side |-> X.side, n |-> X.n, pre |-> PreOf(X, value), seq |-> NoSeq,
            req |-> ReqOf(X.side, D.feerate, hv, cv, offh, rcvh)]}

CasesOf(X, fam, patches) == UNION {Finish(X, Apply(BaseD(X), p), fam, p.why) : p \in patches}

(***************************************************************************)
(* The matrix.                                                              *)
(***************************************************************************)
Sides  == {"holder", "cp"}
CTypes == {"static", "zerofee"}
StdPols == {BasePol, PolOn, PolUse} \cup (IF Thorough THEN {PolOnUse, PolWide, PolTight} ELSE {})
StdCtx == {Ctx(pol, ct, ob, PUSH0, V0, ChainOK, side, n)
             : pol \in StdPols, ct \in CTypes, ob \in (IF Thorough THEN BOOLEAN ELSE {TRUE}), side \in Sides, n \in {0, 1}}
StdCases ==
  UNION { CasesOf(X, "base", {NoPatch}) \cup CasesOf(X, "fee", FamFee(X)) \cup CasesOf(X, "dustmain", FamDustMain(X))
          \cup CasesOf(X, "dusthtlc", FamDustHtlc(X)) \cup CasesOf(X, "feerate", FamFeerate(X))
          \cup CasesOf(X, "count", FamCount(X)) \cup CasesOf(X, "inflight", FamInflight(X))
          \cup CasesOf(X, "overflow", FamOverflow(X)) \cup CasesOf(X, "cltv", FamCltv(X))
          \cup CasesOf(X, "initial", FamInitial(X)) \cup CasesOf(X, "pairs", FamPairs(X))
          \cup (IF X.pol \in {BasePol, PolOnUse, PolTight} /\ X.outbound THEN CasesOf(X, "cross", FamCross(X)) ELSE {})
          \cup CasesOf(X, "random", FamRandom(X))
          : X \in StdCtx }

\* the initial commitment: who funds, how much is pushed
InitCtx == {Ctx(BasePol, ct, ob, push, V0, ChainOK, side, 0)
              : ct \in CTypes, ob \in BOOLEAN, push \in {Z, N(5000000), PUSH0, N(999)}, side \in Sides}
InitCases == UNION {CasesOf(X, "initial", FamInitial(X) \cup {NoPatch, Main("hv", AI(0)), Main("cv", AI(0))}) : X \in InitCtx}

\* channel size
SizeCtx == {Ctx([BasePol EXCEPT !.max_chan = mc], ct, TRUE, PUSH0, AddI(mc, d), ChainOK, side, 0)
              : mc \in {N(10000000)} \cup (IF Thorough THEN {N(16777215), V0} ELSE {}),
                d \in {-1, 0, 1}, ct \in CTypes, side \in Sides}
SizeCases == UNION {CasesOf(X, "chansize", {NoPatch}) : X \in SizeCtx}

\* the funding output on chain (blocks fed, funding tx in block fund_at, a spend of it in block close_at)
Chains == { [h0 |-> 0, blocks |-> b[1], fund_at |-> b[2], close_at |-> b[3]]
              : b \in {<<0, 0, 0>>, <<2, 0, 0>>, <<1, 1, 0>>, <<3, 1, 0>>, <<3, 3, 0>>, <<3, 1, 3>>, <<3, 1, 2>>, <<4, 2, 3>>} }
ChainCtx == {Ctx(pol, ct, TRUE, PUSH0, V0, ch, side, n)
               : pol \in {BasePol, PolOn, PolOnUse}, ct \in (IF Thorough THEN CTypes ELSE {"static"}),
                 ch \in Chains, side \in Sides, n \in {0, 1}}
ChainCases == UNION {CasesOf(X, "chain", {NoPatch} \cup (IF X.n = 1 /\ X.pol.use_chain THEN FamCltv(X) ELSE {})) : X \in ChainCtx}

\* arithmetic extremes of the fee
ExtCtx == {Ctx(pol, ct, TRUE, Z, V0, ChainOK, side, n)
             : pol \in {BasePol, PolBig} \cup (IF Thorough THEN {[PolBig EXCEPT !.vk = "onchain"], [PolWide EXCEPT !.max_chan = U64MAX]} ELSE {}),
               ct \in CTypes, side \in Sides, n \in {0, 1}}
ExtCases == UNION {CasesOf(X, "extreme", FamExtreme(X)) : X \in ExtCtx}

\* thorough: as many HTLCs as BOLT-2 allows (counts that do not fit 8 bits)
PolMany == [BasePol EXCEPT !.max_htlcs = 483, !.max_inflight = N(10000000)]
ManyCtx == IF ~Thorough THEN {}
           ELSE {Ctx(PolMany, ct, TRUE, PUSH0, V0, ChainOK, side, 1) : ct \in CTypes, side \in Sides}
ManyCases == UNION {CasesOf(X, "many", {Shape(X, s[1], s[2], 1000)
                      : s \in {<<483, 0>>, <<0, 483>>, <<484, 0>>, <<0, 484>>, <<241, 242>>, <<242, 242>>, <<256, 0>>, <<0, 257>>}})
                    : X \in ManyCtx}

\* a commitment is PENDING (validated / signed, nothing revoked) while the chain changes, then the
\* same number is presented again: identical, different but valid, different and invalid.
\* Numbers: 1 = the next one (pending after request1), 2 = look-ahead (holder only), 0 = retry of
\* the current (initial) commitment.  Chain before: funding buried; after: unchanged, a spend of
\* the funding seen in a new block, the funding reorganised out (all blocks / replaced blocks).
SeqChain1 == ChainOK
SeqChains2 == { [h0 |-> 0, blocks |-> b[1], fund_at |-> b[2], close_at |-> b[3]]
                  : b \in {<<3, 1, 0>>, <<4, 1, 4>>, <<0, 0, 0>>, <<3, 0, 0>>} }
SeqBase(X) == IF X.n = 0 THEN BaseD(X) ELSE BaseD([X EXCEPT !.n = 1])
SeqVariants(X) ==
  IF X.n = 0
    THEN {NoPatch, Main("cv", PUSH(-7)), Main("cv", AI(CHAN_DUST - 1))}
    ELSE {NoPatch, Main("cv", AI(210000)), Main("cv", AI(CHAN_DUST - 1)),
          Patch1("rcvh=other", "rcvh", << HT(AI(31000), CR(RelOK(X.pol))) >>)}
SeqCasesOf(X) ==
  UNION { UNION { { [c2 EXCEPT !.kind = "seq", !.seq = [on |-> TRUE, adv |-> FALSE, req1 |-> c1.req, chain2 |-> ch2]]
                    : c2 \in Finish(X, Apply(SeqBase(X), p), "seq",
                                    "n=" \o ToString(X.n) \o "," \o ToString(ch2.blocks) \o "/" \o ToString(ch2.fund_at)
                                      \o "/" \o ToString(ch2.close_at) \o "," \o p.why) }
                  : c1 \in Finish(X, SeqBase(X), "seq", "first") }
          : p \in SeqVariants(X), ch2 \in SeqChains2 }
SeqCtx == {Ctx(pol, ct, TRUE, PUSH0, V0, SeqChain1, side, n)
             : pol \in {BasePol, PolOn} \cup (IF Thorough THEN {PolOnUse, PolUse} ELSE {}),
               ct \in (IF Thorough THEN CTypes ELSE {"static"}), side \in Sides, n \in {0, 1, 2}}
SeqCases == UNION {SeqCasesOf(X) : X \in {Y \in SeqCtx : ~(Y.side = "cp" /\ Y.n = 2)}}

\* two successive commitments: number 1 is accepted and becomes current (the holder revokes
\* commitment 0 / the counterparty's revocation of 0 is validated), then number 2 CARRIES THE SAME
\* HTLC (value, hash, expiry) at another claimed fee rate, so that the HTLC crosses the trim
\* threshold between the two commitments (both directions), or keeps its side of it (controls);
\* a third variant changes the expiry, i.e. presents a new HTLC.  The reference judges number 2
\* on its own contents only.
AdvRates == {<<N(1000), N(2000)>>, <<N(2000), N(1000)>>, <<N(253), N(25000)>>}
           \cup (IF Thorough THEN {<<Z, N(3000)>>, <<N(25000), N(253)>>, <<N(1000), N(1001)>>} ELSE {})
AdvCasesOf(X) ==
  UNION { LET hi   == IF Gt(fr[1], fr[2]) THEN fr[1] ELSE fr[2]
              dir  == IF (who = "offh") = (X.side = "holder") THEN "off" ELSE "rcv"
              v    == AddI(HtlcDust(X.ctype, dir, hi), d)          \* around the threshold at the higher rate
              c    == CR(RelOK(X.pol))
              D1   == [BaseD(X) EXCEPT !.feerate = fr[1], ![who] = << HT(A(v), c) >>]
              D2   == [D1 EXCEPT !.feerate = fr[2], ![who] = << HT(A(v), IF same THEN c ELSE CR(RelOK(X.pol) + 1)) >>]
              why  == who \o ",v=thr(" \o BigL(hi) \o ")" \o ToString(d) \o ",rate " \o BigL(fr[1]) \o "->" \o BigL(fr[2])
                        \o (IF same THEN ",carried" ELSE ",new-expiry") IN
          UNION { { [c2 EXCEPT !.kind = "seq", !.seq = [on |-> TRUE, adv |-> TRUE, req1 |-> c1.req, chain2 |-> X.chain]]
                    : c2 \in Finish(X, D2, "adv", why) }
                  : c1 \in Finish(X, D1, "adv", "first") }
          : fr \in AdvRates, who \in {"offh", "rcvh"}, d \in {-1, 0}, same \in BOOLEAN }
AdvCtx == {Ctx(pol, ct, TRUE, PUSH0, V0, ChainOK, side, 2)
             : pol \in {BasePol, PolOn} \cup (IF Thorough THEN {PolUse} ELSE {}),
               ct \in (IF Thorough THEN CTypes ELSE {"static"}), side \in Sides}
AdvCases == UNION {AdvCasesOf(X) : X \in AdvCtx}

\* two successive commitments and the EXPIRY RANGE: number 1 (HTLC with payment hash 0 of direction
\* `who`, expiry e1, in range) is accepted and becomes current, the chain may move (a block more,
\* the tip disconnected), then number 2 of the same side
\*   "kept"   keeps an HTLC with that hash (expiry e2: unchanged, or another one),
\*   "part"   keeps the HTLC and ADDS another part of the same payment (same hash, expiry e2),
\*   "other"  keeps the HTLC and adds an HTLC with another hash (expiry e2) - the control,
\* with e2 at every edge of the chain-state range [height + min_delay, height + max_delay] at the
\* height of the SECOND request, of the absolute bound, and "unchanged" (e1 itself at the lower /
\* upper edge / middle of the range of the first request, so that the moved chain alone pushes a
\* carried-over HTLC out of the range).  The reference judges number 2 on its own contents at the
\* height of its request: an HTLC is not excused because its hash is already in the current
\* commitment.  Thorough adds the fee rate changing between the two and more policies / types.
AdvChains2(X) == {X.chain, [X.chain EXCEPT !.blocks = @ + 1], [X.chain EXCEPT !.blocks = @ - 1]}
AdvCltvVariants(X) ==
  LET pol == X.pol IN
     {[mode |-> m, e1 |-> RelOK(pol), e2 |-> e, ch2 |-> ch, fr2 |-> fr]
        : m \in {"kept", "part", "other"},
          e \in {CR(pol.min_delay - 1), CR(pol.min_delay), CR(pol.max_delay), CR(pol.max_delay + 1),
                 CA(Z), CA(N(MAX_CLTV - 1)), CA(N(MAX_CLTV))},
          ch \in (IF Thorough THEN AdvChains2(X) ELSE {X.chain, [X.chain EXCEPT !.blocks = @ + 1]}),
          fr \in (IF Thorough THEN {N(1000), N(2000)} ELSE {N(1000)})}
  \cup {[mode |-> m, e1 |-> d, e2 |-> SAME, ch2 |-> ch, fr2 |-> fr]
        : m \in {"kept", "part", "other"}, d \in {pol.min_delay, RelOK(pol), pol.max_delay},
          ch \in AdvChains2(X), fr \in (IF Thorough THEN {N(1000), N(2000)} ELSE {N(1000)})}
AdvCltvCasesOf(X) ==
  UNION { LET X2    == [X EXCEPT !.chain = v.ch2]
              Abs1(d) == CA(N(X.chain.h0 + X.chain.blocks + d))     \* relative to the height of request 1
              other == IF who = "offh" THEN "rcvh" ELSE "offh"
              first == HTH(AI(20000), Abs1(v.e1), 0)
              e2    == IF v.e2.t = "same" THEN Abs1(v.e1) ELSE v.e2
              D1    == [BaseD(X) EXCEPT ![who] = << first >>, ![other] = << HTH(AI(30000), Abs1(RelOK(X.pol)), 0) >>]
              D2    == [D1 EXCEPT !.feerate = v.fr2,
                                  ![who] = CASE v.mode = "kept"  -> << HTH(AI(20000), e2, 0) >>
                                             [] v.mode = "part"  -> << first, HTH(AI(21000), e2, 0) >>
                                             [] v.mode = "other" -> << first, HTH(AI(21000), e2, 1) >>]
              why   == who \o "," \o v.mode \o ",e1=h1+" \o ToString(v.e1) \o ",e2=" \o SpecL(v.e2)
                         \o ",blocks " \o ToString(X.chain.blocks) \o "->" \o ToString(v.ch2.blocks)
                         \o ",rate->" \o BigL(v.fr2) IN
          UNION { { [c2 EXCEPT !.kind = "seq", !.chain = X.chain,
                               !.seq = [on |-> TRUE, adv |-> TRUE, req1 |-> c1.req, chain2 |-> v.ch2]]
                    : c2 \in Finish(X2, D2, "advcltv", why) }
                  : c1 \in Finish(X, D1, "advcltv", "first") }
          : v \in AdvCltvVariants(X), who \in {"offh", "rcvh"} }
AdvCltvCtx == {Ctx(pol, ct, TRUE, PUSH0, V0, ChainOK, side, 2)
                 : pol \in {PolUse} \cup (IF Thorough THEN {PolOnUse, BasePol, [PolUse EXCEPT !.max_htlcs = 2]} ELSE {}),
                   ct \in (IF Thorough THEN CTypes ELSE {"static"}), side \in Sides}
AdvCltvCases == UNION {AdvCltvCasesOf(X) : X \in AdvCltvCtx}

Cases0 == AdvCases \cup AdvCltvCases \cup StdCases \cup InitCases \cup SizeCases \cup ChainCases \cup ExtCases \cup ManyCases \cup SeqCases

(***************************************************************************)
(* Filters: for one representative of every class (set of broken rules,     *)
(* side, n) every filter shape around the tags involved.                    *)
(***************************************************************************)
W(t)  == [tag |-> t, prefix |-> FALSE, warn |-> TRUE]
E(t)  == [tag |-> t, prefix |-> FALSE, warn |-> FALSE]
PW(t) == [tag |-> t, prefix |-> TRUE, warn |-> TRUE]
PE(t) == [tag |-> t, prefix |-> TRUE, warn |-> FALSE]
OtherTags == IF Thorough THEN {Tag(r) : r \in CommitRules \cup SetupRules} \cup {<<"policy", "commitment">>}
             ELSE {Tag("count"), Tag("fee_low"), Tag("dust_b"), Tag("delay_cp"), <<"policy", "commitment">>}
FiltersAround(tags) ==
     UNION { {<< W(t) >>, << PW(SubSeq(t, 1, 2)) >>, << PW(SubSeq(t, 1, 3)) >>, << E(t), PW(<< >>) >>,
              << E(t), W(t) >>, << W(<<"policy", "other">>), W(t) >>, << PE(SubSeq(t, 1, 3)), W(t) >>,
              << W(SubSeq(t, 1, Len(t) - 1)) >>, << W(t \o <<"x">>) >>} : t \in tags }
  \cup {<< PW(<< >>) >>}
  \cup {<< W(o) >> : o \in OtherTags \ tags}
  \cup {SetToSeq({W(t) : t \in tags})}

CaseBroken(c) == IF c.kind = "setup" THEN ViolatedSetup(c.pol, c.setup)
                 ELSE ViolatedCommit(c.pol, c.setup, IF c.kind = "seq" THEN c.seq.chain2 ELSE c.chain,
                                     c.side, c.n, c.req, TRUE)
ClassOf(c) == <<CaseBroken(c), c.side, c.n>>
\* <<case, the rules it breaks>> for the candidates, computed once
RepPool == TLCEval({<<c, CaseBroken(c)>> : c \in {d \in Cases0 : d.kind = "commit" /\ d.pol.filter = Strict /\ d.setup.ctype = "static"
                                  /\ d.setup.outbound /\ d.pol \in {BasePol, PolOn, PolUse, PolOnUse}}})
Reps == LET pool    == {p \in RepPool : p[2] # {}}
            classes == {<<p[2], p[1].side, p[1].n>> : p \in pool} IN
        {CHOOSE p \in pool : <<p[2], p[1].side, p[1].n>> = k : k \in classes}
FilterCases == UNION { {[p[1] EXCEPT !.fam = "filter", !.pol.filter = f] : f \in FiltersAround({Tag(r) : r \in p[2]})}
                       : p \in Reps }

(***************************************************************************)
(* setup_channel: commitment type and contest delays                        *)
(***************************************************************************)
DelayEdges(pol) == {pol.min_delay - 1, pol.min_delay, pol.max_delay, pol.max_delay + 1, 0, 65535}
SetupShapes(pol) ==
     {<<ct, hd, pol.max_delay - 1>> : ct \in {"legacy", "static", "anchors", "zerofee"}, hd \in DelayEdges(pol)}
  \cup {<<ct, pol.min_delay + 1, cd>> : ct \in {"legacy", "static", "anchors", "zerofee"}, cd \in DelayEdges(pol)}
  \cup {<<"static", pol.min_delay - 1, pol.max_delay + 1>>, <<"legacy", pol.max_delay + 1, pol.min_delay - 1>>}
SetupFilters ==
  {Strict, << W(Tag("delay_holder")) >>, << W(Tag("delay_cp")) >>, << W(Tag("safe_type")) >>,
   << PW(<<"policy", "channel">>) >>, << PW(<< >>) >>, << E(Tag("safe_type")), PW(<< >>) >>,
   << W(<<"policy", "channel", "contest", "delay", "range">>) >>, << PW(<<"policy", "channel", "contest">>) >>}
SetupCasesOf(pol) ==
  {[id |-> 0, fam |-> "setup", why |-> s[1] \o "/" \o ToString(s[2]) \o "/" \o ToString(s[3]), kind |-> "setup",
    pol |-> [pol EXCEPT !.filter = f],
    setup |-> [ctype |-> s[1], outbound |-> ob, value |-> V0, push_msat |-> PUSH0, hdelay |-> s[2], cdelay |-> s[3]],
    chain |-> [h0 |-> 0, blocks |-> 0, fund_at |-> 0, close_at |-> 0], side |-> "holder", n |-> 0,
    pre |-> PreOf(Ctx(pol, "static", ob, PUSH0, V0, ChainOK, "holder", 0), V0),
    seq |-> NoSeq, req |-> ReqOf("holder", Z, Z, Z, << >>, << >>)]
     : s \in SetupShapes(pol), f \in SetupFilters, ob \in (IF Thorough THEN BOOLEAN ELSE {TRUE})}
SetupCases == UNION {SetupCasesOf(pol) : pol \in {BasePol} \cup (IF Thorough THEN {PolTight, PolOn} ELSE {})}

Cases   == Cases0 \cup FilterCases \cup SetupCases
CaseSeq == LET s == SetToSeq(Cases) IN [i \in 1..Len(s) |-> [s[i] EXCEPT !.id = i]]
NCases  == Len(CaseSeq)

ASSUME ndJsonSerialize(IOEnv.CP_OUT, CaseSeq)

(***************************************************************************)
(* Leg A: the life cycle of every case on the model.                        *)
(***************************************************************************)
VARIABLES ci, st, bad, last

Init == /\ ci \in 1..NCases
        /\ st = InitSt(CaseSeq[ci])
        /\ bad = {}
        /\ last = [ev |-> "init", ok |-> TRUE, rule |-> "none"]

Next == LET c  == CaseSeq[ci]
            ev == EventOf(c, st) IN
        /\ ev # "none"
        /\ LET r == ModelResp(c, st, ev, Sw) IN
           /\ st' = After(c, st, ev, r.ok)
           /\ bad' = bad \cup GhostAfter(c, st, ev, r.ok)
           /\ last' = [ev |-> ev, ok |-> r.ok, rule |-> r.rule]
        /\ UNCHANGED ci

Spec == Init /\ [][Next]_<<ci, st, bad, last>>
View == <<ci, st, bad>>

C05 == Inv_C05(bad)
TypeOK == /\ st.ph \in Phases /\ st.nh \in 0..2 /\ bad \subseteq (CommitRules \cup SetupRules)
\* vacuity guards of the matrix itself: every rule is the sole broken rule of some case under a
\* strict filter, and there are cases that break nothing
MatrixStats ==
  LET B == TLCEval([i \in 1..NCases |-> CaseBroken(CaseSeq[i])])
      sole == UNION {B[i] : i \in {j \in 1..NCases : Cardinality(B[j]) = 1 /\ CaseSeq[j].pol.filter = Strict}} IN
  <<"CP_MATRIX", NCases, Cardinality(sole), Cardinality({i \in 1..NCases : B[i] = {}}),
    (CommitRules \cup SetupRules) \ sole>>
ASSUME PrintT(MatrixStats)
=============================================================================
