----------------------------- MODULE MC_Channel -----------------------------
(* Leg A: TLC explores the Channel model itself (design level).             *)
EXTENDS Channel

CONSTANTS N,                 \* bound on commitment numbers
          RevokeChecksClosed, AtomicRevocation,   \* behaviour switches (see Channel.tla)
          StartPhase,        \* "ready" or "stub"
          Mon                \* which ghost monitor runs: "C01", "C02", "C03", "all"

VARIABLES s, g, last

K == [revokeChecksClosed |-> RevokeChecksClosed, atomicRevocation |-> AtomicRevocation]
HC == {"A", "B", "H", "P"}
CC == {"A", "B", "P"}
TT == {"A", "B"}
Reqs == {r \in Requests(N, HC, CC, TT) :
            r.op = "ValidateHolder" /\ r.sig \in {"badhtlc", "shorthtlc"} => r.c = "H"}

Init == /\ s = IF StartPhase = "stub" THEN InitStub ELSE InitReady
        /\ g = InitGhost
        /\ last = [op |-> "init"]

Next == \E r \in Reqs :
          LET o == Step(s, r, K) IN
          /\ s' = o.s
          /\ g' = Ghost(g, r, o.resp, s.phase, s.nh, Mon)
          /\ last' = [r |-> r, ok |-> o.resp.ok]

Spec == Init /\ [][Next]_<<s, g, last>>

Bound == s.nh <= N /\ s.nc <= N
View == <<s, g>>

C01 == Inv_C01(g)
C02 == Inv_C02(g)
C03 == Inv_C03(g)

\* structural invariants of the enforcement state (extra, beyond the list)
TypeOK == /\ s.nr <= s.nc /\ s.nc <= s.nr + 2
          /\ (s.nh = 0) = (s.curH = NoC)
          /\ s.nc = 0 => s.curPt = NoPt
          /\ s.nc > 0 => s.curPt.n = s.nc - 1
          /\ Len(s.sec) <= N + 1

\* Refinement: with the ghost monitor "all", every step of this implementation-shaped model is a
\* step of the unbounded abstraction HolderAbs.tla (whose invariants C01, C02 are PROVED with
\* TLAPS for all commitment numbers) or leaves HolderAbs' variables unchanged.
HA == INSTANCE HolderAbs WITH nh <- s.nh, nxt <- (s.nextH # NoC), closed <- s.closed,
                               acc <- g.acceptedValid, disc <- g.disclosed,
                               sgn <- g.signedH, das <- g.discAtSign
RefinesHolderAbs == [][HA!NextB(0..N + 3)]_(HA!vars)
HolderAbsInit == HA!Init

CA == INSTANCE CpAbs WITH nc <- s.nc, nr <- s.nr, sgd <- CpSignedNums(g), rvk <- g.cpRevoked,
                           bad <- g.badSignCp
RefinesCpAbs == [][CA!NextB(0..N + 3)]_(CA!vars)

\* C10 at design level: a refused request leaves the abstract state unchanged
Frame == [][ (last'.ok = FALSE) => (s' = s) ]_<<s, g, last>>
=============================================================================
