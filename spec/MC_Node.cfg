SPECIFICATION Spec
CONSTANTS AtomicAllowlist = FALSE
VIEW View
INVARIANTS NoIdReuse TypeOK
CHECK_DEADLOCK FALSE
