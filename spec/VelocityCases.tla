---------------------------- MODULE VelocityCases ----------------------------
(* Prints the case matrix of Velocity.tla as JSON (IOEnv.VEL_OUT): for every  *)
(* case the control parameters, the concretisation hints for the harness and  *)
(* the request alphabet.  The harness explores the real implementation with   *)
(* exactly these requests (leg B); SimVelocity draws behaviours from the same *)
(* cases (leg C).  IOEnv.VEL_TIER = "quick" | "thorough".                     *)
EXTENDS Velocity, Json, IOUtils, SequencesExt

Tier == IOEnv.VEL_TIER
EPOCH == 1700002800            \* a multiple of 3600 (and of 300): real "now" of the node cases

\* requests of a bare control: every delta up to full expiry x every amount, and Restart
StructReqs(p) == {Req("Insert", dt, a) : dt \in AllDts(p), a \in Amounts(p, {TOP - 1, TOP})}
                   \cup {RestartReq}

\* kind: how the harness builds the real control(s); scale: real seconds per model second;
\* unit: msat per model unit; t0: real second of model time 0; cap: exploration bound - a state
\* holding a small bucket value above cap is not expanded (matters only for near-u64::MAX
\* limits, where small amounts could pile up for ever)
\* from: the spec the control / the node was CREATED AND USED under before the case's spec was
\* installed (Velocity!SpecChange); kind "none": no spec change, the case starts with a new signer
NoFrom == [kind |-> "none", pay |-> Unl(1, 1), fee |-> Unl(1, 1)]
Larger(a, b) == IF a > b THEN a ELSE b
SmallL(p) == IF IsTop(p.L) THEN 2 ELSE p.L
Case(id, level, kind, pay, fee, scale, unit, t0, reqs) ==
  [id |-> id, level |-> level, kind |-> kind, pay |-> pay, fee |-> fee, scale |-> scale,
   unit |-> unit, t0 |-> t0, cap |-> Larger(SmallL(pay), SmallL(fee)) + 1, ns |-> 0, from |-> NoFrom,
   reqs |-> SetToSeq(reqs)]

StructCase(id, p, t0) == Case(id, "struct", "intervals", p, Unl(p.B, p.K), 1, 1, t0, StructReqs(p))

\* node / approver cases use the REAL interval types: Hourly = 12 buckets of 300 s,
\* Daily = 24 buckets of 3600 s; a model second is half a bucket
Hourly(l) == Ctl(2, 12, l)
Daily(l)  == Ctl(2, 24, l)

PayReqs(p, tops) ==
  {Req("AddInvoice", dt, a) : dt \in EdgeDts(p), a \in {x \in Amounts(p, {}) : ~IsTop(x)}}
    \cup {Req("AddKeysend", dt, a) : dt \in EdgeDts(p), a \in Amounts(p, tops)}
FeeReqs(p) == {Req("Onchain", dt, a) : dt \in EdgeDts(p), a \in 0..(p.L + 1)}

ApproverCase(id, kind, p, scale) ==
  Case(id, "approver", kind, p, Unl(p.B, p.K), scale, 1, EPOCH, PayReqs(p, {TOP}) \cup {RestartReq})
NodePayCase(id, kind, p, scale, big) ==
  Case(id, "node", kind, p, IF kind = "hourly" THEN Unl(2, 12) ELSE Ctl(2, 24, big), scale, 1000, EPOCH,
       PayReqs(p, {TOP}) \cup {RestartReq})
NodeFeeCase(id, kind, p, scale, big) ==
  Case(id, "node", kind, IF kind = "hourly" THEN Unl(2, 12) ELSE Ctl(2, 24, big), p, scale, 1000000, EPOCH,
       FeeReqs(p) \cup {RestartReq})
\* a limit near u64::MAX at node level (saturating arithmetic through add_keysend): only "same
\* bucket" and "everything expired" deltas, otherwise small amounts pile up in every bucket
NodeNearmaxCase(id, kind, p, scale) ==
  Case(id, "node", kind, p, Unl(2, 12), scale, 1000, EPOCH,
       {Req("AddKeysend", dt, a) : dt \in {0, p.K * p.B}, a \in Amounts(p, {})}
         \cup {Req("AddInvoice", dt, a) : dt \in {0, p.K * p.B}, a \in {1, 2}} \cup {RestartReq})
\* retries at node level: one named invoice hash and one named keysend hash (besides fresh ones),
\* submitted directly (Node::add_*) and through the approver (handle_proposed_*: has_payment
\* shortcut), with the same or another amount, in the same bucket / a full window / after expiry
NodeRetryCase(id, kind, p, scale, ns) ==
  [Case(id, "node", kind, p, IF kind = "hourly" THEN Unl(2, 12) ELSE Ctl(2, 24, 50), scale, 1000, EPOCH,
        {ReqH(op, dt, a, h) : op \in InvoiceOps \cup KeysendOps, dt \in {0, W(p), p.K * p.B}, a \in {1, p.L},
                              h \in 0..ns} \cup {RestartReq})
   EXCEPT !.ns = ns]
\* both controls limited; small alphabet: an approved payment persists the fee control as well
NodeMixedCase(id, kind, p, f, scale) ==
  Case(id, "node", kind, p, f, scale, 1000000, EPOCH,
       {Req(op, dt, a) : op \in {"AddKeysend", "Onchain"}, dt \in {0, W(p), p.K * p.B}, a \in {p.L}}
         \cup {RestartReq})

\* SPEC CHANGE (VelocityControl::update_spec with a spec that does not match the control;
\* Node::new_full restoring a node whose policy has changed).  The case's root is reached on the real
\* code by: a control / node created under `from`, the full limit of every limited control approved
\* there, then the case's spec installed (struct: update_spec; node: restore from the store with the
\* changed policy, then one zero-amount payment so that the store holds the new controls).  By
\* Velocity!SpecChange that state is InitState of the NEW spec, and the monitor counts the approvals
\* since the change over the windows of the NEW spec.  `Restart` in these cases is a restart with the
\* SAME (new) spec: struct level = serde round trip + update_spec(same spec), as Node::new_full does.
\* Directions: interval type with another bucket count (Hourly 12 x 300 s <-> Daily 24 x 3600 s),
\* limit only, unlimited -> limited.
WithFrom(c, kind, pay, fee) == [c EXCEPT !.from = [kind |-> kind, pay |-> pay, fee |-> fee]]
SpecStructCase(id, kind, p, scale) ==
  Case(id, "struct", kind, p, Unl(p.B, p.K), scale, 1, EPOCH,
       {Req("Insert", dt, a) : dt \in EdgeDts(p), a \in Amounts(p, {TOP})} \cup {RestartReq})
QuickRespec ==
  << WithFrom(SpecStructCase("s-respec-h2d-2", "daily", Daily(2), 1800), "hourly", Hourly(2), Unl(2, 12)),
     WithFrom(SpecStructCase("s-respec-d2h-2", "hourly", Hourly(2), 150), "daily", Daily(2), Unl(2, 24)),
     WithFrom(SpecStructCase("s-respec-limit-h-3", "hourly", Hourly(3), 150), "hourly", Hourly(2), Unl(2, 12)),
     WithFrom(NodeMixedCase("n-respec-h2d-2", "daily", Daily(2), Daily(2), 1800), "hourly", Hourly(2), Hourly(2)),
     WithFrom(NodeMixedCase("n-respec-d2h-2", "hourly", Hourly(2), Hourly(2), 150), "daily", Daily(2), Daily(2)) >>
ThoroughRespec ==
  << WithFrom(SpecStructCase("s-respec-u2d-3", "daily", Daily(3), 1800), "hourly", Unl(2, 12), Unl(2, 12)),
     WithFrom(NodePayCase("n-respec-pay-h2d-2", "daily", Daily(2), 1800, 50), "hourly", Hourly(2), Unl(2, 12)),
     WithFrom(NodePayCase("n-respec-pay-d2h-2", "hourly", Hourly(2), 150, 0), "daily", Daily(2), Ctl(2, 24, 50)),
     WithFrom(NodeFeeCase("n-respec-fee-h2d-2", "daily", Daily(2), 1800, 50), "hourly", Unl(2, 12), Hourly(2)),
     WithFrom(NodeFeeCase("n-respec-fee-d2h-2", "hourly", Hourly(2), 150, 0), "daily", Ctl(2, 24, 50), Daily(2)),
     WithFrom(NodeMixedCase("n-respec-limit-h-3", "hourly", Hourly(3), Hourly(3), 150), "hourly", Hourly(2), Hourly(2)) >>

QuickCases ==
  << StructCase("s-2-3-4", Ctl(2, 3, 4), 0),
     StructCase("s-3-2-5", Ctl(3, 2, 5), 0),
     StructCase("s-1-4-3", Ctl(1, 4, 3), 0),
     StructCase("s-2-2-nearmax", Ctl(2, 2, TOP - 1), 0),
     StructCase("s-2-3-4-epoch", Ctl(2, 3, 4), EPOCH),
     ApproverCase("a-hourly-2", "hourly", Hourly(2), 150),
     NodePayCase("n-pay-hourly-2", "hourly", Hourly(2), 150, 0),
     NodeFeeCase("n-fee-hourly-2", "hourly", Hourly(2), 150, 0),
     NodeMixedCase("n-mixed-hourly-2", "hourly", Hourly(2), Hourly(2), 150),
     NodeRetryCase("n-retry-hourly-2", "hourly", Hourly(2), 150, 1) >> \o QuickRespec

ThoroughCases ==
  QuickCases \o
  << StructCase("s-3-4-6", Ctl(3, 4, 6), 0),
     StructCase("s-2-5-5", Ctl(2, 5, 5), 0),
     StructCase("s-5-3-7", Ctl(5, 3, 7), 0),
     StructCase("s-1-1-3", Ctl(1, 1, 3), 0),
     StructCase("s-3-3-nearmax", Ctl(3, 3, TOP - 2), EPOCH),
     ApproverCase("a-daily-2", "daily", Daily(2), 1800),
     NodePayCase("n-pay-hourly-3", "hourly", Hourly(3), 150, 0),
     NodePayCase("n-pay-daily-2", "daily", Daily(2), 1800, 50),
     NodeNearmaxCase("n-pay-hourly-nearmax", "hourly", Hourly(TOP - 1), 150),
     NodeFeeCase("n-fee-hourly-3", "hourly", Hourly(3), 150, 0),
     NodeFeeCase("n-fee-daily-2", "daily", Daily(2), 1800, 50),
     NodeMixedCase("n-mixed-daily-2", "daily", Daily(2), Daily(2), 1800),
     NodeRetryCase("n-retry-daily-3", "daily", Daily(3), 1800, 1),
     NodeRetryCase("n-retry-hourly-2x2", "hourly", Hourly(2), 150, 2) >> \o ThoroughRespec

Cases == IF Tier = "thorough" THEN ThoroughCases ELSE QuickCases

VARIABLE x
Init == x = 0
Next == UNCHANGED x
ASSUME JsonSerialize(IOEnv.VEL_OUT, Cases)
=============================================================================
