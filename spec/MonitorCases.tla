--------------------------- MODULE MonitorCases ---------------------------
(* Prints the case matrix of Monitor.tla as JSON: the transaction catalogue   *)
(* (with, per transaction, the creators of its inputs and the transactions    *)
(* that spend a common input - the harness decides enabledness by looking     *)
(* these up) and the block alphabet.  The harness explores the implementation *)
(* with exactly the blocks the specification names.                           *)
EXTENDS Monitor, Json, IOUtils

Cat     == IOEnv.MON_CAT
Variant == IOEnv.MON_VARIANT
MaxTx   == CHOOSE n \in 0..8 : ToString(n) = IOEnv.MON_MAXTX
K       == MkK(Cat, Variant, FALSE, FALSE)

TxJson(id) == LET t == K.tx[id] IN
  [id |-> t.id, ins |-> t.ins, nout |-> t.nout, kind |-> t.kind, our |-> t.our, htlcs |-> t.htlcs,
   who |-> t.who, roles |-> t.roles,
   needs |-> SetToSeq(Needs(K, id)), conflicts |-> SetToSeq(Conflicts(K, id))]

Out == [variant |-> Variant, cat |-> Cat, maxtx |-> MaxTx,
        txs |-> [i \in DOMAIN K.ids |-> TxJson(K.ids[i])],
        blocks |-> SetToSeq(Blocks(K, MaxTx))]

VARIABLE x
Init == x = 0
Next == UNCHANGED x
ASSUME JsonSerialize(IOEnv.MON_OUT, Out)
=============================================================================
