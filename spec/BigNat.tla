------------------------------- MODULE BigNat -------------------------------
(***************************************************************************)
(* Natural numbers beyond TLC's 32-bit integers, for the u64 / u32          *)
(* arithmetic of the policy reference predicates (C05).                     *)
(*                                                                         *)
(* A number is a sequence of limbs in base 10000, least significant limb    *)
(* first, without a most-significant zero limb; zero is << >>.  The same    *)
(* encoding is used in the JSON case files and in the ndjson logs of the    *)
(* harness (a JSON array of small integers), so that TLC both CHOOSES the   *)
(* concrete u64 values of a case and RE-JUDGES the logged concrete values.  *)
(* All intermediate machine integers stay below 2^31.                       *)
(***************************************************************************)
EXTENDS Integers, Sequences

BB == 10000

Z == << >>                                   \* zero

RECURSIVE Strip(_)
Strip(s) == IF s = << >> THEN s
            ELSE IF s[Len(s)] = 0 THEN Strip(SubSeq(s, 1, Len(s) - 1)) ELSE s

RECURSIVE N(_)
N(n) == IF n = 0 THEN << >> ELSE << n % BB >> \o N(n \div BB)    \* 0 <= n < 2^31

IsBig(a) == /\ \A i \in 1..Len(a) : a[i] \in 0..(BB - 1)
            /\ (Len(a) > 0 => a[Len(a)] # 0)

Limb(a, i) == IF i <= Len(a) THEN a[i] ELSE 0

RECURSIVE CmpFrom(_, _, _)
CmpFrom(a, b, i) == IF i = 0 THEN 0
                    ELSE IF a[i] < b[i] THEN -1
                    ELSE IF a[i] > b[i] THEN 1
                    ELSE CmpFrom(a, b, i - 1)
Cmp(a, b) == IF Len(a) < Len(b) THEN -1
             ELSE IF Len(a) > Len(b) THEN 1
             ELSE CmpFrom(a, b, Len(a))
Lt(a, b) == Cmp(a, b) < 0
Le(a, b) == Cmp(a, b) <= 0
Gt(a, b) == Cmp(a, b) > 0
Ge(a, b) == Cmp(a, b) >= 0
IsZero(a) == a = << >>

RECURSIVE AddC(_, _, _, _)
AddC(a, b, i, c) ==
  IF i > Len(a) /\ i > Len(b) THEN (IF c = 0 THEN << >> ELSE << c >>)
  ELSE LET s == Limb(a, i) + Limb(b, i) + c IN << s % BB >> \o AddC(a, b, i + 1, s \div BB)
Add(a, b) == IF a = << >> THEN b ELSE IF b = << >> THEN a ELSE AddC(a, b, 1, 0)

\* a - b for a >= b
RECURSIVE SubC(_, _, _, _)
SubC(a, b, i, br) ==
  IF i > Len(a) THEN << >>
  ELSE LET d == a[i] - Limb(b, i) - br IN
       IF d < 0 THEN << d + BB >> \o SubC(a, b, i + 1, 1) ELSE << d >> \o SubC(a, b, i + 1, 0)
Sub(a, b) == IF b = << >> THEN a ELSE Strip(SubC(a, b, 1, 0))
\* max(a - b, 0)
Monus(a, b) == IF Le(a, b) THEN Z ELSE Sub(a, b)

\* a * m for a machine integer 0 <= m <= 200000
RECURSIVE MulIntC(_, _, _, _)
MulIntC(a, m, i, c) ==
  IF i > Len(a) THEN N(c)
  ELSE LET p == a[i] * m + c IN << p % BB >> \o MulIntC(a, m, i + 1, p \div BB)
MulInt(a, m) == IF m = 0 \/ a = << >> THEN << >> ELSE MulIntC(a, m, 1, 0)

Shift(a, k) == IF a = << >> THEN a ELSE [i \in 1..k |-> 0] \o a      \* a * BB^k

RECURSIVE MulFrom(_, _, _)
MulFrom(a, b, i) == IF i > Len(b) THEN << >>
                    ELSE Add(Shift(MulInt(a, b[i]), i - 1), MulFrom(a, b, i + 1))
Mul(a, b) == IF a = << >> \/ b = << >> THEN << >> ELSE MulFrom(a, b, 1)

\* division by a machine integer 1 <= m <= 200000:  [q |-> a div m, r |-> a mod m]
\* DivFrom handles limbs i..1 with incoming remainder r; result <<limbs 1..i of the quotient, remainder>>
RECURSIVE DivFrom(_, _, _, _)
DivFrom(a, m, i, r) ==
  IF i = 0 THEN << << >>, r >>
  ELSE LET cur  == r * BB + a[i]
           rest == DivFrom(a, m, i - 1, cur % m) IN
       << Append(rest[1], cur \div m), rest[2] >>
DivMod(a, m) == LET d == DivFrom(a, m, Len(a), 0) IN [q |-> Strip(d[1]), r |-> d[2]]
Div(a, m)    == DivMod(a, m).q
CeilDiv(a, m) == LET d == DivMod(a, m) IN IF d.r = 0 THEN d.q ELSE Add(d.q, N(1))

\* a mod 2^e  (truncating casts and wrapping arithmetic), e >= 0
RECURSIVE ModPow2(_, _)
ModPow2(a, e) ==
  IF e = 0 \/ a = << >> THEN << >>
  ELSE LET s == IF e < 16 THEN e ELSE 16
           d == DivMod(a, 2 ^ s) IN
       Add(N(d.r), MulInt(ModPow2(d.q, e - s), 2 ^ s))

RECURSIVE Pow2R(_)
Pow2R(e) == IF e = 0 THEN N(1) ELSE IF e >= 16 THEN MulInt(Pow2R(e - 16), 65536) ELSE N(2 ^ e)
\* the powers used by the specifications are literals (TLC does not cache definitions that go
\* through RECURSIVE operators); the ASSUME below ties them to their meaning
P2_32  == <<7296, 9496, 42>>
P2_61  == <<3952, 1369, 92, 5843, 230>>
P2_63  == <<5808, 5477, 368, 3372, 922>>
P2_64  == <<1616, 955, 737, 6744, 1844>>
Pow2(e) == CASE e = 32 -> P2_32 [] e = 61 -> P2_61 [] e = 63 -> P2_63 [] e = 64 -> P2_64 [] OTHER -> Pow2R(e)
U16MAX == <<5535, 6>>
U32MAX == <<7295, 9496, 42>>
U64MAX == <<1615, 955, 737, 6744, 1844>>
ASSUME /\ P2_32 = Pow2R(32) /\ P2_61 = Pow2R(61) /\ P2_63 = Pow2R(63) /\ P2_64 = Pow2R(64)
       /\ U16MAX = N(65535) /\ U32MAX = Sub(P2_32, N(1)) /\ U64MAX = Sub(P2_64, N(1))
FitsU32(a) == Le(a, U32MAX)
FitsU64(a) == Le(a, U64MAX)

\* the value as a machine integer when it is small, else `cap` (for reports only)
ToInt(a, cap) == IF Len(a) > 2 THEN cap
                 ELSE Limb(a, 1) + BB * Limb(a, 2)

RECURSIVE SumSeq(_, _)
SumSeq(s, i) == IF i > Len(s) THEN << >> ELSE Add(s[i], SumSeq(s, i + 1))
Sum(s) == SumSeq(s, 1)                        \* sum of a sequence of numbers
=============================================================================
