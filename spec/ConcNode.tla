------------------------------- MODULE ConcNode -------------------------------
(***************************************************************************)
(* C20, atomicity leg at node level: pairs of Node.tla requests (allowlist,  *)
(* invoices, keysends, new / setup / forget channel, heartbeat) executed     *)
(* CONCURRENTLY on one real node under imposed schedules (one thread held    *)
(* before each of its lock acquisitions in turn).  A run is linearizable iff *)
(* replies and final projected state equal those of a;b or b;a as executed   *)
(* sequentially by the implementation (the property) and as given by         *)
(* Node!Step (conformance, reported only).                                   *)
(***************************************************************************)
EXTENDS Node, Json, IOUtils, SequencesExt

Runs == ndJsonDeserialize(IOEnv.CN_RUNS)
K == [atomicAllowlist |-> IOEnv.ND_ATOMIC_ALLOWLIST = "true"]
Abs(p) == [allow |-> ToSet(p.allow), inv |-> ToSet(p.inv), mark |-> p.mark, chans |-> ToSet(p.chans), fee |-> p.fee,
           iss |-> IF "iss" \in DOMAIN p THEN ToSet(p.iss) ELSE {}]

Same(r, q) == r.ra = q.ra /\ r.rb = q.rb /\ Abs(r.post) = Abs(q.post)
LinImpl(r) == Same(r, r.sab) \/ Same(r, r.sba)

SpecOrder(pre, x, y) == LET o1 == Step(pre, x, K) o2 == Step(o1.s, y, K) IN <<o1.resp, o2.resp, o2.s>>
LinSpec(r) == \/ SpecOrder(Abs(r.pre), r.a, r.b) = <<r.ra, r.rb, Abs(r.post)>>
              \/ SpecOrder(Abs(r.pre), r.b, r.a) = <<r.rb, r.ra, Abs(r.post)>>

Idx == DOMAIN Runs
Stuck   == {i \in Idx : Runs[i].stuck}
NonLin  == {i \in Idx : ~Runs[i].stuck /\ ~LinImpl(Runs[i])}
SpecDiv == {i \in Idx : ~Runs[i].stuck /\ LinImpl(Runs[i]) /\ ~LinSpec(Runs[i])}

\* C11 under concurrency: once both requests have returned, a signer restored from the store equals the running
\* one in every field of the durable view (rdiff = the fields that differ, recorded by the harness)
NonDurable == {i \in Idx : ~Runs[i].stuck /\ "rdiff" \in DOMAIN Runs[i] /\ Len(Runs[i].rdiff) > 0}

Report == [ runs |-> Len(Runs),
            nondurable |-> SetToSeq({Runs[i] : i \in NonDurable}),
            stuck |-> SetToSeq({Runs[i] : i \in Stuck}),
            nonlinearizable |-> SetToSeq({Runs[i] : i \in NonLin}),
            spec_divergences |-> SetToSeq({Runs[i] : i \in SpecDiv}) ]
ASSUME JsonSerialize(IOEnv.CN_REPORT, Report)

VARIABLE x
Init == x = 0
Next == UNCHANGED x
=============================================================================
