-------------------------- MODULE TrackerAlphabet --------------------------
(* Prints the request alphabet of Tracker.tla as JSON: the harness explores *)
(* the implementation with exactly the requests the specification names.    *)
EXTENDS Tracker, Json, IOUtils, SequencesExt

MaxDev == CHOOSE n \in 0..8 : ToString(n) = IOEnv.TR_MAXDEV
NL     == CHOOSE n \in 0..2 : ToString(n) = IOEnv.TR_NL
Contents == IF NL = 2 THEN {"e", "f1", "d1", "f2", "d2"} ELSE {"e", "f1", "d1"}
Dbs == {0, 2, 3, -1, -2}

VARIABLE x
Init == x = 0
Next == UNCHANGED x
ASSUME JsonSerialize(IOEnv.TR_OUT, SetToSeq(Requests(MaxDev, Contents, Dbs)))
=============================================================================
