(* automatically generated -- do not edit manually *)
theory CpAbs imports Constant Zenon begin
ML_command \<open> writeln ("*** TLAPS PARSED\n"); \<close>
consts
  "isReal" :: c
  "isa_slas_a" :: "[c,c] => c"
  "isa_bksl_diva" :: "[c,c] => c"
  "isa_perc_a" :: "[c,c] => c"
  "isa_peri_peri_a" :: "[c,c] => c"
  "isInfinity" :: c
  "isa_lbrk_rbrk_a" :: "[c] => c"
  "isa_less_more_a" :: "[c] => c"

end
