-------------------------------- MODULE CpAbs --------------------------------
(***************************************************************************)
(* Unbounded abstraction of the counterparty-commitment counters of          *)
(* Channel.tla (C03: "signs a new counterparty commitment n only when every  *)
(* commitment below n-1 has been revoked; at most two unrevoked signed       *)
(* commitments").  Inductive invariant proved with TLAPS; Channel.tla is     *)
(* checked by TLC to refine this module (MC_Channel: RefinesCpAbs).          *)
(***************************************************************************)
EXTENDS Naturals, TLAPS

VARIABLES nc,    \* next counterparty commitment number
          nr,    \* next counterparty revocation number
          sgd,   \* numbers signed for the counterparty
          rvk,   \* numbers with an accepted revocation
          bad    \* some number was signed while a number two or more below it was unrevoked
vars == <<nc, nr, sgd, rvk, bad>>

Init == nc = 0 /\ nr = 0 /\ sgd = {} /\ rvk = {} /\ bad = FALSE

\* a new number is accepted iff it is the next one and its predecessor's predecessor is revoked
SignNew(n) == /\ n = nc
              /\ (n = 0 /\ nr = 0) \/ (n = nr + 1)
              /\ nc' = n + 1
              /\ sgd' = sgd \cup {n}
              /\ bad' = (bad \/ \E j \in 0..n : j + 2 <= n /\ j \notin rvk)
              /\ UNCHANGED <<nr, rvk>>
SignRetry(n) == /\ n + 1 = nc
                /\ sgd' = sgd \cup {n}
                /\ bad' = (bad \/ \E j \in 0..n : j + 2 <= n /\ j \notin rvk)
                /\ UNCHANGED <<nc, nr, rvk>>
RevokeNew(n) == /\ n = nr /\ n + 2 = nc
                /\ nr' = n + 1
                /\ rvk' = rvk \cup {n}
                /\ UNCHANGED <<nc, sgd, bad>>
RevokeRetry(n) == /\ n + 1 = nr /\ nc >= nr + 1
                  /\ rvk' = rvk \cup {n}
                  /\ UNCHANGED <<nc, nr, sgd, bad>>

NextB(S) == \E n \in S : SignNew(n) \/ SignRetry(n) \/ RevokeNew(n) \/ RevokeRetry(n)
Next == NextB(Nat)
Spec == Init /\ [][Next]_vars

C03a == ~bad
\* at most two unrevoked signed numbers: an unrevoked signed number is one of the last two
C03b == \A k \in sgd : k \notin rvk => k + 2 >= nc

TypeOK == nc \in Nat /\ nr \in Nat /\ sgd \subseteq Nat /\ rvk \subseteq Nat /\ bad \in BOOLEAN

IndInv == /\ TypeOK
          /\ nr <= nc /\ nc <= nr + 2
          /\ nc >= 1 => nr + 1 <= nc \/ nr = nc
          /\ \A k \in Nat : k \in sgd <=> k + 1 <= nc
          /\ \A k \in Nat : k \in rvk <=> k + 1 <= nr
          /\ ~bad

THEOREM InitInd == Init => IndInv
  BY DEF Init, IndInv, TypeOK

THEOREM StepInd == IndInv /\ [Next]_vars => IndInv'
<1> SUFFICES ASSUME IndInv, [Next]_vars PROVE IndInv'
  OBVIOUS
<1>1. CASE UNCHANGED vars
  BY <1>1 DEF IndInv, TypeOK, vars
<1>2. ASSUME NEW n \in Nat, SignNew(n) PROVE IndInv'
  BY <1>2 DEF IndInv, TypeOK, SignNew
<1>3. ASSUME NEW n \in Nat, SignRetry(n) PROVE IndInv'
  BY <1>3 DEF IndInv, TypeOK, SignRetry
<1>4. ASSUME NEW n \in Nat, RevokeNew(n) PROVE IndInv'
  BY <1>4 DEF IndInv, TypeOK, RevokeNew
<1>5. ASSUME NEW n \in Nat, RevokeRetry(n) PROVE IndInv'
  BY <1>5 DEF IndInv, TypeOK, RevokeRetry
<1> QED
  BY <1>1, <1>2, <1>3, <1>4, <1>5 DEF Next, NextB

THEOREM IndImpliesC03 == IndInv => C03a /\ C03b
  BY DEF IndInv, TypeOK, C03a, C03b

THEOREM Safety == Spec => [](C03a /\ C03b)
<1>1. Spec => []IndInv
  BY InitInd, StepInd, PTL DEF Spec
<1> QED
  BY <1>1, IndImpliesC03, PTL
=============================================================================
