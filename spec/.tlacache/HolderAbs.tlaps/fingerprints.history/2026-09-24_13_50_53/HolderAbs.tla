------------------------------ MODULE HolderAbs ------------------------------
(***************************************************************************)
(* Unbounded abstraction of the holder side of Channel.tla (C01, C02).      *)
(*                                                                         *)
(* Commitment numbers range over all naturals.  The module states an        *)
(* inductive invariant IndInv and proves with TLAPS (tlapm, SMT back end)   *)
(* that it holds in every reachable state and implies C01 and C02.  The     *)
(* link to the implementation-shaped model is a refinement checked by TLC:  *)
(* MC_Channel.cfg has the action property  RefinesHolderAbs, i.e. every     *)
(* step of Channel.tla (holder side, ghost monitor "all") is a step of this *)
(* module or leaves its variables unchanged - and Channel.tla in turn is    *)
(* bound to the code by the conformance legs.                               *)
(***************************************************************************)
EXTENDS Naturals, TLAPS

VARIABLES nh,      \* next holder commitment number
          nxt,     \* a validated next commitment is pending
          closed,  \* a holder / closing signature was released
          acc,     \* numbers accepted with verifying counterparty signatures
          disc,    \* numbers whose revocation secret was disclosed
          sgn,     \* numbers whose holder signature was released
          das      \* `disc` when the first holder signature was released
vars == <<nh, nxt, closed, acc, disc, sgn, das>>

Init == /\ nh = 0 /\ nxt = FALSE /\ closed = FALSE
        /\ acc = {} /\ disc = {} /\ sgn = {} /\ das = {}

\* what validate_holder_commitment_tx admits (content conditions over-approximated)
Admits(n) == /\ n <= nh + 1
             /\ ~(n + 2 <= nh)
             /\ ~(n = nh /\ closed)

Validate(n) == /\ Admits(n)
               /\ acc' = acc \cup {n}
               /\ nxt' = IF n = nh THEN TRUE ELSE nxt
               /\ UNCHANGED <<nh, closed, disc, sgn, das>>

Activate == /\ nh = 0 /\ nxt
            /\ nh' = 1 /\ nxt' = FALSE
            /\ UNCHANGED <<closed, acc, disc, sgn, das>>

Revoke(m) == /\ m = nh /\ nxt /\ ~closed
             /\ nh' = m + 1 /\ nxt' = FALSE
             /\ disc' = IF m >= 1 THEN disc \cup {m - 1} ELSE disc
             /\ UNCHANGED <<closed, acc, sgn, das>>

\* repeated revoke of an older number / get_per_commitment_secret: already released values
Reveal(n) == /\ n + 2 <= nh
             /\ disc' = disc \cup {n}
             /\ UNCHANGED <<nh, nxt, closed, acc, sgn, das>>

SignAt(n) == /\ closed' = TRUE
             /\ sgn' = sgn \cup {n}
             /\ das' = IF sgn = {} THEN disc ELSE das
             /\ UNCHANGED <<nh, nxt, acc, disc>>
Sign(n)          == n + 1 = nh /\ SignAt(n)         \* force close / recovery
SignRedundant(n) == Admits(n) /\ SignAt(n)          \* redundant signing of a presented commitment
Close            == closed' = TRUE /\ UNCHANGED <<nh, nxt, acc, disc, sgn, das>>   \* mutual close

\* NextB(S): the next-state relation with request numbers drawn from S (TLC checks the
\* refinement from Channel.tla with a finite S; the theorems below are about S = Nat)
NextB(S) == \/ \E n \in S : Validate(n) \/ Revoke(n) \/ Reveal(n) \/ Sign(n) \/ SignRedundant(n)
            \/ Activate \/ Close
Next == NextB(Nat)
Spec == Init /\ [][Next]_vars

---------------------------------------------------------------------------
C01 == \A n \in disc : (n + 1) \in acc
C02 == /\ \A n \in disc : n \notin sgn
       /\ (sgn # {} => \A n \in disc : n \in das)

TypeOK == /\ nh \in Nat /\ nxt \in BOOLEAN /\ closed \in BOOLEAN
          /\ acc \subseteq Nat /\ disc \subseteq Nat /\ sgn \subseteq Nat /\ das \subseteq Nat

IndInv == /\ TypeOK
          /\ \A n \in Nat : (n \in disc) <=> (n + 2 <= nh)      \* exactly the old numbers are disclosed
          /\ \A k \in Nat : k + 1 <= nh => k \in acc            \* every current-or-older number was accepted
          /\ nxt => nh \in acc
          /\ sgn # {} => closed
          /\ \A n \in sgn : n + 1 >= nh                          \* only the current or a later number is signed
          /\ sgn # {} => (\A n \in Nat : n \in das <=> n \in disc)

THEOREM InitInd == Init => IndInv
  BY DEF Init, IndInv, TypeOK

THEOREM StepInd == IndInv /\ [Next]_vars => IndInv'
<1> SUFFICES ASSUME IndInv, [Next]_vars PROVE IndInv'
  OBVIOUS
<1>1. CASE UNCHANGED vars
  BY <1>1 DEF IndInv, TypeOK, vars
<1>2. ASSUME NEW n \in Nat, Validate(n) PROVE IndInv'
  BY <1>2 DEF IndInv, TypeOK, Validate, Admits
<1>3. ASSUME NEW n \in Nat, Revoke(n) PROVE IndInv'
  BY <1>3 DEF IndInv, TypeOK, Revoke
<1>4. ASSUME NEW n \in Nat, Reveal(n) PROVE IndInv'
  BY <1>4 DEF IndInv, TypeOK, Reveal
<1>5. ASSUME NEW n \in Nat, Sign(n) PROVE IndInv'
  BY <1>5 DEF IndInv, TypeOK, Sign, SignAt
<1>6. ASSUME NEW n \in Nat, SignRedundant(n) PROVE IndInv'
  BY <1>6 DEF IndInv, TypeOK, SignRedundant, SignAt, Admits
<1>7. CASE Activate
  BY <1>7 DEF IndInv, TypeOK, Activate
<1>8. CASE Close
  BY <1>8 DEF IndInv, TypeOK, Close
<1> QED
  BY <1>1, <1>2, <1>3, <1>4, <1>5, <1>6, <1>7, <1>8 DEF Next, NextB

THEOREM IndImpliesC01 == IndInv => C01
  BY DEF IndInv, TypeOK, C01

THEOREM IndImpliesC02 == IndInv => C02
  BY DEF IndInv, TypeOK, C02

THEOREM Safety == Spec => [](C01 /\ C02)
<1>1. Spec => []IndInv
  BY InitInd, StepInd, PTL DEF Spec
<1> QED
  BY <1>1, IndImpliesC01, IndImpliesC02, PTL
=============================================================================
