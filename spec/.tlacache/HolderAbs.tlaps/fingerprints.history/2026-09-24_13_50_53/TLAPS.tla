------------------------------- MODULE TLAPS --------------------------------

(* Backend pragmas. *)


(***************************************************************************)
(* Each of these pragmas can be cited with a BY or a USE.  The pragma that *)
(* is added to the context of an obligation most recently is the one whose *)
(* effects are triggered.                                                  *)
(***************************************************************************)

(***************************************************************************)
(* The following pragmas should be used only as a last resource.  They are *)
(* dependent upon the particular backend provers, and are unlikely to have *)
(* any effect if the set of backend provers changes.  Moreover, they are   *)
(* meaningless to a reader of the proof.                                   *)
(***************************************************************************)


(**************************************************************************)
(* Backend pragma: use the SMT solver for arithmetic.                     *)
(*                                                                        *)
(* This method exists under this name for historical reasons.             *)
(**************************************************************************)

SimpleArithmetic == TRUE (*{ by (prover:"smt3") }*)


(**************************************************************************)
(* Backend pragma: SMT solver                                             *)
(*                                                                        *)
(* This method translates the proof obligation to SMTLIB2. The supported  *)
(* fragment includes first-order logic, set theory, functions and         *)
(* records.                                                               *)
(* SMT calls the smt-solver with the default timeout of 5 seconds         *)
(* while SMTT(n) calls the smt-solver with a timeout of n seconds.        *)
(*                                                                        *)
(* SMTT also accepts a string argument of the form "rN" to bound the      *)
(* underlying Z3 solver by a deterministic `rlimit` budget instead of a    *)
(* wall-clock timeout, e.g. SMTT("r5"). N is a multiple of a fixed base    *)
(* resource count, so a small readable budget like "r5" is meaningful.     *)
(* Unlike a wall-clock timeout, an `rlimit` budget does not depend on CPU  *)
(* speed or load, so the proof's pass/fail outcome reproduces on any       *)
(* machine and every rerun (for a fixed Z3 build); how long it takes to    *)
(* consume the budget still varies by machine. This is Z3-specific.        *)
(**************************************************************************)

SMT == TRUE (*{ by (prover:"smt3") }*)
SMTT(X) == TRUE (*{ by (prover:"smt3"; timeout:@) }*)


(**************************************************************************)
(* Backend pragma: CVC4 SMT solver                                        *)
(*                                                                        *)
(* These methods translate the proof obligation to SMTLIB2 and call CVC4. *)
(**************************************************************************)

(* The CVC3* methods are here for backward compatibility. They call CVC4. *)
CVC3 == TRUE (*{ by (prover: "cvc33") }*)
CVC3T(X) == TRUE (*{ by (prover:"cvc33"; timeout:@) }*)

CVC4 == TRUE (*{ by (prover: "cvc33") }*)
CVC4T(X) == TRUE (*{ by (prover:"cvc33"; timeout:@) }*)


(**************************************************************************)
(* Backend pragma: Yices SMT solver                                       *)
(*                                                                        *)
(* This method translates the proof obligation to Yices native language.  *)
(**************************************************************************)

Yices == TRUE (*{ by (prover: "yices3") }*)
YicesT(X) == TRUE (*{ by (prover:"yices3"; timeout:@) }*)

(**************************************************************************)
(* Backend pragma: veriT SMT solver                                       *)
(*                                                                        *)
(* This method translates the proof obligation to SMTLIB2 and calls veriT.*)
(**************************************************************************)

veriT == TRUE (*{ by (prover: "verit") }*)
veriTT(X) == TRUE (*{ by (prover:"verit"; timeout:@) }*)

(**************************************************************************)
(* Backend pragma: Zipperposition solver                                  *)
(*                                                                        *)
(* This method translates the proof obligation to TPTP and                *)
(* calls Zipperposition.                                                  *)
(**************************************************************************)

Zipper == TRUE (*{ by (prover: "zipper") }*)
ZipperT(X) == TRUE (*{ by (prover:"zipper"; timeout:@) }*)

(**************************************************************************)
(* Backend pragma: Z3 SMT solver                                          *)
(*                                                                        *)
(* This method translates the proof obligation to SMTLIB2 and calls Z3.   *)
(* Z3 is used by default but you can also explicitly call it.             *)
(* Z3T(n) bounds Z3 by a wall-clock timeout of n seconds, while Z3T("rN")  *)
(* bounds it by a deterministic `rlimit` budget of N base units, which      *)
(* reproduces the same outcome on any machine (see SMTT).                   *)
(**************************************************************************)

Z3 == TRUE (*{ by (prover: "z33") }*)
Z3T(X) == TRUE (*{ by (prover:"z33"; timeout:@) }*)

(**************************************************************************)
(* Backend pragma: SPASS superposition prover                             *)
(*                                                                        *)
(* This method translates the proof obligation to the DFG format language *)
(* supported by the ATP SPASS. The translation is based on the SMT one.   *)
(**************************************************************************)

Spass == TRUE (*{ by (prover: "spass") }*)
SpassT(X) == TRUE (*{ by (prover:"spass"; timeout:@) }*)

(**************************************************************************)
(* Backend pragma: The PTL propositional linear time temporal logic       *)
(* prover.  It currently is the LS4 backend.                              *)
(*                                                                        *)
(* This method translates the negetation of the proof obligation to       *)
(* Seperated Normal Form (TRP++ format) and checks for unsatisfiability   *)
(**************************************************************************)

LS4 == TRUE (*{ by (prover: "ls4") }*)
LS4T(X) == TRUE (*{ by (prover: "ls4"; timeout:@) }*)
PTL == TRUE (*{ by (prover: "ls4") }*)

(**************************************************************************)
(* Backend pragma: Zenon with different timeouts (default is 10 seconds)  *)
(*                                                                        *)
(**************************************************************************)

Zenon == TRUE (*{ by (prover:"zenon") }*)
ZenonT(X) == TRUE (*{ by (prover:"zenon"; timeout:@) }*)

(********************************************************************)
(* Backend pragma: Isabelle with different timeouts and tactics     *)
(*  (default is 30 seconds/auto)                                    *)
(********************************************************************)

Isa == TRUE (*{ by (prover:"isabelle") }*)
IsaT(X) ==  TRUE (*{ by (prover:"isabelle"; timeout:@) }*)
IsaM(X) ==  TRUE (*{ by (prover:"isabelle"; tactic:@) }*)
IsaMT(X,Y) ==  TRUE (*{ by (prover:"isabelle"; tactic:@; timeout:@) }*)

(***************************************************************************)
(* The following theorem expresses the (useful implication of the) law of  *)
(* set extensionality, which can be written as                             *)
(*                                                                         *)
(*    THEOREM  \A S, T : (S = T) <=> (\A x : (x \in S) <=> (x \in T))      *)
(*                                                                         *)
(* Theorem SetExtensionality is sometimes required by the SMT backend for  *)
(* reasoning about sets. It is usually counterproductive to include        *)
(* theorem SetExtensionality in a BY clause for the Zenon or Isabelle      *)
(* backends. Instead, use the pragma IsaWithSetExtensionality to instruct  *)
(* the Isabelle backend to use the rule of set extensionality.             *)
(***************************************************************************)
IsaWithSetExtensionality == TRUE
           (*{ by (prover:"isabelle"; tactic:"(auto intro: setEqualI)")}*)

THEOREM SetExtensionality == \A S,T : (\A x : x \in S <=> x \in T) => S = T
OBVIOUS

(***************************************************************************)
(* The following theorem is needed to deduce NotInSetS \notin SetS from    *)
(* the definition                                                          *)
(*                                                                         *)
(*   NotInSetS == CHOOSE v : v \notin SetS                                 *)
(***************************************************************************)
THEOREM NoSetContainsEverything == \A S : \E x : x \notin S
OBVIOUS (*{by (isabelle "(auto intro: inIrrefl)")}*)
-----------------------------------------------------------------------------



(********************************************************************)
(********************************************************************)
(********************************************************************)


(********************************************************************)
(* Old versions of Zenon and Isabelle pragmas below                 *)
(* (kept for compatibility)                                         *)
(********************************************************************)


(**************************************************************************)
(* Backend pragma: Zenon with different timeouts (default is 10 seconds)  *)
(*                                                                        *)
(**************************************************************************)

SlowZenon == TRUE (*{ by (prover:"zenon"; timeout:20) }*)
SlowerZenon == TRUE (*{ by (prover:"zenon"; timeout:40) }*)
VerySlowZenon == TRUE (*{ by (prover:"zenon"; timeout:80) }*)
SlowestZenon == TRUE (*{ by (prover:"zenon"; timeout:160) }*)



(********************************************************************)
(* Backend pragma: Isabelle's automatic search ("auto")             *)
(*                                                                  *)
(* This pragma bypasses Zenon. It is useful in situations involving *)
(* essentially simplification and equational reasoning.             *)
(* Default imeout for all isabelle tactics is 30 seconds.           *)
(********************************************************************)
Auto == TRUE (*{ by (prover:"isabelle"; tactic:"auto") }*)
SlowAuto == TRUE (*{ by (prover:"isabelle"; tactic:"auto"; timeout:120) }*)
SlowerAuto == TRUE (*{ by (prover:"isabelle"; tactic:"auto"; timeout:480) }*)
SlowestAuto == TRUE (*{ by (prover:"isabelle"; tactic:"auto"; timeout:960) }*)

(********************************************************************)
(* Backend pragma: Isabelle's "force" tactic                        *)
(*                                                                  *)
(* This pragma bypasses Zenon. It is useful in situations involving *)
(* quantifier reasoning.                                            *)
(********************************************************************)
Force == TRUE (*{ by (prover:"isabelle"; tactic:"force") }*)
SlowForce == TRUE (*{ by (prover:"isabelle"; tactic:"force"; timeout:120) }*)
SlowerForce == TRUE (*{ by (prover:"isabelle"; tactic:"force"; timeout:480) }*)
SlowestForce == TRUE (*{ by (prover:"isabelle"; tactic:"force"; timeout:960) }*)

(***********************************************************************)
(* Backend pragma: Isabelle's "simplification" tactics                 *)
(*                                                                     *)
(* These tactics simplify the goal before running one of the automated *)
(* tactics. They are often necessary for obligations involving record  *)
(* or tuple projections. Use the SimplfyAndSolve tactic unless you're  *)
(* sure you can get away with just Simplification                      *)
(***********************************************************************)
SimplifyAndSolve        == TRUE
    (*{ by (prover:"isabelle"; tactic:"clarsimp auto?") }*)
SlowSimplifyAndSolve    == TRUE
    (*{ by (prover:"isabelle"; tactic:"clarsimp auto?"; timeout:120) }*)
SlowerSimplifyAndSolve  == TRUE
    (*{ by (prover:"isabelle"; tactic:"clarsimp auto?"; timeout:480) }*)
SlowestSimplifyAndSolve == TRUE
    (*{ by (prover:"isabelle"; tactic:"clarsimp auto?"; timeout:960) }*)

Simplification == TRUE (*{ by (prover:"isabelle"; tactic:"clarsimp") }*)
SlowSimplification == TRUE
    (*{ by (prover:"isabelle"; tactic:"clarsimp"; timeout:120) }*)
SlowerSimplification  == TRUE
    (*{ by (prover:"isabelle"; tactic:"clarsimp"; timeout:480) }*)
SlowestSimplification == TRUE
    (*{ by (prover:"isabelle"; tactic:"clarsimp"; timeout:960) }*)

(**************************************************************************)
(* Backend pragma: Isabelle's tableau prover ("blast")                    *)
(*                                                                        *)
(* This pragma bypasses Zenon and uses Isabelle's built-in theorem        *)
(* prover, Blast. It is almost never better than Zenon by itself, but     *)
(* becomes very useful in combination with the Auto pragma above. The     *)
(* AutoBlast pragma first attempts Auto and then uses Blast to prove what *)
(* Auto could not prove. (There is currently no way to use Zenon on the   *)
(* results left over from Auto.)                                          *)
(**************************************************************************)
Blast == TRUE (*{ by (prover:"isabelle"; tactic:"blast") }*)
SlowBlast == TRUE (*{ by (prover:"isabelle"; tactic:"blast"; timeout:120) }*)
SlowerBlast == TRUE (*{ by (prover:"isabelle"; tactic:"blast"; timeout:480) }*)
SlowestBlast == TRUE (*{ by (prover:"isabelle"; tactic:"blast"; timeout:960) }*)

AutoBlast == TRUE (*{ by (prover:"isabelle"; tactic:"auto, blast") }*)


(**************************************************************************)
(* Backend pragmas: multi-back-ends                                       *)
(*                                                                        *)
(* These pragmas just run a bunch of back-ends one after the other in the *)
(* hope that one will succeed. This saves time and effort for the user at *)
(* the expense of computation time.                                       *)
(**************************************************************************)

(* CVC3 goes first because it's bundled with TLAPS, then the other SMT
   solvers are unlikely to succeed if CVC3 fails, so we run zenon and
   Isabelle before them. *)
AllProvers == TRUE (*{
    by (prover:"cvc33")
    by (prover:"zenon")
    by (prover:"isabelle"; tactic:"auto")
    by (prover:"spass")
    by (prover:"smt3")
    by (prover:"yices3")
    by (prover:"verit")
    by (prover:"z33")
    by (prover:"isabelle"; tactic:"force")
    by (prover:"isabelle"; tactic:"(auto intro: setEqualI)")
    by (prover:"isabelle"; tactic:"clarsimp auto?")
    by (prover:"isabelle"; tactic:"clarsimp")
    by (prover:"isabelle"; tactic:"auto, blast")
  }*)
AllProversT(X) == TRUE (*{
    by (prover:"cvc33"; timeout:@)
    by (prover:"zenon"; timeout:@)
    by (prover:"isabelle"; tactic:"auto"; timeout:@)
    by (prover:"spass"; timeout:@)
    by (prover:"smt3"; timeout:@)
    by (prover:"yices3"; timeout:@)
    by (prover:"verit"; timeout:@)
    by (prover:"z33"; timeout:@)
    by (prover:"isabelle"; tactic:"force"; timeout:@)
    by (prover:"isabelle"; tactic:"(auto intro: setEqualI)"; timeout:@)
    by (prover:"isabelle"; tactic:"clarsimp auto?"; timeout:@)
    by (prover:"isabelle"; tactic:"clarsimp"; timeout:@)
    by (prover:"isabelle"; tactic:"auto, blast"; timeout:@)
  }*)

AllSMT == TRUE (*{
    by (prover:"cvc33")
    by (prover:"smt3")
    by (prover:"yices3")
    by (prover:"verit")
    by (prover:"z33")
  }*)
AllSMTT(X) == TRUE (*{
    by (prover:"cvc33"; timeout:@)
    by (prover:"smt3"; timeout:@)
    by (prover:"yices3"; timeout:@)
    by (prover:"verit"; timeout:@)
    by (prover:"z33"; timeout:@)
  }*)

AllIsa == TRUE (*{
    by (prover:"isabelle"; tactic:"auto")
    by (prover:"isabelle"; tactic:"force")
    by (prover:"isabelle"; tactic:"(auto intro: setEqualI)")
    by (prover:"isabelle"; tactic:"clarsimp auto?")
    by (prover:"isabelle"; tactic:"clarsimp")
    by (prover:"isabelle"; tactic:"auto, blast")
  }*)
AllIsaT(X) == TRUE (*{
    by (prover:"isabelle"; tactic:"auto"; timeout:@)
    by (prover:"isabelle"; tactic:"force"; timeout:@)
    by (prover:"isabelle"; tactic:"(auto intro: setEqualI)"; timeout:@)
    by (prover:"isabelle"; tactic:"clarsimp auto?"; timeout:@)
    by (prover:"isabelle"; tactic:"clarsimp"; timeout:@)
    by (prover:"isabelle"; tactic:"auto, blast"; timeout:@)
  }*)


(**************************************************************************)
(* The pragma ExpandEnabled invokes expansion of the operator ENABLED.    *)
(*                                                                        *)
(* The pragma ExpandCdot invokes expansion of the operator \cdot.         *)
(*                                                                        *)
(* The pragma AutoUSE invokes automated expansion of definitions,         *)
(* for both of ExpandEnabled and ExpandCdot, when each is present.        *)
(*                                                                        *)
(* The pragma Lambdify invokes expansion of the operators                 *)
(* ENABLED and \cdot to an intermediate form with bound VARIABLES,        *)
(* which is a form before introducing rigid quantifiers.                  *)
(* The pragma Lambdify is sound for occurrences of ENABLED and \cdot      *)
(* that are not nested.                                                   *)
(**************************************************************************)
ExpandENABLED == TRUE  (*{ by (prover:"expandenabled") }*)
ExpandCdot == TRUE  (*{ by (prover:"expandcdot") }*)
AutoUSE == TRUE  (*{ by (prover:"autouse") }*)
Lambdify == TRUE  (*{ by (prover:"lambdify") }*)
ENABLEDaxioms == TRUE  (*{ by (prover:"enabledaxioms") }*)
LevelComparison == TRUE  (*{ by (prover:"levelcomparison") }*)

(* The operators EnabledWrapper and CdotWrapper occur in an intermediate  *)
(* representation within TLAPM.                                           *)
EnabledWrapper(Op(_)) == FALSE
CdotWrapper(Op(_)) == FALSE

(***************************************************************************)
(* The following may be used in a `BY ONLY ThmName` for unit testing the   *)
(* triviality checks in TLAPM.                                             *)
(***************************************************************************)
Trivial == TRUE  (*{ by (prover:"trivial") }*)


=============================================================================

The material below is obsolete: the TLA proof rules below are superseded by
the PTL decision procedure, and their formulation is unsound for the semantics
of temporal reasoning that TLAPS adopts.

----------------------------------------------------------------------------
(***************************************************************************)
(*                           TEMPORAL LOGIC                                *)
(*                                                                         *)
(* The following rules are intended to be used when TLAPS handles temporal *)
(* logic.  They will not work now.  Moreover when temporal reasoning is    *)
(* implemented, these rules may be changed or omitted, and additional      *)
(* rules will probably be added.  However, they are included mainly so     *)
(* their names will be defined, preventing the use of identifiers that are *)
(* likely to produce name clashes with future versions of this module.     *)
(***************************************************************************)


(***************************************************************************)
(* The following proof rules (and their names) are from the paper "The     *)
(* Temporal Logic of Actions".                                             *)
(***************************************************************************)
THEOREM RuleTLA1 == ASSUME STATE P, STATE f,
                           P /\ (f' = f) => P'
                    PROVE  []P <=> P /\ [][P => P']_f

THEOREM RuleTLA2 == ASSUME STATE P, STATE Q, STATE f, STATE g,
                           ACTION A, ACTION B,
                           P /\ [A]_f => Q /\ [B]_g
                    PROVE  []P /\ [][A]_f => []Q /\ [][B]_g

THEOREM RuleINV1 == ASSUME STATE I, STATE F,  ACTION N,
                           I /\ [N]_F => I'
                    PROVE  I /\ [][N]_F => []I

THEOREM RuleINV2 == ASSUME STATE I, STATE f, ACTION N
                    PROVE  []I => ([][N]_f <=> [][N /\ I /\ I']_f)

THEOREM RuleWF1 == ASSUME STATE P, STATE Q, STATE f, ACTION N, ACTION A,
                          P /\ [N]_f => (P' \/ Q'),
                          P /\ <<N /\ A>>_f => Q',
                          P => ENABLED <<A>>_f
                   PROVE  [][N]_f /\ WF_f(A) => (P ~> Q)

THEOREM RuleSF1 == ASSUME STATE P, STATE Q, STATE f,
                          ACTION N, ACTION A, TEMPORAL F,
                          P /\ [N]_f => (P' \/ Q'),
                          P /\ <<N /\ A>>_f => Q',
                          []P /\ [][N]_f /\ []F => <> ENABLED <<A>>_f
                   PROVE  [][N]_f /\ SF_f(A) /\ []F => (P ~> Q)

(***************************************************************************)
(* The rules WF2 and SF2 in "The Temporal Logic of Actions" are obtained   *)
(* from the following two rules by the following substitutions: `.         *)
(*                                                                         *)
(*          ___        ___         _______________                         *)
(*      M <- M ,   g <- g ,  EM <- ENABLED <<M>>_g       .'                *)
(***************************************************************************)
THEOREM RuleWF2 == ASSUME STATE P, STATE f, STATE g, STATE EM,
                          ACTION A, ACTION B, ACTION N, ACTION M,
                          TEMPORAL F,
                          <<N /\ B>>_f => <<M>>_g,
                          P /\ P' /\ <<N /\ A>>_f /\ EM => B,
                          P /\ EM => ENABLED A,
                          [][N /\ ~B]_f /\ WF_f(A) /\ []F /\ <>[]EM => <>[]P
                   PROVE  [][N]_f /\ WF_f(A) /\ []F => []<><<M>>_g \/ []<>(~EM)

THEOREM RuleSF2 == ASSUME STATE P, STATE f, STATE g, STATE EM,
                          ACTION A, ACTION B, ACTION N, ACTION M,
                          TEMPORAL F,
                          <<N /\ B>>_f => <<M>>_g,
                          P /\ P' /\ <<N /\ A>>_f /\ EM => B,
                          P /\ EM => ENABLED A,
                          [][N /\ ~B]_f /\ SF_f(A) /\ []F /\ []<>EM => <>[]P
                   PROVE  [][N]_f /\ SF_f(A) /\ []F => []<><<M>>_g \/ <>[](~EM)


(***************************************************************************)
(* The following rule is a special case of the general temporal logic      *)
(* proof rule STL4 from the paper "The Temporal Logic of Actions".  The    *)
(* general rule is for arbitrary temporal formulas F and G, but it cannot  *)
(* yet be handled by TLAPS.                                                *)
(***************************************************************************)
THEOREM RuleInvImplication ==
  ASSUME STATE F, STATE G,
         F => G
  PROVE  []F => []G
PROOF OMITTED

(***************************************************************************)
(* The following rule is a special case of rule TLA2 from the paper "The   *)
(* Temporal Logic of Actions".                                             *)
(***************************************************************************)
THEOREM RuleStepSimulation ==
  ASSUME STATE I, STATE f, STATE g,
         ACTION M, ACTION N,
         I /\ I' /\ [M]_f => [N]_g
  PROVE  []I /\ [][M]_f => [][N]_g
PROOF OMITTED

(***************************************************************************)
(* The following may be used to invoke a decision procedure for            *)
(* propositional temporal logic.                                           *)
(***************************************************************************)
PropositionalTemporalLogic == TRUE
=============================================================================
