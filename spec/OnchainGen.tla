------------------------------ MODULE OnchainGen ------------------------------
(***************************************************************************)
(* The case matrix of C08, generated from the specification: every case is *)
(* an abstract on-chain transaction (input kinds, output kinds, channels,  *)
(* allowlist switches, policy) with EXACT amounts computed here from the    *)
(* model (code-shaped fee cap, reference cap, u32-truncation and u64-wrap   *)
(* candidates, overflow candidates ...).  A session is a sequence of steps *)
(* run against one fresh node (the stateless matrix = one-step sessions;    *)
(* longer sessions exercise the fee velocity limit).                        *)
(*                                                                         *)
(* step = [grp, fee, fam, pol, ver, pad, ins <<[kind, v, slot]>>,           *)
(*         outs <<[kind, v, slot]>>, chans <<[val, outbound, push, commit, at]>>, *)
(*         listed, xpub, approve, jump, sign]                               *)
(* sign: the harness also lets the real node SIGN the transaction and      *)
(* measures the weight of the finalised transaction (group G10).           *)
(***************************************************************************)
EXTENDS Onchain, SequencesExt

Pol(maxfr, ivl, limit, filt) ==
  [maxfr |-> maxfr, unl |-> (ivl = "unlimited"), limit |-> limit, ivl |-> ivl, filt |-> filt]
PU == Pol(25000, "unlimited", Big0, "none")            \* fee-rate bound on its own
PD == Pol(25000, "daily", B(1000000000), "none")       \* the default fee velocity control
PX == Pol(333333, "unlimited", Big0, "other")          \* testnet maximum, warn-only filter on other tags
PH == Pol(25000, "hourly", B(25000000), "none")        \* small hourly limit for the sessions

TinyKinds == {"U", "Ut", "Up"}                          \* foreign outputs small enough to be a sole reason
DefVal(kind, k) == IF kind \in TinyKinds THEN B(5 + k)
                   ELSE IF kind \in FundKinds THEN B(1000000 + 1000 * k)
                   ELSE B(100000 * k + 17)
\* slot: which key the script is built from (0 = the output's own position; for funding kinds the
\* channel whose keys are used, 0 = the next channel).  Outputs of one kind with the same slot carry
\* the SAME script_pubkey (and path).
\* al: the output's script is ALSO put into the allowlist as an address (class memberships overlap)
Out(kind, v) == [kind |-> kind, v |-> v, slot |-> 0, al |-> FALSE]
OutS(kind, v, slot) == [kind |-> kind, v |-> v, slot |-> slot, al |-> FALSE]
OutA(kind, v, al) == [kind |-> kind, v |-> v, slot |-> 0, al |-> al]
OutsOf(kinds) == [k \in 1..Len(kinds) |-> Out(kinds[k], DefVal(kinds[k], k))]
Chan(val, outbound, push, commit, at) ==
  [val |-> val, outbound |-> outbound, push |-> push, commit |-> commit, at |-> at]
GoodChansFor(outs) ==
  LET idx == SelectSeq([k \in 1..Len(outs) |-> k], LAMBDA k : outs[k].kind \in FundKinds)
  IN [j \in 1..Len(idx) |-> Chan(outs[idx[j]].v, TRUE, Big0, "active", idx[j])]

Skel(pol, inKinds, outs, chans, listed, xpub) ==
  [pol |-> pol, ver |-> 2, pad |-> 0,
   ins |-> [k \in 1..Len(inKinds) |-> [kind |-> inKinds[k], v |-> Big0, slot |-> 0]],
   outs |-> outs, chans |-> chans, listed |-> listed, xpub |-> xpub, ownxpub |-> FALSE, sign |-> FALSE]

\* inputs 2.. carry k satoshi each, input 1 the rest of `total`
Oth(sk) == SumInt([k \in 1..Len(sk.ins) |-> k], LAMBDA k : IF k = 1 THEN 0 ELSE k)
Feasible(sk, total) == BLe(B(Oth(sk)), total) /\ BLe(total, U64MAX)
SetIns(sk, total) ==
  [sk EXCEPT !.ins = [k \in DOMAIN sk.ins |->
                        [kind |-> sk.ins[k].kind, slot |-> sk.ins[k].slot,
                         v |-> IF k = 1 THEN BSub(total, B(Oth(sk))) ELSE B(k)]]]
SumOuts(sk) == SumBig(sk.outs, LAMBDA o : o.v)

\* the weight the code at HEAD divides by (flat witness charge, see Onchain!Sw) / the intended algorithm's
CW(sk)  == CodeWeight(Facts(sk), TRUE)
CWi(sk) == CodeWeight(Facts(sk), FALSE)
\* largest value the code's fee-rate rule accepts: (nb*1000+999) div W <= maxfr
CapOf(sk, W) == BSub(BDiv(BMul(B(W), sk.pol.maxfr + 1), 1000), B(1))
CapCode(sk) == CapOf(sk, CW(sk))
\* largest value the reference does not refuse
RefCap(sk)  == BSub(FeeFloor(Facts(sk)), B(1))
\* true rate 2^32 + r per kw: the class the `as u32` cast maps to rate r
W32(sk, r)  == BDiv(BMul(BAdd(TwoP32, B(r)), CW(sk)), 1000)
\* smallest value whose msat amount does not fit u64
N64 == BCeilDiv(TwoP64, 1000)

FeeSpecs ==
  { [n |-> "zero", fam |-> "small"], [n |-> "one", fam |-> "small"], [n |-> "half", fam |-> "small"],
    [n |-> "cap-1", fam |-> "cap"], [n |-> "cap", fam |-> "cap"], [n |-> "cap+1", fam |-> "cap"],
    [n |-> "rcap", fam |-> "cap"], [n |-> "rcap+1", fam |-> "above"], [n |-> "2rcap", fam |-> "above"],
    [n |-> "w32+0", fam |-> "wrap32"], [n |-> "w32+3", fam |-> "wrap32"], [n |-> "w32+max", fam |-> "wrap32"],
    [n |-> "w32+over", fam |-> "wrap32"],
    [n |-> "w64-1", fam |-> "wrap64"], [n |-> "w64+0", fam |-> "wrap64"], [n |-> "w64+9", fam |-> "wrap64"],
    [n |-> "1e15", fam |-> "huge"], [n |-> "under1", fam |-> "under"], [n |-> "underall", fam |-> "under"] }
\* fees as large as an output: what a validator that counts an output twice would not see
BurnSpecs ==
  { [n |-> "out1", fam |-> "burn"], [n |-> "out1+cap", fam |-> "burn"], [n |-> "out1+cap+1", fam |-> "burn"],
    [n |-> "outL+cap", fam |-> "burn"] }
\* more edges around the weight-dependent bound (group G10): just below the reference's cap, and the cap
\* of the intended algorithm where it differs from HEAD's
WeightSpecs ==
  { [n |-> "rcap-1", fam |-> "cap"], [n |-> "icap", fam |-> "cap"], [n |-> "icap+1", fam |-> "cap"] }
FS(n) == CHOOSE f \in FeeSpecs \cup BurnSpecs \cup WeightSpecs : f.n = n
IsUnder(f) == f.fam = "under"
Fee(sk, n) ==
  CASE n = "zero" -> Big0 [] n = "one" -> B(1) [] n = "half" -> BDiv(CapCode(sk), 2)
    [] n = "cap-1" -> BSub(CapCode(sk), B(1)) [] n = "cap" -> CapCode(sk) [] n = "cap+1" -> BAdd(CapCode(sk), B(1))
    [] n = "rcap" -> RefCap(sk) [] n = "rcap+1" -> BAdd(RefCap(sk), B(1)) [] n = "2rcap" -> BMul(RefCap(sk), 2)
    [] n = "rcap-1" -> BSub(RefCap(sk), B(1))
    [] n = "icap" -> CapOf(sk, CWi(sk)) [] n = "icap+1" -> BAdd(CapOf(sk, CWi(sk)), B(1))
    [] n = "w32+0" -> W32(sk, 0) [] n = "w32+3" -> W32(sk, 3) [] n = "w32+max" -> W32(sk, sk.pol.maxfr - 5)
    [] n = "w32+over" -> W32(sk, sk.pol.maxfr + 5)
    [] n = "w64-1" -> BSub(N64, B(1)) [] n = "w64+0" -> N64 [] n = "w64+9" -> BAdd(N64, B(9))
    [] n = "1e15" -> <<0, 0, 0, 0, 0, 1, 0, 0>>
    [] n = "out1" -> sk.outs[1].v [] n = "out1+cap" -> BAdd(sk.outs[1].v, CapCode(sk))
    [] n = "out1+cap+1" -> BAdd(sk.outs[1].v, BAdd(CapCode(sk), B(1)))
    [] n = "outL+cap" -> BAdd(sk.outs[Len(sk.outs)].v, CapCode(sk))
Total(sk, f) ==
  IF f.n = "under1" THEN (IF BLt(Big0, SumOuts(sk)) THEN BSub(SumOuts(sk), B(1)) ELSE Big0)
  ELSE IF f.n = "underall" THEN B(Oth(sk))
  ELSE BAdd(SumOuts(sk), Fee(sk, f.n))

Mk(grp, f, sk, approve, jump) ==
  [grp |-> grp, fee |-> f.n, fam |-> f.fam, approve |-> approve, jump |-> jump] @@ SetIns(sk, Total(sk, f))
\* the steps of one skeleton over a set of fee classes
StepsOf(grp, sk, fees, approve) ==
  {Mk(grp, f, sk, approve, FALSE) : f \in {g \in fees : Feasible(sk, Total(sk, g))}}
\* a step with explicitly given input values
Direct(grp, label, fam, sk, inVals) ==
  [grp |-> grp, fee |-> label, fam |-> fam, approve |-> TRUE, jump |-> FALSE]
    @@ [sk EXCEPT !.ins = [k \in DOMAIN sk.ins |-> [kind |-> sk.ins[k].kind, slot |-> sk.ins[k].slot, v |-> inVals[k]]]]
\* inputs paying from the same key (same previous script_pubkey)
WithInSlots(sk, slots) == [sk EXCEPT !.ins = [k \in DOMAIN sk.ins |-> [sk.ins[k] EXCEPT !.slot = slots[k]]]]

SeqsUpTo(S, n) == UNION {[1..m -> S] : m \in 0..n}
HasOwn(ks, owns) == \E k \in DOMAIN ks : KindTab[ks[k]].own \in owns

---------------------------------------------------------------------------
\* G1: classification of outputs - every sequence of output kinds, allowlist switches
G1KS == SimpleKinds \cup FundKinds
G1len(T) == IF T = "quick" THEN 2 ELSE 3
\* the sequences of the group whose first kind is in `firsts` ("" stands for the empty sequence)
G1part(T, firsts) ==
  LET flags(ks) == IF HasOwn(ks, {"listed", "xpub"})
                   THEN {<<TRUE, TRUE>>, <<FALSE, FALSE>>, <<TRUE, FALSE>>, <<FALSE, TRUE>>}
                   ELSE {<<TRUE, TRUE>>}
      one(ks, fl, ap) == LET outs == OutsOf(ks) IN
                         StepsOf("G1", Skel(PU, <<"p2wpkh">>, outs, GoodChansFor(outs), fl[1], fl[2]),
                                 {FS("one")}, ap)
      seqs == {ks \in SeqsUpTo(G1KS, G1len(T)) : IF Len(ks) = 0 THEN "" \in firsts ELSE ks[1] \in firsts}
  IN UNION {UNION {UNION {one(ks, fl, ap) : ap \in (IF Len(ks) <= 1 THEN BOOLEAN ELSE {TRUE})}
                   : fl \in flags(ks)} : ks \in seqs}
G1(T) == G1part(T, G1KS \cup {""})

\* G2: fee edges - skeletons x input configurations x fee classes x policies
InCfgs(T) ==
  {<<"p2wpkh">>, <<"p2wpkh", "p2tr">>, <<"p2wpkh", "uck">>, <<"p2wpkh", "odd">>}
    \cup (IF T = "quick" THEN {}
          ELSE {<<"p2tr">>, <<"uck">>, <<"p2wpkh", "p2wpkh", "p2tr">>, <<"p2pkh">>, <<"p2wpkh", "p2sh">>,
                <<"p2wpkh", "p2wpkhU">>})
G2(T) ==
  LET SK   == {<<>>, <<"W">>, <<"W", "L">>, <<"F", "W">>, <<"X", "W", "W">>, <<"F", "F", "W">>,
               <<"Wt", "Ws", "L", "X">>}
      pols == IF T = "quick" THEN {PU, PD} ELSE {PU, PD, PX, PH}
  IN UNION {UNION {UNION {LET outs == OutsOf(ks) IN
                          StepsOf("G2", Skel(p, ic, outs, GoodChansFor(outs), TRUE, TRUE), FeeSpecs, TRUE)
                          : p \in pols} : ic \in InCfgs(T)} : ks \in SK}

\* G3: channel funding outputs - every combination of the attributes the property names
ChanVal == B(1001000)
Delta(v, d) == IF d = "eq" THEN v ELSE IF d = "-1" THEN BSub(v, B(1)) ELSE BAdd(v, B(1))
G3one(T) ==
  LET pols == IF T = "quick" THEN {PU} ELSE {PU, PD}
      fees == IF T = "quick" THEN {FS("one")} ELSE {FS("one"), FS("cap"), FS("rcap+1")}
  IN UNION {UNION {UNION {UNION {UNION {UNION {UNION {
       StepsOf("G3", Skel(p, <<"p2wpkh">>, <<Out(kind, Delta(ChanVal, d)), Out("W", B(200017))>>,
                          <<Chan(ChanVal, ob, B(push), cm, at)>>, TRUE, TRUE), fees, TRUE)
       : p \in pols} : at \in {0, 1}} : cm \in {"none", "validated", "active", "advanced"}}
       : push \in {0, 999, 1000, 100000000}} : ob \in BOOLEAN} : kind \in {"F", "Fb"}} : d \in {"eq", "-1", "+1"}}
\* a good channel and single defects
SD == { [d |-> "eq", kind |-> "F",  ob |-> TRUE,  push |-> 0,    cm |-> "active"],
        [d |-> "-1", kind |-> "F",  ob |-> TRUE,  push |-> 0,    cm |-> "active"],
        [d |-> "+1", kind |-> "F",  ob |-> TRUE,  push |-> 0,    cm |-> "active"],
        [d |-> "eq", kind |-> "Fb", ob |-> TRUE,  push |-> 0,    cm |-> "active"],
        [d |-> "eq", kind |-> "F",  ob |-> FALSE, push |-> 0,    cm |-> "active"],
        [d |-> "eq", kind |-> "F",  ob |-> TRUE,  push |-> 1000, cm |-> "active"],
        [d |-> "eq", kind |-> "F",  ob |-> TRUE,  push |-> 999,  cm |-> "active"],
        [d |-> "eq", kind |-> "F",  ob |-> TRUE,  push |-> 0,    cm |-> "none"],
        [d |-> "eq", kind |-> "F",  ob |-> TRUE,  push |-> 0,    cm |-> "validated"],
        [d |-> "eq", kind |-> "F",  ob |-> TRUE,  push |-> 0,    cm |-> "advanced"] }
Val2 == B(1502000)
G3two ==
  UNION {UNION {
    StepsOf("G3", Skel(PU, <<"p2wpkh", "p2tr">>,
                       <<Out(x.kind, Delta(ChanVal, x.d)), Out(y.kind, Delta(Val2, y.d)), Out("W", B(300017))>>,
                       <<Chan(ChanVal, x.ob, B(x.push), x.cm, 1), Chan(Val2, y.ob, B(y.push), y.cm, 2)>>,
                       TRUE, TRUE), {FS("one")}, TRUE)
    : y \in SD} : x \in SD}
\* a channel next to an unknown destination (what is reported; nothing may be accepted)
G3unk ==
  UNION {UNION {
    StepsOf("G3", Skel(PU, <<"p2wpkh">>, <<Out(x.kind, Delta(ChanVal, x.d)), Out("U", B(7))>>,
                       <<Chan(ChanVal, x.ob, B(x.push), x.cm, 1)>>, TRUE, TRUE), {FS("one")}, ap)
      \cup StepsOf("G3", Skel(PU, <<"p2wpkh">>, <<Out("U", B(7)), Out(x.kind, Delta(ChanVal, x.d))>>,
                              <<Chan(ChanVal, x.ob, B(x.push), x.cm, 2)>>, TRUE, TRUE), {FS("one")}, ap)
    : ap \in BOOLEAN} : x \in SD}
\* inputs that are not known to be segwit, with and without a channel being funded
G3seg ==
  UNION {UNION {
    StepsOf("G3", Skel(PU, ic, <<Out("F", ChanVal), Out("W", B(200017))>>,
                       <<Chan(ChanVal, TRUE, Big0, "active", at)>>, TRUE, TRUE), {FS("one")}, TRUE)
    : at \in {0, 1}}
    : ic \in {<<"p2pkh">>, <<"p2wpkh", "p2sh">>, <<"p2wpkh", "p2wpkhU">>, <<"p2wpkh", "odd">>,
              <<"p2wpkh", "uck">>, <<"p2tr">>, <<"p2sh", "p2wpkh">>}}
G3(T) == G3one(T) \cup G3two \cup G3unk \cup G3seg

\* G4: u64 overflow candidates, given explicitly
TOP == U64MAX
G4 ==
  LET sk(ic, outs) == Skel(PU, ic, outs, <<>>, TRUE, TRUE)
      skd(ic, outs) == Skel(PD, ic, outs, <<>>, TRUE, TRUE)
      capW == CapCode(sk(<<"p2wpkh">>, <<Out("W", B(1))>>)) IN
  { Direct("G4", "in-overflow", "top", sk(<<"p2wpkh", "p2tr">>, <<Out("W", B(5))>>), <<TOP, B(1)>>),
    Direct("G4", "in-overflow2", "top", sk(<<"p2wpkh", "p2tr">>, <<Out("W", TOP)>>), <<TOP, TOP>>),
    Direct("G4", "top-to-wallet", "top", sk(<<"p2wpkh">>, <<Out("W", TOP)>>), <<TOP>>),
    Direct("G4", "top-1", "top", sk(<<"p2wpkh">>, <<Out("W", BSub(TOP, B(1)))>>), <<TOP>>),
    Direct("G4", "top-cap", "top", sk(<<"p2wpkh">>, <<Out("W", BSub(TOP, capW))>>), <<TOP>>),
    Direct("G4", "top-cap-1", "top", sk(<<"p2wpkh">>, <<Out("W", BSub(BSub(TOP, capW), B(1)))>>), <<TOP>>),
    Direct("G4", "ben-overflow", "top", sk(<<"p2wpkh">>, <<Out("W", TOP), Out("W", B(1))>>), <<TOP>>),
    Direct("G4", "ben-overflow-list", "top", sk(<<"p2wpkh">>, <<Out("W", B(90000)), Out("L", TOP)>>), <<B(5)>>),
    Direct("G4", "ben-overflow-xpub", "top", sk(<<"p2wpkh">>, <<Out("X", TOP), Out("X", TOP)>>), <<TOP>>),
    Direct("G4", "top-fee", "top", sk(<<"p2wpkh">>, <<Out("W", B(5))>>), <<TOP>>),
    Direct("G4", "top-fee-noout", "top", sk(<<"p2wpkh">>, <<>>), <<TOP>>),
    Direct("G4", "top-fee-daily", "top", skd(<<"p2wpkh">>, <<Out("W", B(5))>>), <<TOP>>),
    Direct("G4", "top-unknown", "top", sk(<<"p2wpkh">>, <<Out("U", TOP)>>), <<TOP>>),
    Direct("G4", "top-unknown-small-in", "top", sk(<<"p2wpkh">>, <<Out("U", TOP), Out("W", B(3))>>), <<B(10)>>),
    Direct("G4", "two-top-outs", "top", sk(<<"p2wpkh">>, <<Out("W", TOP), Out("L", TOP)>>), <<B(5)>>),
    Direct("G4", "2p32-in", "top", sk(<<"p2wpkh">>, <<Out("W", B(5))>>), <<TwoP32>>),
    Direct("G4", "zero-all", "top", sk(<<"p2wpkh">>, <<Out("W", Big0)>>), <<Big0>>) }

\* G5: documented format rules (version, size) - conformance only, not part of the property
PadFor(sk, target) == target - (BaseSize(sk) - 1) - 3
G5 ==
  LET sk0 == Skel(PU, <<"p2wpkh">>, OutsOf(<<"W">>), <<>>, TRUE, TRUE)
      sku == Skel(PU, <<"p2wpkh">>, OutsOf(<<"W", "U">>), <<>>, TRUE, TRUE) IN
  UNION {StepsOf("G5", [sk0 EXCEPT !.ver = v], {FS("one")}, TRUE) : v \in {1, 2, 3}}
    \cup UNION {StepsOf("G5", [sku EXCEPT !.ver = v], {FS("one")}, TRUE) : v \in {1, 3}}
    \cup UNION {StepsOf("G5", [sk0 EXCEPT !.pad = PadFor(sk0, t)], {FS("one"), FS("cap"), FS("cap+1")}, TRUE)
                : t \in {32767, 32768, 32769}}

\* G7: EQUAL things and ORDER - outputs repeating one script_pubkey (same / different values, adjacent
\* or separated, 2 or 3 repeats, unknown destinations and beneficial controls), one channel's funding
\* script twice in a transaction, inputs paying from one key with equal values
RepA == B(10000)
RepB == B(2000000)
\* pattern element: <<role, slot>>; role "R" = the repeated kind, "Q" = another unknown kind, "W" = wallet change
RepPatterns ==
  { <<<<"R", 1>>, <<"R", 1>>>>, <<<<"W", 9>>, <<"R", 1>>, <<"R", 1>>>>, <<<<"R", 1>>, <<"W", 9>>, <<"R", 1>>>>,
    <<<<"R", 1>>, <<"R", 1>>, <<"W", 9>>>>, <<<<"R", 1>>, <<"R", 1>>, <<"R", 1>>>>,
    <<<<"R", 1>>, <<"W", 9>>, <<"R", 1>>, <<"R", 1>>>>, <<<<"R", 1>>, <<"Q", 2>>, <<"R", 1>>>>,
    <<<<"R", 1>>, <<"R", 1>>, <<"Q", 2>>, <<"Q", 2>>>>, <<<<"R", 1>>, <<"R", 2>>, <<"R", 1>>>> }
RepVal(variant, i) ==
  CASE variant = "same" -> RepA [] variant = "ab" -> (IF i % 2 = 1 THEN RepA ELSE RepB)
    [] variant = "ba" -> (IF i % 2 = 1 THEN RepB ELSE RepA) [] variant = "tiny" -> B(7)
RepOuts(pat, r, variant) ==
  [i \in 1..Len(pat) |->
     LET kind == CASE pat[i][1] = "R" -> r [] pat[i][1] = "Q" -> (IF r = "U" THEN "Ut" ELSE "U") [] OTHER -> "W" IN
     OutS(kind, IF kind = "W" THEN DefVal("W", i) ELSE RepVal(variant, i), pat[i][2])]
G7rep ==
  UNION {UNION {UNION {UNION {
    LET on == r \in {"U", "Ut", "Wn", "W", "Ws"} IN      \* "L"/"Xn"/"X" repeated while NOT allowlisted, and allowlisted
    StepsOf("G7", Skel(PU, <<"p2wpkh">>, RepOuts(pat, r, variant), <<>>, on, on), {FS("one")}, ap)
      \cup (IF r \in {"L", "Xn", "X", "Lp"}
            THEN StepsOf("G7", Skel(PU, <<"p2wpkh">>, RepOuts(pat, r, variant), <<>>, TRUE, TRUE), {FS("one")}, ap)
            ELSE {})
    : ap \in BOOLEAN} : variant \in {"same", "ab", "ba", "tiny"}}
    : r \in {"U", "Ut", "Xn", "L", "Wn", "W", "Ws", "X", "Lp"}} : pat \in RepPatterns}
\* the funding script of one channel twice: only the output at the outpoint funds it
G7fund ==
  UNION {UNION {
    StepsOf("G7", Skel(PU, <<"p2wpkh">>,
                       <<OutS("F", ChanVal, 1), OutS("F", v2, 1), OutS("W", B(300017), 9)>>,
                       <<Chan(ChanVal, TRUE, Big0, "active", at)>>, TRUE, TRUE), {FS("one")}, ap)
      \cup StepsOf("G7", Skel(PU, <<"p2wpkh">>,
                       <<OutS("U", B(7), 1), OutS("F", ChanVal, 1), OutS("U", B(7), 1), OutS("F", v2, 1)>>,
                       <<Chan(ChanVal, TRUE, Big0, "active", 2 * at)>>, TRUE, TRUE), {FS("one")}, ap)
    : ap \in BOOLEAN} : at \in {1, 2}, v2 \in {ChanVal, B(7)}}
\* inputs from one key, equal values (also while funding, also not known to be segwit)
G7in ==
  LET outsW == <<OutS("W", B(100017), 9)>>
      outsF == <<OutS("F", ChanVal, 1), OutS("W", B(100017), 9)>>
      chF   == <<Chan(ChanVal, TRUE, Big0, "active", 1)>>
      dup(ic, slots, outs, chans, vals, label) ==
        Direct("G7", label, "small", WithInSlots(Skel(PU, ic, outs, chans, TRUE, TRUE), slots), vals) IN
  { dup(<<"p2wpkh", "p2wpkh">>, <<1, 1>>, outsW, <<>>, <<B(50009), B(50009)>>, "dup-in2"),
    dup(<<"p2wpkh", "p2wpkh", "p2wpkh">>, <<1, 1, 1>>, outsW, <<>>, <<B(33340), B(33340), B(33340)>>, "dup-in3"),
    dup(<<"p2wpkh", "p2tr", "p2wpkh">>, <<1, 2, 1>>, outsW, <<>>, <<B(50000), B(18), B(50000)>>, "dup-in-sep"),
    dup(<<"p2wpkh", "p2wpkh">>, <<1, 1>>, outsF, chF, <<B(550509), B(550509)>>, "dup-in-fund"),
    dup(<<"p2pkh", "p2pkh">>, <<1, 1>>, outsF, chF, <<B(550509), B(550509)>>, "dup-in-fund-nonsegwit"),
    dup(<<"p2pkh", "p2pkh">>, <<1, 1>>, outsW, <<>>, <<B(50009), B(50009)>>, "dup-in-nonsegwit"),
    dup(<<"p2wpkh", "p2wpkh">>, <<1, 1>>, outsW, <<>>, <<B(5000000), B(5000000)>>, "dup-in-overpay") }
\* two channels of EQUAL value funded at once; and the same with the outpoints crossed (each channel's
\* outpoint is the output carrying the OTHER channel's funding script)
G7twin ==
  UNION {
    StepsOf("G7", Skel(PU, <<"p2wpkh">>,
                       <<OutS("F", ChanVal, 1), OutS("F", ChanVal, 2), OutS("W", B(300017), 9)>>,
                       <<Chan(ChanVal, TRUE, Big0, "active", a[1]), Chan(ChanVal, TRUE, Big0, cm, a[2])>>,
                       TRUE, TRUE), {FS("one")}, TRUE)
    : a \in {<<1, 2>>, <<2, 1>>}, cm \in {"active", "none"}}
G7 == G7rep \cup G7fund \cup G7in \cup G7twin

\* G8: OVERLAPPING class memberships - a wallet address that is also allowlisted as an address, or covered
\* by the node's OWN account xpub in the allowlist (with the right path, a wrong path, no path), an
\* allowlisted-xpub script that is also listed, an allowlisted script that is a channel's funding script
\* (good and defective channels), a foreign script listed and given with a path ...; with fees as large
\* as the overlapping output (each output counts ONCE) under unlimited and limited fee velocity
G8kinds == {"W", "Ws", "Wt", "Wk", "Wx", "Wl", "Wn", "X", "Xk", "Xx", "Xn", "U", "Up"}
G8fees  == {FS("one"), FS("cap"), FS("cap+1"), FS("rcap+1"), FS("under1")} \cup BurnSpecs
G8own ==
  UNION {UNION {UNION {UNION {UNION {
    LET sk == [Skel(p, <<"p2wpkh">>, outs, <<>>, TRUE, TRUE) EXCEPT !.ownxpub = ox] IN StepsOf("G8", sk, G8fees, TRUE)
    : outs \in {<<OutA(k, B(100017), al)>>, <<OutA(k, B(100017), al), Out("W", B(200017))>>,
                <<Out("W", B(200017)), OutA(k, B(100017), al)>>}}
    : p \in {PU, PH}}
    : ox \in (IF KindTab[k].own = "wallet" THEN BOOLEAN ELSE {FALSE})}
    : al \in BOOLEAN} : k \in G8kinds}
G8fund ==
  UNION {UNION {UNION {
    StepsOf("G8", Skel(PU, <<"p2wpkh">>, <<OutA(kind, Delta(ChanVal, x.d), TRUE), Out("W", B(200017))>>,
                       <<Chan(ChanVal, x.ob, B(x.push), x.cm, at)>>, TRUE, TRUE),
            {FS("one"), FS("out1+cap"), FS("cap+1")}, TRUE)
    : at \in {0, 1}} : kind \in {x.kind, "Fp"}} : x \in SD}
G8 == G8own \cup G8fund

\* G9: ONE transaction with a channel funding output (good channel; also the single-defect channels), an
\* unknown destination (before / after / around it; a foreign script, a wallet script given without its
\* path, a script that is not allowlisted) AND inputs that are / are not known to be segwit; approver
\* answering yes and no; the channel bound to the output or elsewhere (then nothing is funded)
G9ins == {<<"p2wpkh">>, <<"p2wpkh", "p2tr">>, <<"p2pkh">>, <<"p2wpkh", "p2pkh">>, <<"p2pkh", "p2wpkh">>,
          <<"p2wpkh", "p2sh">>, <<"p2wpkh", "p2wpkhU">>, <<"p2wpkh", "odd">>}
G9shapes(u) ==   \* <<kinds, position of the funding output>>
  { <<<<"F", u>>, 1>>, <<<<u, "F">>, 2>>, <<<<"F", "W", u>>, 1>>, <<<<u, "F", "W">>, 2>>, <<<<u, "F", u>>, 2>> }
G9good ==
  UNION {UNION {UNION {UNION {UNION {UNION {
    LET ks   == sh[1]
        outs == [k \in 1..Len(ks) |-> Out(ks[k], IF ks[k] = "F" THEN ChanVal ELSE DefVal(ks[k], k))]
        lst  == u # "L"          \* "L" here is a script that is NOT in the allowlist
    IN StepsOf("G9", Skel(PU, ic, outs, <<Chan(ChanVal, TRUE, Big0, "active", IF here THEN sh[2] ELSE 0)>>, lst, TRUE),
               fees, ap)
    : fees \in {{FS("one")}, {FS("rcap+1")}}} : ap \in BOOLEAN} : here \in BOOLEAN} : ic \in G9ins}
    : sh \in G9shapes(u)} : u \in {"U", "Wn", "L"}}
G9bad ==
  UNION {UNION {UNION {
    StepsOf("G9", Skel(PU, ic, <<Out("U", B(7)), Out(x.kind, Delta(ChanVal, x.d)), Out("W", B(200017))>>,
                       <<Chan(ChanVal, x.ob, B(x.push), x.cm, 2)>>, TRUE, TRUE), {FS("one")}, ap)
    : ap \in BOOLEAN} : ic \in {<<"p2pkh">>, <<"p2wpkh", "p2pkh">>}} : x \in SD}
G9 == G9good \cup G9bad

\* G10: INPUT KINDS as a dimension of the fee bound.  The weight the fee rate is taken over depends on
\* what each input will look like once signed (Onchain!FinalWeight): native P2WPKH, P2SH-wrapped P2WPKH
\* presented with the scriptSig still empty ("p2sh") and with the witness program already pushed
\* ("p2shS", 92 WU that are then part of the presented weight and must not be charged again), P2PKH
\* (signature in the scriptSig, 4 WU per byte), taproot key path (one 64-byte signature), a unilateral
\* close output (P2WSH, given stack), an input somebody else signs - alone, next to a native input
\* (either order), twice, and (thorough) every ordered pair and three of a kind; no channel is funded,
\* every output is beneficial, so the fee-rate rule is the only one in play.  Fees: just below / at /
\* just above the cap the REFERENCE computes from the final weight (rcap-1, rcap, rcap+1), the code's
\* own edge at HEAD (cap, cap+1) and the intended algorithm's (icap, icap+1), a plainly acceptable one
\* (half); policies with the fee velocity unlimited (mainnet and testnet maximum rates) and, thorough,
\* limited.  Every step of this group is also SIGNED by the real node (sign = TRUE): the measured
\* weight of the finalised transaction validates Onchain!FinalWeight (ImplOnchain, FinalWeightOK).
G10kinds == {"p2wpkh", "p2sh", "p2shS", "p2pkh", "p2tr", "uck", "odd"}
G10ins(T) ==
  {<<k>> : k \in G10kinds} \cup {<<k, k>> : k \in G10kinds \ {"odd"}}
    \cup {<<"p2wpkh", k>> : k \in G10kinds} \cup {<<k, "p2wpkh">> : k \in G10kinds}
    \cup (IF T = "quick" THEN {}
          ELSE {<<k, j>> : k \in G10kinds, j \in G10kinds} \cup {<<k, k, k>> : k \in G10kinds \ {"odd"}}
                 \cup {<<"p2wpkh", k, k>> : k \in G10kinds})
G10fees == {FS("half"), FS("rcap-1"), FS("rcap"), FS("rcap+1"), FS("cap"), FS("cap+1"), FS("icap"), FS("icap+1")}
G10(T) ==
  LET SK   == IF T = "quick" THEN {<<"W">>, <<"W", "L">>} ELSE {<<>>, <<"W">>, <<"W", "L">>, <<"Wt", "Ws", "X">>}
      pols == IF T = "quick" THEN {PU, PX} ELSE {PU, PX, PD, PH}
  IN UNION {UNION {UNION {
       {[s EXCEPT !.sign = TRUE] : s \in StepsOf("G10", Skel(p, ic, OutsOf(ks), <<>>, TRUE, TRUE), G10fees, TRUE)}
       : p \in pols} : ic \in G10ins(T)} : ks \in SK}

Stateless(T) == G1(T) \cup G2(T) \cup G3(T) \cup G4 \cup G5 \cup G7 \cup G8 \cup G9 \cup G10(T)

\* G6: sessions on one node under a small hourly fee velocity limit; `jump` moves the clock
\* past the whole window before the step
SessSk == Skel(PH, <<"p2wpkh">>, OutsOf(<<"W">>), <<>>, TRUE, TRUE)
SessFee(n) == [n |-> n, fam |-> "session"]
SessTotal(n) ==
  CASE n = "cap" -> BAdd(SumOuts(SessSk), CapCode(SessSk))
    [] n = "fill" -> BAdd(SumOuts(SessSk), BSub(B(25000), BMul(CapCode(SessSk), 2)))       \* reaches the limit exactly
    [] n = "fill+1" -> BAdd(SumOuts(SessSk), BAdd(BSub(B(25000), BMul(CapCode(SessSk), 2)), B(1)))
    [] n = "one" -> BAdd(SumOuts(SessSk), B(1))
    [] n = "w64+0" -> BAdd(SumOuts(SessSk), N64)
SessStep(n, jump) ==
  [grp |-> "G6", fee |-> n, fam |-> (IF n = "w64+0" THEN "wrap64" ELSE "session"), approve |-> TRUE, jump |-> jump]
    @@ SetIns(SessSk, SessTotal(n))
\* two more shapes at their own fee cap: two beneficial outputs; a channel being funded
SessSk2 == Skel(PH, <<"p2wpkh">>, OutsOf(<<"W", "L">>), <<>>, TRUE, TRUE)
SessSk3 == LET outs == OutsOf(<<"F", "W">>) IN Skel(PH, <<"p2wpkh">>, outs, GoodChansFor(outs), TRUE, TRUE)
SessCap(sk, n) ==
  [grp |-> "G6", fee |-> n, fam |-> "session", approve |-> TRUE, jump |-> FALSE]
    @@ SetIns(sk, BAdd(SumOuts(sk), CapCode(sk)))
\* an output that is in the wallet AND allowlisted, 10 000 sat lost per step (below the fee cap):
\* three of them exceed the hourly limit - the velocity accounting must see each
\* (input = twice the output: a validator counting the output twice sees no loss at all)
SessSk4 == Skel(PH, <<"p2wpkh">>, <<OutA("W", B(10000), TRUE)>>, <<>>, TRUE, TRUE)
SessOvl == [grp |-> "G6", fee |-> "ovl", fam |-> "session", approve |-> TRUE, jump |-> FALSE]
             @@ SetIns(SessSk4, B(20000))
SessAlphabet == {SessStep(n, j) : n \in {"cap", "fill", "fill+1", "one", "w64+0"}, j \in BOOLEAN}
                  \cup {SessCap(SessSk2, "cap2"), SessCap(SessSk3, "cap3"), SessOvl}
Sessions(T) ==
  LET n == IF T = "quick" THEN 3 ELSE 4 IN
  {s \in [1..n -> SessAlphabet] : ~s[1].jump}

AllSessions(T) == {<<s>> : s \in Stateless(T)} \cup Sessions(T)

\* the same matrix in independently computable parts (generated by parallel TLC runs)
GroupNames == <<"G1a", "G1b", "G1c", "G1d", "G2", "G345", "G6", "G10">>
GroupSteps(T, g) ==
  CASE g = "G1a" -> G1part(T, {"", "W", "Ws", "Wt", "Wk", "Wx"})
    [] g = "G1b" -> G1part(T, {"Wl", "Wn", "L", "Lp", "X"})
    [] g = "G1c" -> G1part(T, {"Xk", "Xt", "Xs", "Xx", "Xn"})
    [] g = "G1d" -> G1part(T, {"U", "Ut", "Up", "F", "Fb", "Fp"})
    [] g = "G2"  -> G2(T)
    [] g = "G345" -> G3(T) \cup G4 \cup G5 \cup G7 \cup G8 \cup G9
    [] g = "G10" -> G10(T)
GroupSessions(T, g) == IF g = "G6" THEN Sessions(T) ELSE {<<s>> : s \in GroupSteps(T, g)}
=============================================================================
